#!/usr/bin/env python3
import subprocess, re
p = '/verif/DESIGN.md'
s = open(p).read()
tab = subprocess.check_output(['python3', '/verif/tools_seed_table.py']).decode()
start = s.index('| seeded defect | needs | reported by |') if '| seeded defect | needs | reported by |' in s else s.index('| id | change | needs | quick tier |')
# table ends at first blank line after start
end = s.find('\n\n', start)
if end < 0:
    end = len(s)
s = s[:start] + tab.rstrip('\n') + s[end:]
open(p, 'w').write(s)
print("table rows:", tab.count('\n') - 2)
