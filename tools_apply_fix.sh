#!/bin/bash
# usage: tools_apply_fix.sh Cxx-n   -> applies /verif/proposed_fixes/Cxx-n.diff to /repo and commits with the .msg
set -e
id=$1
cd /repo
git apply --check /verif/proposed_fixes/$id.diff
git apply /verif/proposed_fixes/$id.diff
git add -A
git commit -q -F /verif/proposed_fixes/$id.msg
echo "$id -> $(git log --format=%h -1)"
