#!/bin/bash
# usage: tools_seed_recheck.sh <seed dir name, e.g. C10-1> <check id> : re-runs the quick tier against the seeded patch and records the result
sd=$1; c=$2
scratch=/tmp/recheck_${sd}_$$; git -C /repo worktree add --detach $scratch -q
(cd $scratch && git apply /verif/seeded/$sd/patch.diff) || echo "PATCH DOES NOT APPLY"
(cd /verif && VERIF_REPO=$scratch timeout 3000 /venv/bin/python -m mc.run $c --tier quick > /tmp/recheck_$sd.log 2>&1; echo $? > /tmp/recheck_$sd.rc)
rc=$(cat /tmp/recheck_$sd.rc); det=$(grep -m1 "detail:" /tmp/recheck_$sd.log | cut -c1-300)
git -C /repo worktree remove --force $scratch; git -C /repo worktree prune
python3 - "$sd" "$c" "$rc" "$det" <<'PY'
import json,sys
sd,c,rc,det=sys.argv[1:5]
p=f'/verif/seeded/{sd}/meta.json'
m=json.load(open(p))
m.setdefault('rechecks_after_strengthening',[]).append({"check":c,"exit":int(rc),"first_detail":det})
json.dump(m,open(p,'w'),indent=1)
print(sd,c,"exit",rc,det[:160])
PY
