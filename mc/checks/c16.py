"""C16 - LDM operations are atomic under concurrent providers, consumers and maintenance (E2 + brute-force linearizability)."""
from __future__ import annotations

import itertools
import multiprocessing as mp

from mc import env as E
from mc import sched as SC
from mc.worlds import ldm as L

LEVEL = "model_checking"
SCOPE = ("local_dynamic_map/dictionary_database.py", "local_dynamic_map/ldm_service.py", "local_dynamic_map/ldm_service_reactive.py",
         "local_dynamic_map/ldm_maintenance.py", "local_dynamic_map/ldm_maintenance_reactive.py", "local_dynamic_map/if_ldm_3.py",
         "local_dynamic_map/if_ldm_4.py", "local_dynamic_map/ldm_service_threads.py", "local_dynamic_map/ldm_maintenance_thread.py")
SCHED_KW = dict(scope=SCOPE, horizon=2)
CAM, DENM, VAM = L.APP["CAM"], L.APP["DENM"], L.APP["VAM"]

# harness = (pre-operations run before the actors, advance of the clock before the actors start, actors = lists of operations)
SPECS = {
    # two providers add while a consumer queries
    "add_add_req": dict(pre=[("regp", CAM), ("regp", DENM), ("regc", CAM)], adv=0,
                        actors=[[("add", CAM, "camA", 5)], [("add", DENM, "denmA", 5)], [("req", CAM, (CAM, DENM))]]),
    # same provider adds twice concurrently (identifier allocation)
    "add_add_same": dict(pre=[("regp", CAM), ("regc", CAM)], adv=0,
                         actors=[[("add", CAM, "camA", 5)], [("add", CAM, "camC", 5)]]),
    # add || delete of an existing object || query
    "add_del_req": dict(pre=[("regp", CAM), ("regc", CAM), ("add", CAM, "camA", 5)], adv=0,
                        actors=[[("add", CAM, "camC", 5)], [("del", CAM, 0)], [("req", CAM, (CAM,))]]),
    # add || garbage collection with one object expiring || query
    # (the reactive LDM runs garbage collection inside add_provider_data after the insert: the add is two atomic steps,
    #  insert and collection, and a query between them legitimately sees both the new and the not-yet-collected object -
    #  "present at some instant during the call"; the sequential reference therefore orders the two steps separately)
    "add_trash_req": dict(pre=[("regp", CAM), ("regc", CAM), ("add", CAM, "camA", 1)], adv=2,
                          actors=[[("add", CAM, "camC", 5)], [("maint",)], [("req", CAM, (CAM,))]],
                          ref_actors=[[("add_nomaint", CAM, "camC", 5), ("maint",)], [("maint",)], [("req", CAM, (CAM,))]],
                          ref_parent={(0, 1): (0, 0)}),
    # subscription attendance (reactive on add, and explicit) racing with unsubscribe
    "sub_add_unsub": dict(pre=[("regp", CAM), ("regc", CAM), ("sub", CAM, (CAM,), "s0")], adv=0,
                          actors=[[("add", CAM, "camA", 5)], [("unsub", CAM, "s0")], [("attend",)]]),
    # registration changes racing with a query and a subscription
    "reg_dereg_req": dict(pre=[("regp", CAM), ("regc", CAM), ("add", CAM, "camA", 5)], adv=0,
                          actors=[[("deregc", CAM), ("regc", CAM)], [("req", CAM, (CAM,))], [("sub", CAM, (CAM,), "s1")]]),
    # two attendance passes overlap (periodic thread + reactive attendance): a subscription with a notification interval
    # must be notified once per interval
    "attend_attend": dict(pre=[("regp", CAM), ("regc", CAM), ("subn", CAM, (CAM,), "s2", 1000), ("add", CAM, "camA", 9), ("attend",)], adv=2,
                          actors=[[("attend",)], [("attend",)], [("req", CAM, (CAM,))]]),
    # update of both attributes a two-statement filter looks at || filtered query || plain query: the filter must see the
    # old or the new object, never a mixture, and a result handed out must not change afterwards
    "upd_filtered_req": dict(pre=[("regp", CAM), ("regc", CAM), ("add", CAM, "camA", 5)], adv=0,
                             actors=[[("upd", CAM, 0, "camC")], [("reqf", CAM, (CAM,), "camA", "camC")], [("req", CAM, (CAM,))]]),
    # an attendance pass overlaps with a consumer registering and subscribing: the acknowledged subscription must survive
    # (a final attendance, run after the actors, must notify it)
    "attend_reg_sub": dict(pre=[("regp", CAM), ("add", CAM, "camA", 9)], adv=0,
                           actors=[[("attend",)], [("regc", CAM), ("sub", CAM, (CAM,), "s3")], [("regc", VAM)]],
                           post=[("attend",), ("unsub", CAM, "s3")]),
    # two deletes of the same object race with its update: exactly one delete succeeds, the update hits or misses as a whole
    "del_del_upd": dict(pre=[("regp", CAM), ("regc", CAM), ("add", CAM, "camA", 5)], adv=0,
                        actors=[[("del", CAM, 0)], [("del", CAM, 0)], [("upd", CAM, 0, "camB")]],
                        post=[("req", CAM, (CAM,))]),
    # providers register and deregister concurrently, an add depends on the outcome: no registration lost or resurrected
    "regp_regp_deregp": dict(pre=[("regp", CAM), ("regc", CAM)], adv=0,
                             actors=[[("regp", DENM)], [("regp", VAM)], [("deregp", CAM), ("add", CAM, "camA", 5)]],
                             post=[("add", DENM, "denmA", 5), ("req", CAM, (CAM, DENM))]),
    # two consumers subscribe while a third subscription is cancelled; a final attendance must notify exactly the survivors
    "sub_sub_unsub": dict(pre=[("regp", CAM), ("regc", CAM), ("sub", CAM, (CAM,), "s0"), ("add", CAM, "camA", 9)], adv=0,
                          actors=[[("sub", CAM, (CAM,), "s4")], [("sub", CAM, (CAM,), "s5")], [("unsub", CAM, "s0")]],
                          post=[("attend",), ("unsub", CAM, "s4"), ("unsub", CAM, "s5")]),
    # update || query || maintenance
    "upd_req_trash": dict(pre=[("regp", CAM), ("regc", CAM), ("add", CAM, "camA", 5)], adv=0,
                          actors=[[("upd", CAM, 0, "camB")], [("req", CAM, (CAM,))], [("maint",)]]),
}


def canon_records(recs):
    out = []
    for r in recs:
        d = r.get("dataObject", r) if isinstance(r, dict) else r
        out.append(L.jtext(d))
    return tuple(sorted(out))


class LdmHarness:
    def __init__(self, name, perm=None):
        self.name = name
        self.spec = SPECS[name]
        self.perm = perm      # when set: run all operations sequentially in this order in ONE actor (sequential reference)

    def setup(self, s):
        self.s = s
        self.w = L.LdmWorld()
        self.sub_ids = {}
        self.raw_results = []       # (canonical form at return time, the objects handed out)
        self.results = {}
        self.stamps = {}
        self.clock = 0
        for op in self.spec["pre"]:
            self.do(op, pre=True)
        if self.spec["adv"]:
            s.now += self.spec["adv"]
        self.ops = [(ai, oi, op) for ai, a in enumerate(self.spec["actors"]) for oi, op in enumerate(a)]

    def do(self, op, pre=False):
        w = self.w
        k = op[0]
        if k == "regp":
            return w.reg_provider(op[1])
        if k == "regc":
            return w.reg_consumer(op[1])
        if k == "deregc":
            return w.dereg_consumer(op[1])
        if k == "deregp":
            return w.dereg_provider(op[1])
        if k == "add":
            return w.add(op[1], L.MSGS[op[2]](), op[3])
        if k == "add_nomaint":      # reference only: the insert step of a reactive add (collection is ordered separately)
            # suppress the collection step through the public method only (robust against renamed internals)
            m = w.ldm.ldm_maintenance
            m.collect_trash = lambda: None
            try:
                return w.add(op[1], L.MSGS[op[2]](), op[3])
            finally:
                del m.collect_trash
        if k == "upd":
            return w.update(op[1], op[2], L.MSGS[op[3]]())
        if k == "del":
            return w.delete(op[1], op[2])
        if k == "req":
            r = w.request(op[1], op[2])
            if not L.is_exc(r):
                self.raw_results.append((canon_records(r[1]), r[1]))
            return r if L.is_exc(r) else (r[0], canon_records(r[1]))
        if k == "reqf":
            # station id of the old message AND generationDeltaTime of the new one: true for neither version
            old_m, new_m = L.MSGS[op[3]](), L.MSGS[op[4]]()
            f = L.C.Filter(L.C.FilterStatement("header.stationId", L.C.ComparisonOperators.EQUAL, old_m["header"]["stationId"]),
                           L.C.LogicalOperators.AND,
                           L.C.FilterStatement("cam.generationDeltaTime", L.C.ComparisonOperators.EQUAL, new_m["cam"]["generationDeltaTime"]))
            r = w.request(op[1], op[2], filt=f)
            if not L.is_exc(r):
                self.raw_results.append((canon_records(r[1]), r[1]))
            return r if L.is_exc(r) else (r[0], canon_records(r[1]))
        if k == "maint":
            r = w.maintenance()
            return r if L.is_exc(r) else None
        if k == "attend":
            r = w.attend()
            return r if L.is_exc(r) else None
        if k == "sub":
            r = w.subscribe(op[1], op[2], op[3])
            if not L.is_exc(r):
                self.sub_ids[op[3]] = r[1]
                return r[0]
            return r
        if k == "subn":
            r = w.subscribe(op[1], op[2], op[3], notify=L.C.TimestampIts(op[4]))
            if not L.is_exc(r):
                self.sub_ids[op[3]] = r[1]
                return r[0]
            return r
        if k == "unsub":
            return w.unsubscribe(op[1], self.sub_ids.get(op[2], -1))
        raise ValueError(op)

    def _run_op(self, key, op):
        self.clock += 1
        call = self.clock
        res = self.do(op)
        self.clock += 1
        self.stamps[key] = (call, self.clock)
        self.results[key] = res

    def actors(self):
        if self.perm is not None:
            def seq():
                acts = self.spec.get("ref_actors", self.spec["actors"])
                for key in self.perm:
                    self._run_op(key, acts[key[0]][key[1]])
            return [("seq", seq)]
        out = []
        for ai, a in enumerate(self.spec["actors"]):
            def body(ai=ai, a=a):
                for oi, op in enumerate(a):
                    self._run_op((ai, oi), op)
            out.append((f"a{ai}", body))
        return out

    def final(self):
        w = self.w
        if not hasattr(self, "_post_done"):
            self._post_done = [repr(self.do(op)) for op in self.spec.get("post", [])]
        store = w.request(CAM, (CAM, DENM, VAM)) if True else None
        if not L.is_exc(store):
            store = (store[0], canon_records(store[1]))
        calls = tuple(sorted((c[0], canon_records(c[3])) for c in w.calls))
        return (store, w.registries(), calls, tuple(self._post_done))

    def outcome(self, s):
        if not hasattr(self, "_out"):
            real = {(ai, oi) for ai, a in enumerate(self.spec["actors"]) for oi, _ in enumerate(a)}
            self._out = (tuple(sorted((k, repr(v)) for k, v in self.results.items() if k in real)), repr(self.final()))
        return self._out

    def check(self, s):
        if self.perm is not None:
            return []
        out = self.outcome(s)
        bad = []
        for k, v in self.results.items():
            if L.is_exc(v):
                bad.append(dict(kind="operation_raised", harness=self.name, op=list(self.spec["actors"][k[0]][k[1]])[:2], exc=v[1] + ": " + v[2][:60]))
        for at_return, objs in self.raw_results:
            if canon_records(objs) != at_return:
                bad.append(dict(kind="query_result_changed_after_return", harness=self.name))
        ref = sequential_outcomes(self.name)
        keys = [(ai, oi) for ai, oi, _ in self.ops]
        ok = False
        parent = self.spec.get("ref_parent", {})
        for perm, o in ref.items():
            stamp = {k: self.stamps.get(parent.get(k, k)) for k in perm}
            pos = {k: i for i, k in enumerate(perm)}
            consistent = all(not (stamp[a][1] < stamp[b][0]) or pos[a] < pos[b] for a in perm for b in perm
                             if a != b and stamp[a] and stamp[b] and parent.get(a, a) != parent.get(b, b))
            if consistent and o == out:
                ok = True
                break
        if not ok and not bad:
            bad.append(dict(kind="not_linearizable", harness=self.name, results=[list(map(str, x)) for x in out[0]], final=out[1][:300]))
        return bad


class ThreadedHarness:
    """The threaded variants (LDMMaintenanceThread + LDMServiceThreads with their own threads, loops and locks) under the
    scheduler: at t = 1 s an add, a delete and a query meet the maintenance loop's collection of an expiring object, while the
    service loop attends a subscription at arbitrary moments.  Conservation oracle (the loops make the set of operations
    schedule-dependent, so no linearizability comparison): nothing raises or deadlocks, the query sees only objects present at
    some instant, the final store is exactly {new object}, every notification carries only stored objects."""
    name = "threaded_variants"
    perm = None

    def setup(self, s):
        from flexstack.facilities.local_dynamic_map.factory import LDMFactory
        self.s = s
        self.w = w = L.LdmWorld()
        with w:
            w.ldm = LDMFactory().create_ldm(w.area, "Thread", "Thread", "Dictionary")
        self.res = {}
        w.reg_provider(CAM)
        w.reg_consumer(CAM)
        self.id_a = w.add(CAM, L.MSGS["camA"](), 1)      # lapses at t = 1 s
        self.id_b = w.add(CAM, L.MSGS["camB"](), 9)
        self.sub = w.subscribe(CAM, (CAM,), "s0")
        self.texts = {k: L.jtext(L.MSGS[k]()) for k in ("camA", "camB", "camC")}

    def actors(self):
        w, s = self.w, self.s

        def a_add():
            s.sleep(1.0)
            self.res["add"] = w.add(CAM, L.MSGS["camC"](), 9, ts=L.its_ms(s.now))

        def a_del():
            s.sleep(1.0)
            self.res["del"] = w.delete(CAM, self.id_b)

        def a_req():
            s.sleep(1.0)
            self.res["req"] = w.request(CAM, (CAM,))

        def a_stop():
            s.sleep(2.2)
            self.res["before_stop"] = w.request(CAM, (CAM,))
            for obj in (w.ldm.ldm_maintenance, w.ldm.ldm_service):
                ev = getattr(obj, "stop_event", None)
                if ev is not None:
                    ev.set()
        return [("add", a_add), ("del", a_del), ("req", a_req), ("stop", a_stop)]

    def outcome(self, s):
        return (repr(sorted((k, repr(v)[:80]) for k, v in self.res.items())), len(self.w.calls), s.deadlock)

    def check(self, s):
        bad = []
        t = self.texts
        for k, v in self.res.items():
            if L.is_exc(v):
                bad.append(dict(kind="operation_raised", harness=self.name, op=[k], exc=v[1] + ": " + v[2][:60]))
        if bad:
            return bad
        if self.res.get("del") != 0:
            bad.append(dict(kind="threaded_delete_failed", harness=self.name, result=repr(self.res.get("del"))))
        req = self.res.get("req")
        if req is not None:
            got = set(canon_records(req[1]))
            if not got <= {t["camA"], t["camB"], t["camC"]} or len(got) != len(req[1]):
                bad.append(dict(kind="threaded_query_foreign_or_duplicate", harness=self.name))
        fin = self.res.get("before_stop")
        if fin is not None and set(canon_records(fin[1])) != {t["camC"]} or (fin is not None and len(fin[1]) != 1):
            bad.append(dict(kind="threaded_final_store", harness=self.name, got=len(fin[1]),
                            has=[k for k in t if t[k] in set(canon_records(fin[1]))]))
        for c in self.w.calls:
            objs = set(canon_records(c[3]))
            if not objs <= {t["camA"], t["camB"], t["camC"]}:
                bad.append(dict(kind="threaded_notification_foreign_object", harness=self.name))
        return bad


_SEQ = {}


def sequential_outcomes(name):
    """outcomes of every program-order-respecting permutation of the operations, executed sequentially on the same real code"""
    if name in _SEQ:
        return _SEQ[name]
    spec = SPECS[name]
    acts = spec.get("ref_actors", spec["actors"])
    keys = [(ai, oi) for ai, a in enumerate(acts) for oi, _ in enumerate(a)]
    res = {}
    saved = (E.ENV.mode, E.ENV.sched)
    for perm in itertools.permutations(keys):
        if any(perm.index((ai, oi)) > perm.index((ai, oi + 1)) for ai, a in enumerate(acts) for oi in range(len(a) - 1)):
            continue
        s, h, bad = SC.execute(lambda: LdmHarness(name, perm), [], dict(scope=()))
        res[perm] = h.outcome(s)
    E.ENV.mode, E.ENV.sched = saved
    _SEQ[name] = res
    return res


def make(name):
    return ThreadedHarness() if name == ThreadedHarness.name else LdmHarness(name)


def run(ctx):
    thorough = ctx.tier == "thorough"
    bound = 1 if not thorough else 2
    names = list(SPECS)
    for n in names:
        sequential_outcomes(n)      # before forking: workers inherit the sequential reference
    tot = steps = outcomes = 0
    samples = []
    capped = False
    with mp.Pool(16) as pool:
        for name in names:
            st = SC.explore(make, (name,), bound, SCHED_KW, pool=pool)
            tot += st["schedules"]
            steps += st["steps"]
            outcomes += len(st["outcomes"])
            capped = capped or st["capped"]
            if st["sample"]:
                samples.append(dict(harness=name, **st["sample"]))
            ctx.parts[name] = dict(schedules=st["schedules"], preemption_bound=bound, points_max=st["max_points"], steps=st["steps"],
                                   distinct_outcomes=len(st["outcomes"]), sequential_orders=len(_SEQ[name]),
                                   distinct_sequential_outcomes=len(set(_SEQ[name].values())), violations=st["nviol"])
            for rec, choices in st["violations"]:
                ctx.violation(rec, replay=dict(harness=name, choices=choices))
        if thorough:
            # the threaded variants with their own loops: every NON-preemptive schedule (the six threads take turns at blocking
            # points only; one preemption would already mean millions of schedules), conservation oracle
            name = ThreadedHarness.name
            st = SC.explore(make, (name,), 0, SCHED_KW, pool=pool)
            tot += st["schedules"]
            steps += st["steps"]
            outcomes += len(st["outcomes"])
            capped = capped or st["capped"]
            ctx.parts[name] = dict(schedules=st["schedules"], preemption_bound=0, points_max=st["max_points"], steps=st["steps"],
                                   distinct_outcomes=len(st["outcomes"]), violations=st["nviol"])
            for rec, choices in st["violations"]:
                ctx.violation(rec, replay=dict(harness=name, choices=choices))
    ctx.coverage.update(
        states=outcomes, transitions=tot, traces_validated_against_impl=tot, scheduler_steps=steps, exhaustive=not capped, samples=samples[:4],
        explanation=("every schedule with at most the stated number of preemptions of each harness (scheduling points before every "
                     "shared-state bytecode of the LDM modules and at every lock operation) executed on a fresh real LDM; each outcome "
                     "(per-operation results, callback payloads, final store and registries) must equal the outcome of SOME sequential order "
                     "of the same operations, consistent with real-time precedence, executed on the same real implementation"))
    ctx.assumptions += ["C-level atomicity of dict/list operations (CPython)", "the sequential behaviour of the LDM is the reference (sequential defects are C12-C14's subject)",
                        "TinyDB back-end not explored (file I/O is outside the scheduler)",
                        "the bodies of the maintenance and service threads are explored as explicit actors on the reactive classes; the "
                        "threaded subclasses themselves (own loops and lock) only at preemption bound 0, thorough tier"]


def replay(path):
    import json
    rec = json.load(open(path))
    print(json.dumps(rec["violation"], indent=1))
    rp = rec["replay"]
    s, h, bad = SC.execute(lambda: make(rp["harness"]), rp["choices"], SCHED_KW)
    print(h.outcome(s))
    print(bad or "ok")
    return 1 if bad else 0
