"""C07 - geo-addressed packets are delivered exactly inside the destination area (E3 lattice through the real receive path)."""
from __future__ import annotations

import math
import multiprocessing as mp

from mc import env  # noqa: F401
from mc.ref import gn_codec as G
from mc.ref import geo_area as A
from mc.worlds import stations as S
from mc.worlds.stations import Net

LEVEL = "exploration"

ITS_EPOCH = 1072915200
MID_R, MID_S = b"\0\0\0\0\0\x0f", b"\0\0\0\0\0\x01"
ADDR_S = G.addr_encode(0, 5, MID_S)

CENTRES = [(41.0, 2.0), (-33.8688, 151.2093), (40.7128, -74.006), (-22.9068, -43.1729), (0.00001, 0.00001),
           (-0.00001, -0.00001), (80.0, 20.0), (-65.0, -170.0), (10.0, 179.9995)]
AZIMUTHS = [0, 30, 45, 90, 135, 180, 270, 359]
FACTORS = [0.0, 0.5, 0.9, 0.99, 1.01, 1.1, 1.5, 3.0]
BEARINGS = [i * 22.5 for i in range(16)]
SHAPE_NAME = {0: "circle", 1: "rect", 2: "ellipse"}


def tst_now(net):
    return int((net.now - ITS_EPOCH + 5) * 1000) % 2**32


def _mk_net(algo="SIMPLE", max_area=10):
    net = Net()
    net.add("R", MID_R, lat=0.0, lon=0.0, with_btp=False,
            mib_kw=dict(itsGnAreaForwardingAlgorithm=getattr(S.AreaForwardingAlgorithm, algo), itsGnMaxGeoAreaSize=max_area))
    return net


def _place(net, lat_i, lon_i):
    r = net.stations["R"]
    net.call(r.refresh, lat_i / 1e7, lon_i / 1e7)
    pv = r.gn.ego_position_vector
    return pv.latitude, pv.longitude


def membership_job(args):
    ci, shape, kind, ab_list, azimuths = args
    clat, clon = int(round(CENTRES[ci][0] * 1e7)), int(round(CENTRES[ci][1] * 1e7))
    net = _mk_net()
    r = net.stations["R"]
    bad = []
    n = decided = band = 0
    sn = 0
    outcomes = set()
    for (a, b) in ab_list:
        for az in (azimuths if shape != 0 else [0, 45]):
            for bearing in BEARINGS:
                ext = A.extent(shape, a, b, az, bearing)
                for fct in FACTORS:
                    plat, plon = A.destination(clat, clon, bearing, ext * fct)
                    if not (-900000000 <= plat <= 900000000):
                        continue
                    n += 1
                    try:
                        elat, elon = _place(net, plat, plon)
                    except Exception as e:  # noqa: BLE001
                        bad.append(dict(kind="refresh_exception", exc=repr(e)[:100]))
                        continue
                    verdict = A.classify(shape, clat, clon, a, b, az, elat, elon)
                    if verdict == "band":
                        band += 1
                        continue
                    decided += 1
                    sn = (sn + 1) % 65536
                    pkt = G.build(kind, so_addr=ADDR_S, so=dict(tst=tst_now(net), lat=clat, lon=clon, pai=1), sn=sn, rhl=1, mhl=1,
                                  nh=G.CNH_BTPB, payload=b"\x07\xd1\x00\x00geo", area=dict(lat=clat, lon=clon, a=a, b=b, angle=az, shape=shape))
                    r.gn_indications.clear()
                    net.sent.clear()
                    rec = dict(shape=SHAPE_NAME[shape], transport=kind, centre=ci, a=a, b=b, azimuth=az, bearing=bearing, factor=fct,
                               rotated=bool(shape != 0 and a != b and az % 180 != 0), expected=verdict)
                    try:
                        net.inject("R", pkt)
                    except Exception as e:  # noqa: BLE001
                        bad.append(dict(kind="receive_exception", exc=f"{type(e).__name__}: {str(e)[:60]}", **rec))
                        continue
                    got = len(r.gn_indications)
                    outcomes.add((verdict, got))
                    if got != (1 if verdict == "inside" else 0):
                        bad.append(dict(kind="delivered_outside" if verdict == "outside" else "not_delivered_inside", delivered=got,
                                        point=[elat, elon], **rec))
                    if net.sent:
                        bad.append(dict(kind="forwarded_with_rhl_1", **rec))
    return n, decided, band, bad, len(outcomes)


def size_job(args):
    """Area size control at the source and at the forwarder."""
    max_km2, shape = args
    bad = []
    n = 0
    lim = max_km2 * 1e6
    if shape == 0:
        r0 = math.sqrt(lim / math.pi)
        cand = [(int(r0) + d, 0) for d in (-1, 0, 1, 2)] + [(1, 0), (65535, 0)]
    else:
        k = math.pi if shape == 2 else 4.0
        s0 = math.sqrt(lim / k)
        base = [int(s0) + d for d in (-1, 0, 1, 2)]
        cand = [(x, y) for x in base for y in base] + [(1, 1), (65535, 1), (1, 65535), (65535, 65535), (int(lim / k / 10) , 10), (10, int(lim / k / 10) + 1)]
    cand = [(max(1, min(65535, x)), max(0 if shape == 0 else 1, min(65535, y))) for x, y in cand]
    for kind in ("gbc", "gac"):
        for (a, b) in cand:
            too_large = A.area_m2(shape, a, b) > lim
            # ---- source ----
            net = _mk_net("SIMPLE", max_km2)
            r = net.stations["R"]
            _place(net, 410000000, 20000000)
            ht = S.HeaderType.GEOBROADCAST if kind == "gbc" else S.HeaderType.GEOANYCAST
            hst = S.GeoBroadcastHST(shape) if kind == "gbc" else S.GeoAnycastHST(shape)
            req = S.GNDataRequest(upper_protocol_entity=S.CommonNH.BTP_B, packet_transport_type=S.PacketTransportType(ht, hst),
                                  data=b"\x07\xd1\x00\x00x", length=5, max_hop_limit=3,
                                  area=S.Area(latitude=410000000, longitude=20000000, a=a, b=b, angle=0))
            n += 1
            rec = dict(role="source", transport=kind, shape=SHAPE_NAME[shape], a=a, b=b, max_km2=max_km2, too_large=too_large)
            try:
                conf = net.call(r.gn.gn_data_request, req)
                code = conf.result_code
                if too_large and (code != S.ResultCode.GEOGRAPHICAL_SCOPE_TOO_LARGE or net.sent):
                    bad.append(dict(kind="oversize_request_not_refused", code=str(code), sent=len(net.sent), **rec))
                if not too_large and (code != S.ResultCode.ACCEPTED or len(net.sent) != 1):
                    bad.append(dict(kind="valid_request_refused", code=str(code), sent=len(net.sent), **rec))
            except Exception as e:  # noqa: BLE001
                bad.append(dict(kind="request_exception", exc=f"{type(e).__name__}: {str(e)[:60]}", **rec))
            # ---- forwarder (ego inside the area for GBC; outside for GAC, sender outside too) ----
            net = _mk_net("SIMPLE", max_km2)
            r = net.stations["R"]
            if kind == "gbc":
                _place(net, 410000000, 20000000)
                so = dict(tst=tst_now(net), lat=410000000, lon=20000000, pai=1)
            else:
                far = A.extent(shape, a, b, 0, 0) * 3 + 50
                plat, plon = A.destination(410000000, 20000000, 0, far)
                _place(net, plat, plon)
                slat, slon = A.destination(410000000, 20000000, 0, far * 1.2)
                so = dict(tst=tst_now(net), lat=slat, lon=slon, pai=1)
            pkt = G.build(kind, so_addr=ADDR_S, so=so, sn=9, rhl=3, mhl=3, nh=G.CNH_BTPB, payload=b"\x07\xd1\x00\x00x",
                          area=dict(lat=410000000, lon=20000000, a=a, b=b, angle=0, shape=shape))
            n += 1
            rec["role"] = "forwarder"
            try:
                net.inject("R", pkt)
                fw = len(net.sent)
                if too_large and fw:
                    bad.append(dict(kind="oversize_forwarded", **rec))
                if not too_large and fw != 1:
                    bad.append(dict(kind="valid_not_forwarded", forwarded=fw, **rec))
                if kind == "gbc" and len(r.gn_indications) != 1:
                    bad.append(dict(kind="not_delivered_inside", delivered=len(r.gn_indications), **rec))
            except Exception as e:  # noqa: BLE001
                bad.append(dict(kind="receive_exception", exc=f"{type(e).__name__}: {str(e)[:60]}", **rec))
    return n, n, 0, bad, 2


def annexd_job(args):
    """Annex D selection observed at a CBF forwarder: AREA -> buffered with timer, NON-AREA -> sent at once, DISCARD -> nothing."""
    ci, shape, az = args
    clat, clon = int(round(CENTRES[ci][0] * 1e7)), int(round(CENTRES[ci][1] * 1e7))
    a, b = (300, 300) if shape == 0 else (400, 100)
    bad = []
    n = 0
    outcomes = set()
    for kind in ("gbc", "gac"):
        for ego_f, ego_bearing in ((0.5, 10.0), (2.5, 100.0), (0.9, 200.0), (1.5, 290.0)):
            for se in ("pai0_inside", "pai1_inside", "pai1_outside", "pai0_outside"):
                net = _mk_net("CBF")
                r = net.stations["R"]
                plat, plon = A.destination(clat, clon, ego_bearing, A.extent(shape, a, b, az, ego_bearing) * ego_f)
                elat, elon = _place(net, plat, plon)
                ego_v = A.classify(shape, clat, clon, a, b, az, elat, elon)
                sb = 45.0
                sf = 0.5 if se.endswith("inside") else 2.0
                slat, slon = A.destination(clat, clon, sb, A.extent(shape, a, b, az, sb) * sf)
                se_v = A.classify(shape, clat, clon, a, b, az, slat, slon)
                if ego_v == "band" or se_v == "band":
                    continue
                pai = 1 if se.startswith("pai1") else 0
                pkt = G.build(kind, so_addr=ADDR_S, so=dict(tst=tst_now(net), lat=slat, lon=slon, pai=pai), sn=3, rhl=3, mhl=3, nh=G.CNH_BTPB,
                              payload=b"\x07\xd1\x00\x00d", area=dict(lat=clat, lon=clon, a=a, b=b, angle=az, shape=shape))
                n += 1
                rec = dict(transport=kind, shape=SHAPE_NAME[shape], azimuth=az, centre=ci, ego=ego_v, sender=se_v, pai=pai,
                           rotated=bool(shape != 0 and az % 180 != 0))
                try:
                    net.inject("R", pkt)
                except Exception as e:  # noqa: BLE001
                    bad.append(dict(kind="receive_exception", exc=f"{type(e).__name__}: {str(e)[:60]}", **rec))
                    continue
                sent, timers, dl = len(net.sent), len(net.pending_timers()), len(r.gn_indications)
                if ego_v == "inside":
                    exp = ("deliver", 0, 1) if kind == "gbc" else ("deliver", 0, 0)    # GAC inside: deliver and stop
                elif pai and se_v == "inside":
                    exp = ("none", 0, 0)                                              # DISCARD
                else:
                    exp = ("none", 1, 0)                                              # NON-AREA forwarding (greedy, BCAST fallback)
                got = ("deliver" if dl else "none", sent, timers)
                outcomes.add((kind, exp))
                if dl > 1 or got != exp:
                    bad.append(dict(kind="annex_d_selection", got=list(got), expected=list(exp), **rec))
    return n, n, 0, bad, len(outcomes)


def _run(j):
    return j[0].__name__, j[0](j[1])


def run(ctx):
    thorough = ctx.tier == "thorough"
    if thorough:
        sizes = [1, 10, 100, 1000, 1784, 65535]
        ab_circle = [(x, 0) for x in sizes] + [(100, 37), (100, 250), (1784, 1784), (1000, 65535), (65535, 1)]
        ab_other = [(x, y) for x in sizes for y in sizes]
        azs = AZIMUTHS
    else:
        # a circle's distance-b field is meaningless (0 from a conformant sender) and must not influence the verdict
        ab_circle = [(1, 0), (100, 0), (1784, 0), (65535, 0), (100, 37), (100, 250), (1784, 1784), (1000, 65535)]
        ab_other = [(10, 10), (100, 10), (10, 100), (1000, 100), (100, 1000), (1784, 1784), (65535, 1), (1, 65535), (65535, 65535)]
        azs = AZIMUTHS
    jobs = []
    for ci in range(len(CENTRES)):
        for kind in ("gbc", "gac"):
            jobs.append((membership_job, (ci, 0, kind, ab_circle, azs)))
            for shape in (1, 2):
                for i in range(0, len(ab_other), 3):
                    jobs.append((membership_job, (ci, shape, kind, ab_other[i:i + 3], azs)))
    for mk in (1, 10, 80):
        for shape in (0, 1, 2):
            jobs.append((size_job, (mk, shape)))
    for ci in (0, 1, 2, 3, 6):
        for shape in (0, 1, 2):
            for az in (0, 45, 90, 200):
                jobs.append((annexd_job, (ci, shape, az)))
    if ctx.seed:
        import random
        random.Random(ctx.seed).shuffle(jobs)
    tot = dec = band = dist = 0
    per = {}
    with mp.Pool(16) as pool:
        for name, (n, d, bd, bad, oc) in pool.imap_unordered(_run, jobs):
            tot += n
            dec += d
            band += bd
            dist += oc
            p = per.setdefault(name, dict(evaluations=0, decided=0, excluded_in_band=0))
            p["evaluations"] += n
            p["decided"] += d
            p["excluded_in_band"] += bd
            for rec in bad:
                ctx.violation(rec, replay=rec)
    ctx.parts.update(per)
    ctx.coverage.update(
        evaluations=tot, distinct_nontrivial=dec, excluded_in_tolerance_band=band,
        rule=("lattice: 9 area centres (all hemispheres, equator/meridian neighbourhood, 80N, antimeridian) x 3 shapes x GBC/GAC x semi-axis "
              "pairs x 8 azimuths x 16 bearings x 8 radius factors around the border; every point is a crafted packet delivered through the "
              "real receive path of a router placed at that point; verdict from an independent tangent-plane reference with azimuth rotation; "
              "points in the tolerance band max(0.5 m, 0.5 %) or where three first-order projections disagree are excluded (counted); "
              "distinct_nontrivial = decided points (each has a definite inside/outside expectation). Plus area-size control at source and "
              "forwarder around the itsGnMaxGeoAreaSize thresholds and the Annex D selection for ego/sender inside/outside x PAI."),
        samples=[dict(shape="rect", a=100, b=10, azimuth=90, bearing=90.0, factor=0.9, expected="inside"),
                 dict(shape="circle", a=1784, centre=list(CENTRES[1]), factor=1.01, expected="outside")],
        exhaustive=True)
    ctx.assumptions += ["reference geometry mc/ref/geo_area.py (EN 302 931: azimuth clockwise from North, a along the azimuth)",
                        "sender = source (direct reception); the link layer does not expose the previous hop"]


def replay(path):
    import json
    rec = json.load(open(path))
    print(json.dumps(rec["violation"], indent=1))
    return 1
