"""C09 - trust-store closure and signer authorisation (E1 over the real CertificateLibrary/VerifyService + E3 lattices).

Part A (BFS): only the root R is configured; every other certificate of the fixture pool (genuine, wrongly issued
with the genuine AA key, attacker-made) is *offered* through add_authorization_authority / add_authorization_ticket
(with the issuer attribute an honest or a hostile caller would pass), through verify_sequence_of_certificates (every
1/2/3-sequence of the chain pool) and inside received messages (signer certificate, requestedCertificate).  After
every event the independent checker re-verifies every entry of the trusted dictionaries, and every SUCCESS report
is checked for ITS-AID in appPermissions and generation time in validity.
Part B: ITS-AID x validity lattice at message acceptance.  Part C: issuing-API lattice (issuer permissions x chain
budget x subject permissions, depth 1..3) - a certificate verifies under its issuer only if containment and budget
allow it.
"""
from __future__ import annotations

import copy
import itertools
import json
import multiprocessing as mp
import random

from mc import env  # noqa: F401
from mc import explore as X
from mc.env import World
from mc.ref import chain_check as CC
from mc.worlds import secured as S

from flexstack.security.certificate import Certificate, OwnCertificate
from flexstack.security.certificate_library import CertificateLibrary
from flexstack.security.ecdsa_backend import PythonECDSABackend
from flexstack.security.sign_service import SignService
from flexstack.security.sn_sap import SNVERIFYRequest, ReportVerify

LEVEL = "model_checking"

_VMEMO: dict = {}


class MemoBackend(PythonECDSABackend):
    """The real backend; results of the pure function verify_with_pk are memoised (environment optimisation only:
    every distinct (data, signature, key) is still computed by the repository's code once per process)."""

    def __init__(self, keys):
        super().__init__()
        self.keys = keys

    def verify_with_pk(self, data, signature, pk):
        k = (bytes(data), repr(signature), repr(pk))
        hit = _VMEMO.get(k)
        if hit is None:
            try:
                hit = ("ok", super().verify_with_pk(data, signature, pk))
            except Exception as e:  # noqa: BLE001
                hit = ("exc", e)
            _VMEMO[k] = hit
        if hit[0] == "exc":
            raise hit[1]
        return hit[1]


ADD_POOL = ["AA", "AA2", "AT1", "AT_aa2", "SUB", "AT_sub", "AT_root", "AT_esc", "SUB_all", "AT_suball", "SUB_noapp", "SUB_deep",
            "AT_byat", "R'", "AA'", "AT'", "AT_resigned", "AT_claimAA", "AT_selfclaim", "AT_self", "AA_self", "AT_aaself", "R",
            "AT_cam", "AT_win",
            # several issuing groups / several application entries in every order (escalating PSID first / last / middle, 'all' mixed in)
            "AA_n", "SUB_mg_first", "SUB_mg_last", "SUB_mg_mid", "SUB_mg_allfirst", "SUB_mg_alllast", "SUB_mg_ok",
            "AT_mg139_first", "AT_mg139_last", "AT_mg139_mid", "AT_mgok", "AT_app_first", "AT_app_last", "AT_app_mid",
            # signed with the own key only, issuer field names a trusted certificate (root / AA digest; CA and ticket), and their tickets
            "AA_selfR", "AA_selfAA", "AT_selfR", "AT_u_selfR", "AT_u_selfAA"]
EXTRA_CHAINS = [("SUB_mg_first", "AA_n"), ("SUB_mg_last", "AA_n"), ("SUB_mg_mid", "AA_n"), ("SUB_mg_allfirst", "AA_n"),
                ("SUB_mg_alllast", "AA_n"), ("SUB_mg_ok", "AA_n"), ("SUB_mg_first", "AA_n", "R"), ("SUB_mg_mid", "AA_n", "R"),
                ("AT_app_first", "AA_n"), ("AT_app_last", "AA_n"), ("AT_app_mid", "AA_n", "R"), ("AT_mg139_first",), ("AT_mg139_mid",),
                ("AT_mg139_last",), ("AT_mgok",),
                ("AA_selfR",), ("AT_selfR",), ("AT_selfclaim",), ("AT_u_selfR", "AA_selfR"), ("AT_u_selfR", "AA_selfR", "R"),
                ("AT_u_selfAA", "AA_selfAA"), ("AT_u_selfAA",), ("AT_u_selfR",), ("AA_selfAA", "AA"), ("AT_selfR", "R")]
CHAIN_POOL_Q = ["AT1", "AT'", "AA", "AA'", "R", "R'", "SUB_all", "AT_esc"]
CHAIN_POOL_T = CHAIN_POOL_Q + ["AT_suball", "SUB", "AT_sub", "AA2"]

H2 = 7200


def build_messages():
    """name -> (octets, signer fixture, psid, generation time us)."""
    p = S.pki()
    out = {}
    body = b"\x20\x50" + bytes(34) + b"\x07\xd1\x00\x00C09"

    def mk(x, mode, psid, dt, extra=None, tag=""):
        signer = ("certificate", [p.d(x)]) if mode == "cert" else ("digest", p.h8(x))
        gt = S.its_us(S.T0 + dt)
        name = f"{x}/{mode}/psid{psid}/t{dt:+d}{tag}"
        out[name] = (S.forge(body, psid, gt, signer, p.sk(x), header_extra=extra), x, psid, gt)
    for x in ("AT1", "AT_cam", "AT_win", "AT_esc", "AT_suball", "AT_byat", "AT_sub", "AT'", "AT_aa2"):
        for mode in ("cert", "digest"):
            for psid in (S.PSID_CAM, S.PSID_GEN):
                mk(x, mode, psid, 0)
    for x in ("AT_win", "AT1"):
        for mode in ("cert", "digest"):
            for dt in (-H2, +H2):
                mk(x, mode, S.PSID_CAM, dt)
    for x in ("AT_mg139_first", "AT_mg139_last", "AT_mg139_mid", "AT_app_first", "AT_app_last", "AT_app_mid"):
        for mode in ("cert", "digest"):
            mk(x, mode, S.PSID_GEN, 0)
    for mode in ("cert", "digest"):
        mk("AT_mgok", mode, S.PSID_CAM, 0)
        mk("AT_mgok", mode, S.PSID_GEN, 0)
    # certificates arriving inside (authentic) messages: requestedCertificate learning path
    for x in ("AT_u_selfR", "AT_u_selfAA", "AT_selfR", "AT_selfclaim"):
        for mode in ("cert", "digest"):
            mk(x, mode, S.PSID_CAM, 0)
    for c in ("AA2", "AA'", "AA_self", "SUB_all", "R'", "AA_selfR", "AA_selfAA", "AT_selfR"):
        mk("AT1", "cert", S.PSID_CAM, 0, extra={"requestedCertificate": p.d(c), "inlineP2pcdRequest": [p.h8("AA")[-3:]]}, tag=f"/req:{c}")
    return out


_EV = None


def tables(thorough):
    """Per-process event tables: prebuilt Certificate objects (shared between snapshots) and messages.
    ``thorough`` selects the wide chain pool."""
    global _EV
    if _EV is not None and _EV["thorough"] == thorough:
        return _EV
    p = S.pki()
    adds = {}
    for n in ADD_POOL:
        seen = []
        for mode in ("claimed", "signer", None):
            c = p.plain(n, mode)
            sig = (None if c.issuer is None else CC.h8(c.issuer.certificate))
            if sig in seen:
                continue
            seen.append(sig)
            adds[(n, str(mode))] = c
    # a hostile caller: certificate that names the genuine AA but is handed in with the attacker's AA' as issuer object
    adds[("AT_claimAA", "AA'")] = p.plain("AT_claimAA", "AA'")
    adds[("AT'", "AA")] = p.plain("AT'", "AA")
    pool = CHAIN_POOL_T if thorough else CHAIN_POOL_Q
    chains = [seq for k in (1, 2, 3) for seq in itertools.permutations(pool, k)] + EXTRA_CHAINS
    _EV = dict(thorough=thorough, adds=adds, chains=chains, msgs=build_messages(), backend=MemoBackend(p.backend.keys))
    return _EV


class LibWorld(World):
    pass


class StoreModel:
    def __init__(self, thorough, order_seed=0):
        self.thorough = thorough
        self.t = tables(thorough)
        evs = [("add_aa", n, m) for (n, m) in self.t["adds"]] + [("add_at", n, m) for (n, m) in self.t["adds"]]
        evs += [("chain",) + seq for seq in self.t["chains"]]
        evs += [("rx", name) for name in self.t["msgs"]]
        random.Random(order_seed).shuffle(evs)
        self.events = evs
        p = S.pki()
        self.fix = {n: p.d(n) for n in p.own}
        self.trust = CC.Trust([p.d("R")])
        self._link_memo = {}

    def init(self):
        p = S.pki()
        w = LibWorld(now=S.T0)
        be = self.t["backend"]
        w.lib = CertificateLibrary(be, [p.plain("R", None)], [], [])
        w.sign = SignService(be, w.lib)
        w.verify = S.RecVerifyService(be, w.lib, w.sign)
        w.bad = []
        return w

    def share(self, w):
        out = [self.t["backend"]]
        for c in self.t["adds"].values():
            while c is not None:
                out.append(c)
                c = c.issuer
        return out

    def enabled(self, w):
        return self.events

    # -- closure oracle --------------------------------------------------------------------------------
    def _ok_under(self, c, issuers):
        k = (CC.enc_cert(c), tuple(sorted(CC.h8(i) for i in issuers)))
        hit = self._link_memo.get(k)
        if hit is None:
            hit = any(CC.link_ok(c, i) and CC.perms_contained(c, i) for i in issuers)
            self._link_memo[k] = hit
        return hit

    def closure(self, lib):
        bad = []
        for k, c in lib.known_root_certificates.items():
            if k not in self.trust.roots or CC.enc_cert(c.certificate) != CC.enc_cert(self.trust.roots[k]):
                bad.append(dict(kind="store_root_not_configured", cert=self.name_of(c.certificate)))
        issuers = [c.certificate for c in lib.known_root_certificates.values()] + \
                  [c.certificate for c in lib.known_authorization_authorities.values()]
        for dname in ("known_authorization_authorities", "known_authorization_tickets"):
            for k, c in getattr(lib, dname).items():
                d = c.certificate
                if k != CC.h8(d):
                    bad.append(dict(kind="store_key_mismatch", store=dname, cert=self.name_of(d)))
                others = [i for i in issuers if i is not d]
                if not self._ok_under(d, others):
                    signers = [i for i in others if CC.link_ok(d, i)]
                    esc = "-"
                    if signers:
                        c_all = CC.issue_perms(d)[0]
                        esc = "all_under_explicit_issuer" if c_all else "psid_outside_issuer_permissions"
                    bad.append(dict(kind="store_not_closed", store=dname, cert=self.name_of(d), escalation=esc,
                                    why="permissions_not_contained" if signers else "no_trusted_issuer_signature"))
        return bad

    def name_of(self, d):
        e = CC.enc_cert(d)
        for n, f in self.fix.items():
            if CC.enc_cert(f) == e:
                return n
        return "learnt:" + (CC.h8(d) or b"").hex()

    # -- events ------------------------------------------------------------------------------------------
    def apply(self, w, ev):
        lib = w.lib
        bad = []
        obs = None
        w.verify.log.clear()
        before = (set(lib.known_authorization_authorities), set(lib.known_authorization_tickets), set(lib.known_root_certificates))
        with w:
            try:
                if ev[0] == "add_aa":
                    lib.add_authorization_authority(self.t["adds"][(ev[1], ev[2])])
                    obs = ("add_aa",)
                elif ev[0] == "add_at":
                    lib.add_authorization_ticket(self.t["adds"][(ev[1], ev[2])])
                    obs = ("add_at",)
                elif ev[0] == "chain":
                    r = lib.verify_sequence_of_certificates([copy.deepcopy(self.fix[n]) for n in ev[1:]], self.t["backend"])
                    # NOTE (outside the statement, recorded as an outcome only): the ticket *returned* by a chain
                    # verification need not be closed under the store, e.g. [self-signed X, AA] returns X.
                    unclosed = False
                    if r is not None:
                        issuers = [c.certificate for c in lib.known_root_certificates.values()] + \
                                  [c.certificate for c in lib.known_authorization_authorities.values()]
                        unclosed = not self._ok_under(r.certificate, [i for i in issuers if i is not r.certificate])
                    obs = ("chain", r is not None, "returned_unclosed" if unclosed else "")
                else:
                    msg, x, psid, gt = self.t["msgs"][ev[1]]
                    conf = w.verify.verify(SNVERIFYRequest(sec_header=b"", sec_header_length=0, message=msg, message_length=len(msg)))
                    obs = ("rx", conf.report.name)
                    if conf.report == ReportVerify.SUCCESS:
                        bad += self.judge_accept(lib, msg, conf, ev[1])
            except Exception as e:  # noqa: BLE001 - an exception is "not admitted / not accepted"; the store is still checked
                obs = ("raised", type(e).__name__)
        after = (set(lib.known_authorization_authorities), set(lib.known_authorization_tickets), set(lib.known_root_certificates))
        if after != before:
            for rec in self.closure(lib):
                rec["event"] = ev[0]
                rec["offered"] = list(ev[1:])
                rec["_cut"] = True          # the store is polluted from here on: prune (counted), do not re-report below
                bad.append(rec)
        w.bad = bad
        return obs + (after != before,)

    def judge_accept(self, lib, msg, conf, label):
        known = {k: c.certificate for k, c in lib.known_authorization_tickets.items()}
        v = CC.classify(msg, CC.Trust([self.fix["R"]], [c.certificate for c in lib.known_authorization_authorities.values()]),
                        known, strict=False)
        bad = []
        at = v.at
        if at is None:
            return [dict(kind="accepted_without_ticket", message=label)]
        base = dict(message=label, ticket=self.name_of(at), psid=v.psid)
        if not v.authentic:
            bad.append(dict(kind="accepted_not_authentic", why=v.why, **base))
        if v.psid not in CC.app_psids(at):
            bad.append(dict(kind="accepted_psid_not_permitted", permitted=sorted(CC.app_psids(at)), **base))
        if v.gen_time is None or not CC.time_in_validity(at, v.gen_time):
            lo, hi = CC.validity_s(at)
            rel = "before" if (v.gen_time or 0) / 1e6 < lo else "after"
            bad.append(dict(kind="accepted_outside_validity", relation=rel, **base))
        if conf.certificate_id != CC.h8(at):
            bad.append(dict(kind="reported_certificate_id_wrong", **base))
        return bad

    def check(self, w, ev, obs, hist):
        if isinstance(obs, tuple) and obs and obs[0] == "EXC":
            return [dict(kind="harness_exception", event=list(ev), exc=obs[1] + ":" + obs[2])]
        return w.bad

    def canon(self, w):
        # The SignService P2PCD lists (unknown_ats, requested_ats, requested flag) are only WRITTEN by the verify path and
        # read by sign_cam, which is not in this alphabet: store contents and verify reports do not depend on them, so
        # states that differ only there have equal futures for C09 and are merged.
        lib = w.lib
        return (tuple(sorted(lib.known_root_certificates)), tuple(sorted(lib.known_authorization_authorities)),
                tuple(sorted(lib.known_authorization_tickets)), tuple(sorted(lib.own_certificates)))

    def outcome(self, w, obs):
        return obs


def _bfs_job(args):
    thorough, order_seed, prefix, depth = args
    m = StoreModel(thorough, order_seed)
    r = X.bfs(m, depth, prefix=prefix, xcheck_every=211, max_violations=400)
    return r


def explore_store(thorough, order_seed, depth, split_depth=2):
    m = StoreModel(thorough, order_seed)
    total = X.Result()
    head = X.bfs(m, min(split_depth, depth), xcheck_every=211, max_violations=400)
    total.merge(head)
    if depth > split_depth:
        total.complete, total.cap_hit = True, None
        prefixes = X._prefixes(m, split_depth)
        with mp.Pool(16) as pool:
            for r in pool.imap_unordered(_bfs_job, [(thorough, order_seed, p, depth) for p in prefixes]):
                total.merge(r)
    return total, len(m.events)


# ------------------------------------------------------------------------------------------------
# Part B: acceptance lattice (ITS-AID x generation time x ticket) on a store that holds the tickets
# ------------------------------------------------------------------------------------------------
def _accept_job(args):
    ticket, = args
    p = S.pki()
    m = StoreModel(False)
    w = m.init()
    for n in ("AA", "AA2", "SUB"):
        w.lib.add_authorization_authority(p.plain(n))
    w.lib.add_authorization_authority(p.plain("AT1"))        # lets the permission-less AT_byat in (literally closed)
    w.lib.add_authorization_ticket(p.plain(ticket))
    if p.h8(ticket) not in w.lib.known_authorization_tickets:
        return ticket, 0, 0, []          # not admitted by this tree: nothing can be accepted under it (counted as 0 evaluations)
    d = p.d(ticket)
    lo, hi = CC.validity_s(d)
    lo_us, hi_us = int(round(lo * 1e6)), int(round(hi * 1e6))
    times = {"start": lo_us, "end": hi_us, "start-1us": lo_us - 1, "end+1us": hi_us + 1, "start-1s": lo_us - 10 ** 6,
             "start+1s": lo_us + 10 ** 6, "mid": (lo_us + hi_us) // 2, "end-1s": hi_us - 10 ** 6, "end+1s": hi_us + 10 ** 6,
             "epoch": 0, "far": hi_us + 10 * 31556952 * 10 ** 6}       # microseconds (Time64)
    psids = [0, 36, 37, 38, 638, 139, 140, 999, 2 ** 31]
    body = b"\x20\x50" + bytes(34) + b"\x07\xd1\x00\x00LAT"
    bad = []
    n = acc = 0
    for tl, ts in times.items():
        for psid in psids:
            for mode in ("cert", "digest"):
                if psid == 37 and mode == "digest":
                    continue
                extra = {"generationLocation": {"latitude": 1, "longitude": 2, "elevation": 0xF000}} if psid == 37 else None
                signer = ("certificate", [d]) if mode == "cert" else ("digest", p.h8(ticket))
                msg = S.forge(body, psid, ts, signer, p.sk(ticket), header_extra=extra)
                n += 1
                try:
                    conf = w.verify.verify(SNVERIFYRequest(sec_header=b"", sec_header_length=0, message=msg, message_length=len(msg)))
                except Exception as e:  # noqa: BLE001
                    bad.append(dict(kind="lattice_exception", ticket=ticket, exc=type(e).__name__))
                    continue
                if conf.report == ReportVerify.SUCCESS:
                    acc += 1
                    for rec in m.judge_accept(w.lib, msg, conf, f"{ticket}/{mode}/psid{psid}/{tl}"):
                        rec.update(time_class=tl, mode=mode)
                        bad.append(rec)
    return ticket, n, acc, bad


# ------------------------------------------------------------------------------------------------
# Part C: issuing API lattice
# ------------------------------------------------------------------------------------------------
PQ = (36, 37)
PSID_R = 139            # third PSID: outside every explicit root of the lattice


def _subsets(xs):
    return [c for k in range(len(xs) + 1) for c in itertools.combinations(xs, k)]


def _single_groups(budgets):
    out = []
    for b in budgets:
        out.append((("all", b),))
        for sub in _subsets(PQ):
            if sub:
                out.append((("explicit", sub, b),))
    return out


def _multi_groups(rich):
    """Requests with SEVERAL groups: ordered pairs of {all, {p}, {q}, {r}} with differing budgets, and every order of
    the triple ({p}, {q}, {r}) - the escalating PSID r first / in the middle / last."""
    base = [("all",), ("explicit", (PQ[0],)), ("explicit", (PQ[1],)), ("explicit", (PSID_R,))]
    out = []
    if rich:
        for bs in ((1, 1), (2, 1)):
            for g1, g2 in itertools.permutations(base, 2):
                out.append((g1 + (bs[0],), g2 + (bs[1],)))
    else:
        for g1, g2 in ((base[0], base[1]), (base[1], base[0]), (base[1], base[3]), (base[3], base[1])):
            out.append((g1 + (1,), g2 + (1,)))
    trip = [("explicit", (PQ[0],)), ("explicit", (PQ[1],)), ("explicit", (PSID_R,))]
    for bs in ((1, 1, 1), (2, 1, 2)) if rich else ((1, 1, 1),):
        for perm3 in itertools.permutations(trip, 3):
            out.append(tuple(g + (b,) for g, b in zip(perm3, bs)))
    return out


APP_RICH = [(), (36,), (37,), (36, 37), (37, 36), (139, 36), (36, 139), (36, 139, 37)]
APP_MID = [(), (36,), (37, 36), (139, 36)]
APP_LAST = [(), (36,), (37,), (36, 37)]


def _tbs(name, app, issue):
    """``issue``: None or a tuple of groups ('all', budget) / ('explicit', psids, budget); chainLengthRange differs per group."""
    ip = None
    if issue is not None:
        ip = []
        for i, g in enumerate(issue):
            sp = ("all", None) if g[0] == "all" else S.explicit(g[1])
            ip.append(S.perm(sp, g[-1], (0, 1, -1)[i % 3]))
    return S.tbs_cert(name, app=list(app) if app is not None else None, issue=ip)


def _level_options(dpt, depth, budgets):
    if dpt == 1:
        issues = [None] + _single_groups(budgets) + _multi_groups(True)
        return [(app, iss) for app in APP_RICH for iss in issues]
    if dpt < depth:
        issues = [None] + _single_groups(budgets[:2]) + _multi_groups(False)
        return [(app, iss) for app in APP_MID for iss in issues]
    issues = [None] + _single_groups(budgets[:1])[:3] + [(("explicit", (PQ[0],), 0), ("explicit", (PSID_R,), 0))]
    return [(app, iss) for app in APP_LAST for iss in issues]


def _root_options(budgets, thorough):
    roots = _single_groups(budgets) + ([(("all", 3),)] if 3 not in budgets else [])
    # roots with several groups and differing budgets, both orders; 'all' mixed with explicit
    roots += [(("explicit", (36,), 2), ("explicit", (37,), 1)), (("explicit", (37,), 1), ("explicit", (36,), 2)),
              (("all", 1), ("explicit", (36,), 2)), (("explicit", (36,), 2), ("all", 1))]
    return roots


def _issuing_job(args):
    """One root configuration and ONE first-level subject below it; enumerate that subject's subtree to ``depth``."""
    root_issue, first, depth, budgets = args
    be = PythonECDSABackend()
    prev = env.ENV.urandom_state
    env.seed_urandom("c09-issuing:" + repr(root_issue) + repr(first))
    bad = []
    n = verified = refused = raised = 0
    try:
        root = OwnCertificate.initialize_certificate(be, _tbs("root", None, root_issue), None)
        level = [(root, ("root", root_issue))]
        for dpt in range(1, depth + 1):
            nxt = []
            for issuer, ipath in level:
                for app, issue in ([first] if dpt == 1 else _level_options(dpt, depth, budgets)):
                        n += 1
                        label = dict(issuer_path=repr(ipath), app=list(app), issue=repr(issue), depth=dpt)
                        try:
                            sub = OwnCertificate.initialize_certificate(be, _tbs("ca%d" % dpt if issue else None, app, issue), issuer)
                        except Exception as e:  # noqa: BLE001 - refusing by raising is allowed
                            raised += 1
                            continue
                        d, di = sub.certificate, issuer.certificate
                        try:
                            impl_ok = bool(sub.verify(be))
                        except Exception:  # noqa: BLE001
                            impl_ok = False
                        ref_ok = CC.link_ok(d, di)
                        if not (impl_ok or ref_ok):
                            refused += 1
                            continue
                        verified += 1
                        if not CC.perms_contained(d, di):
                            bad.append(dict(kind="issued_permissions_not_contained", impl_verify=impl_ok, ref_signature=ref_ok, **label))
                        if not CC.budget_allows(d, di):
                            bad.append(dict(kind="issued_beyond_chain_budget", impl_verify=impl_ok, ref_signature=ref_ok,
                                            issuer_budget=CC.issue_perms(di)[2], **label))
                        if impl_ok != ref_ok:
                            bad.append(dict(kind="issued_verify_disagreement", impl_verify=impl_ok, ref_signature=ref_ok, **label))
                        if issue is not None and tuple(app) == (36,) and d["toBeSigned"].get("certIssuePermissions"):
                            nxt.append((sub, ipath + ((tuple(app), issue),)))     # the CA's own app permissions do not matter below
            level = nxt
    finally:
        env.ENV.urandom_state = prev
    return root_issue, n, verified, refused, raised, bad


def run(ctx):
    thorough = ctx.tier == "thorough"
    depth = 5 if thorough else 4
    r, n_events = explore_store(False, ctx.seed, depth)
    for rec, hist in r.violations:
        ctx.violation(rec, replay=dict(part="store", thorough=False, history=hist))
    ctx.parts["store_bfs"] = dict(states=r.states, transitions=r.transitions, max_depth=r.max_depth, alphabet=n_events,
                                  graph_closed=r.complete, cap=r.cap_hit, xchecks=r.xchecks, pruned_at_known_divergence=r.pruned,
                                  outcomes=sorted(json.dumps(list(o)) for o in r.outcomes)[:40])
    if thorough:        # wide chain pool (every 1/2/3-sequence of 12 certificates), shallower
        global _EV
        _EV = None
        r2, n2 = explore_store(True, ctx.seed, 2)
        for rec, hist in r2.violations:
            ctx.violation(rec, replay=dict(part="store", thorough=True, history=hist))
        ctx.parts["store_bfs_wide_chain_pool"] = dict(states=r2.states, transitions=r2.transitions, max_depth=r2.max_depth, alphabet=n2,
                                                      graph_closed=r2.complete, cap=r2.cap_hit, xchecks=r2.xchecks,
                                                      pruned_at_known_divergence=r2.pruned)
        r.transitions += r2.transitions
        r.xchecks += r2.xchecks
        r.pruned += r2.pruned
        r.hashes |= r2.hashes
        r.states = len(r.hashes)
        r.outcomes |= r2.outcomes
        _EV = None
    with mp.Pool(16) as pool:
        # part B
        nb = accb = 0
        tickets = ["AT1", "AT_cam", "AT_win", "AT_short", "AT_byat", "AT_sub", "AT_aa2", "AT_root"]
        for ticket, n, acc, bad in pool.imap_unordered(_accept_job, [(t,) for t in tickets]):
            nb += n
            accb += acc
            for rec in bad:
                ctx.violation(rec, replay=dict(part="accept", ticket=ticket))
        ctx.parts["accept_lattice"] = dict(evaluations=nb, accepted=accb, tickets=tickets)
        # part C
        budgets = (0, 1, 2) if not thorough else (0, 1, 2, 3)
        roots = _root_options(budgets, thorough)
        nc = ver = ref = rai = 0
        ijobs = [(ri, first, 3, budgets) for ri in roots for first in _level_options(1, 3, budgets)]
        random.Random(ctx.seed).shuffle(ijobs)
        for root_issue, n, v, f, x, bad in pool.imap_unordered(_issuing_job, ijobs, chunksize=4):
            nc += n
            ver += v
            ref += f
            rai += x
            for rec in bad:
                rec["root"] = repr(root_issue)
                ctx.violation(rec, replay=dict(part="issuing", root=[list(g) for g in root_issue], app=rec["app"], issue=rec["issue"], depth=rec["depth"]))
        ctx.parts["issuing_lattice"] = dict(evaluations=nc, verified=ver, refused_unsigned=ref, raised=rai, roots=len(roots), depth=3)
    ctx.coverage.update(
        states=r.states, transitions=r.transitions + nb + nc, traces_validated_against_impl=r.transitions + nb + nc,
        evaluations=nb + nc, replay_crosschecks=r.xchecks, state_digest=r.digest(), distinct_outcomes=len(r.outcomes),
        exhaustive=True, bfs_depth=depth, pruned_at_known_divergence=r.pruned,
        samples=[["add_at", "AT1", "claimed"], ["add_aa", "AA", "claimed"], ["add_aa", "SUB_all", "claimed"],
                 ["chain", "AT1", "AA", "R"], ["rx", "AT_cam/digest/psid139/t+0"]] + r.samples[:2],
        explanation=("every transition is a real CertificateLibrary / VerifyService call on a snapshot of the real store; states are the "
                     "id sets of the four dictionaries plus P2PCD bookkeeping; after every state change every entry is re-verified by "
                     "mc/ref/chain_check.py; branches are pruned at the transition that admits a certificate violating closure"),
    )
    ctx.assumptions += ["closure = signature verifies under an issuer present in the store (roots or AA dictionary) and "
                        "application + issuing PSIDs are contained in that issuer's issuing permissions ('all' only under 'all'); "
                        "chain-length budget is not part of admission (outside the statement), validity of CA certificates likewise",
                        "validity is judged at +-1 s around the boundaries (the instants themselves are not judged)",
                        "chain budget = minChainLength as FlexStack uses it: an issuer needs budget >= 1 and a subject CA gets a strictly smaller one",
                        "ECDSA verification results are memoised per (data, signature, key) in the harness backend wrapper"]


def replay(path):
    rec = json.load(open(path))
    print(json.dumps(rec["violation"], indent=1))
    rp = rec["replay"]
    if rp.get("part") == "store":
        m = StoreModel(rp.get("thorough", False))
        w = m.init()
        bad = []
        for ev in rp["history"]:
            obs = m.apply(w, tuple(ev))
            print(ev, "->", obs, [dict((k, v) for k, v in b.items() if k != "_cut") for b in w.bad] or "ok")
            bad += w.bad
        return 1 if bad else 0
    if rp.get("part") == "accept":
        t, n, acc, bad = _accept_job((rp["ticket"],))
        print(t, n, acc, bad[:5] or "ok")
        return 1 if bad else 0
    def tup(x):
        return tuple(tup(y) for y in x) if isinstance(x, list) else x
    root = tup(rp["root"])
    bad = []
    for first in _level_options(1, 3, (0, 1, 2)):
        out = _issuing_job((root, first, 3, (0, 1, 2)))
        bad += out[5]
    print(len(bad), "violating issuances below root", root, bad[:3] or "ok")
    return 1 if bad else 0
