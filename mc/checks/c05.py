"""C05 - honestly signed messages are accepted by every station sharing the trust root; every emitted message
satisfies its TS 103 097 clause 7.1 profile (E1 over real stations + a small ITS-AID lattice).

World: three real stations (btp.Router + geonet.Router with itsGnSecurity=ENABLED + SignService/VerifyService/
CertificateLibrary, VerifyService wired to the own SignService for P2PCD), tickets AT1..AT3 under the common AA;
S3 is a late joiner.  Events: send(station, CAM|VAM|DENM|GEN), advance(0.4 s | 1.1 s), join.  Every emitted
frame is decoded independently (mc/ref/chain_check.py) and checked against its profile; every receiver must
accept at once when the frame carries the certificate or the ticket is known to it; in every reachable state
the probe "A sends; B sends (P2PCD-capable message); A sends" must end with B accepting A's message.
"""
from __future__ import annotations

import copy
import json
import multiprocessing as mp
import random

from mc import env  # noqa: F401
from mc import explore as X
from mc.ref import chain_check as CC
from mc.ref import gn_codec as G
from mc.worlds import secured as S
from mc.worlds import stations as _ST

from flexstack.security.sn_sap import ReportVerify

LEVEL = "model_checking"

X.SKIP_TYPES = (_ST.EtherLL, _ST.Net, _ST.Station, _ST._PortHandler, S.Stack)

NAMES = ("S1", "S2", "S3")
MIDS = {"S1": b"\0\0\0\0\0\x01", "S2": b"\0\0\0\0\0\x02", "S3": b"\0\0\0\0\0\x03"}
TICKET = {"S1": "AT1", "S2": "AT2", "S3": "AT3"}
KINDS = {"S1": ("CAM", "VAM", "DENM", "GEN"), "S2": ("CAM", "DENM", "GEN"), "S3": ("CAM", "DENM", "GEN")}
P2PCD_CAPABLE = ("CAM", "VAM")          # messages that can carry an inlineP2pcdRequest (clause 7.1.1)

# header fields per profile (TS 103 097 clauses 5.2, 7.1.1, 7.1.2, 7.1.3)
MANDATORY = {"CAM": {"psid", "generationTime"}, "VAM": {"psid", "generationTime"},
             "DENM": {"psid", "generationTime", "generationLocation"}, "GEN": {"psid", "generationTime"}}
ALLOWED_EXTRA = {"CAM": {"inlineP2pcdRequest", "requestedCertificate"}, "VAM": {"inlineP2pcdRequest", "requestedCertificate"},
                 "DENM": set(), "GEN": None}      # None: anything not forbidden by clause 5.2
ALWAYS_FORBIDDEN = {"p2pcdLearningRequest", "missingCrlIdentifier"}

TRUST = None


def _trust():
    global TRUST
    if TRUST is None:
        TRUST = S.trust()
    return TRUST


def payload_for(n, kind):
    body = (kind + ":%d:" % n).encode()
    return body + bytes((i * 7 + n) & 0xFF for i in range((n * 37) % 90))


class Model:
    def __init__(self, preloaded: bool, events, probe=True):
        self.preloaded = preloaded
        self.events = list(events)
        self.probe = probe
        self.probed = set()
        self.probe_memo = {}
        self.n_probes = 0

    # -- world -------------------------------------------------------------------------------------
    def init(self):
        _trust()
        p = S.pki()
        w = S.SecNet(now=S.T0, rng_seed="c05")
        for i, n in enumerate(NAMES):
            known = tuple(TICKET[m] for m in NAMES if m != n) if self.preloaded else ()
            w.add_secured(n, MIDS[n], S.make_stack(own=TICKET[n], known_ats=known), lat=41.0 + 0.0002 * i)
        w.connect("S1", "S2")
        w.joined = ["S1", "S2"]
        w.nsent = 0
        w.bad = []
        # oracle bookkeeping (independent of the implementation's state)
        w.o_knows = {n: ({p.h8(TICKET[m]) for m in NAMES if m != n} if self.preloaded else set()) for n in NAMES}
        w.o_last_incl = {n: None for n in NAMES}       # time of the last own emission that carried the certificate
        w.o_asked = {n: False for n in NAMES}          # a peer asked for the certificate since the last CAM/VAM with certificate
        w.last_obs = None
        return w

    def share(self, w):
        return [S.pki().backend]

    def enabled(self, w):
        out = []
        for ev in self.events:
            if ev[0] == "send" and ev[1] not in w.joined:
                continue
            if ev[0] == "join" and "S3" in w.joined:
                continue
            out.append(ev)
        return out

    # -- one emission + reception by everybody, with all oracle checks ---------------------------------
    def _send(self, w, s, kind, psid=None, light=False):
        """``light`` (probes): acceptance only, profile conformance is not re-checked."""
        p = S.pki()
        st = w.stations[s]
        own = p.d(TICKET[s])
        own_h8 = p.h8(TICKET[s])
        bad = []
        w.sent.clear()
        for x in w.stations.values():
            x.gn_indications.clear()
            x.btp_indications.clear()
            x.stack.verify.log.clear()
        w.nsent += 1
        payload = payload_for(w.nsent, kind)
        st.refresh()
        want_psid = S.PROFILES[kind]["psid"] if psid is None else psid
        try:
            S.send(w, st, kind, payload, psid=psid)
        except Exception as e:  # noqa: BLE001
            bad.append(dict(kind="emit_failed", profile=kind, psid=want_psid, exc=type(e).__name__, station=s))
            return dict(accepted={}, carried=None, bad=bad)
        frames = [f for (src, f) in w.sent if src == s]
        if len(frames) != 1:
            bad.append(dict(kind="emit_count", profile=kind, psid=want_psid, n=len(frames)))
            return dict(accepted={}, carried=None, bad=bad)
        frame = frames[0]
        t = w.now
        # ---- (2) profile conformance, decoded independently -------------------------------------------
        base = dict(profile=kind, station=s)
        d = CC.dec_data(frame[4:]) if (frame[0] & 0x0F) == G.BNH_SECURED else None
        carried = None
        pl = None
        if d is None or d["content"][0] != "signedData":
            bad.append(dict(kind="profile_not_signed", **base))
        else:
            sd = d["content"][1]
            tbs = sd["tbsData"]
            hi = tbs.get("headerInfo", {})
            keys = set(hi)
            if d.get("protocolVersion") != 3 or sd.get("hashId") != "sha256":
                bad.append(dict(kind="profile_envelope", version=d.get("protocolVersion"), hashId=str(sd.get("hashId")), **base))
            miss = MANDATORY[kind] - keys
            if miss:
                bad.append(dict(kind="profile_header_missing", fields=sorted(miss), **base))
            forb = keys & ALWAYS_FORBIDDEN
            if ALLOWED_EXTRA[kind] is not None:
                forb |= keys - MANDATORY[kind] - ALLOWED_EXTRA[kind]
            if forb:
                bad.append(dict(kind="profile_header_forbidden", fields=sorted(forb), **base))
            if hi.get("psid") != want_psid:
                bad.append(dict(kind="profile_psid", got=hi.get("psid"), want=want_psid, **base))
            if "generationTime" in hi and abs(hi["generationTime"] - S.its_us(t)) > 1000:
                bad.append(dict(kind="profile_generation_time", got=hi["generationTime"], want=S.its_us(t), **base))
            inner = tbs["payload"].get("data")
            pl = inner["content"][1] if inner and inner["content"][0] == "unsecuredData" else None
            ok_pl = False
            if pl is not None and "extDataHash" not in tbs["payload"] and inner.get("protocolVersion") == 3:
                try:
                    ref = G.parse(bytes([(frame[0] & 0xF0) | G.BNH_COMMON]) + frame[1:4] + pl)
                    ok_pl = ref["payload"][4:] == payload and int.from_bytes(ref["payload"][0:2], "big") == S.PROFILES[kind]["port"]
                except Exception:  # noqa: BLE001
                    ok_pl = False
            if not ok_pl:
                bad.append(dict(kind="profile_payload", **base))
            signer = sd["signer"]
            is_cert = signer[0] == "certificate" and len(signer[1]) == 1 and CC.enc_cert(signer[1][0]) == CC.enc_cert(own)
            is_digest = signer[0] == "digest" and signer[1] == own_h8
            carried = is_cert
            if not (is_cert or is_digest):
                bad.append(dict(kind="profile_signer_identity", signer=str(signer[0]), **base))
            last = w.o_last_incl[s]
            elapsed = None if last is None else t - last
            if kind == "DENM" and not is_cert:
                bad.append(dict(kind="profile_signer", need="certificate", why="denm", **base))
            if kind in ("CAM", "VAM") and not is_cert:
                if elapsed is None or elapsed > 1.0:
                    bad.append(dict(kind="profile_signer", need="certificate", why="timer",
                                    elapsed=None if elapsed is None else round(elapsed, 3), **base))
                elif w.o_asked[s]:
                    bad.append(dict(kind="profile_signer", need="certificate", why="requested", elapsed=round(elapsed, 3), **base))
            if not light and CC.signature_ok(CC.cert_pub(own), CC.enc_tbs_data(tbs), sd.get("signature"), CC.enc_cert(own)) is None:
                bad.append(dict(kind="profile_signature", **base))
            if is_cert:
                w.o_last_incl[s] = t
                if kind in ("CAM", "VAM"):
                    w.o_asked[s] = False
        # ---- delivery to every joined receiver (real receive path) -----------------------------------
        try:
            w.quiesce()
        except Exception as e:  # noqa: BLE001
            bad.append(dict(kind="receive_exception", exc=type(e).__name__, **base))
        accepted = {}
        for r in w.joined:
            if r == s:
                continue
            rs = w.stations[r]
            log = [c for (m, c, e) in rs.stack.verify.log if m == frame[4:]]
            ok_verify = bool(log) and log[-1] is not None and log[-1].report == ReportVerify.SUCCESS
            ok_btp = any(port == S.PROFILES[kind]["port"] and bytes(bi.data) == payload for port, bi in rs.btp_indications)
            accepted[r] = ok_verify and ok_btp
            expect_now = bool(carried) or own_h8 in w.o_knows[r]
            if expect_now and not accepted[r]:
                bad.append(dict(kind="honest_rejected", receiver=r, carried_certificate=bool(carried),
                                report=(log[-1].report.name if log and log[-1] is not None else "none"), verify_ok=ok_verify, **base))
            if ok_verify and pl is not None and log[-1].plain_message != pl:
                bad.append(dict(kind="payload_changed", receiver=r, **base))
            if accepted[r] and not expect_now:
                bad.append(dict(kind="accepted_unknown_digest", receiver=r, **base))   # would be C03's subject; sanity
            # oracle bookkeeping: what r has learnt / been asked
            if carried:
                w.o_knows[r].add(own_h8)
            if expect_now and d is not None and kind in P2PCD_CAPABLE:
                req = d["content"][1]["tbsData"].get("headerInfo", {}).get("inlineP2pcdRequest") or []
                if S.pki().h8(TICKET[r])[-3:] in req:
                    w.o_asked[r] = True
        return dict(accepted=accepted, carried=carried, bad=bad)

    def apply(self, w, ev):
        w.bad = []
        if ev[0] == "adv":
            w.advance(ev[1])
            w.last_obs = ("adv",)
        elif ev[0] == "join":
            w.joined.append("S3")
            for n in ("S1", "S2"):
                w.connect(n, "S3")
            w.last_obs = ("join",)
        else:
            res = self._send(w, ev[1], ev[2])
            w.bad = res["bad"]
            w.last_obs = ("send", ev[2], bool(res["carried"]), tuple(sorted(res["accepted"].items())))
        return w.last_obs

    # -- probe: within two further exchanges ---------------------------------------------------------
    def run_probes(self, w):
        """Probe "A sends; B sends; A sends" for every ordered pair.  Only A and B take part (the third station stays
        silent and cannot influence them), so the result is a function of the two stations' states: memoised on them."""
        out = []
        can = self.canon(w)
        for a in w.joined:
            for b in w.joined:
                if a == b:
                    continue
                key = (a, b, can[NAMES.index(a)], can[NAMES.index(b)])
                res = self.probe_memo.get(key)
                if res is None:
                    res = []
                    for pa in KINDS[a]:
                        for pb in KINDS[b]:
                            if pb not in P2PCD_CAPABLE:
                                continue
                            c = X.snapshot(self, w)
                            c.joined = [a, b]
                            c.links = {(a, b), (b, a)}
                            r1 = self._send(c, a, pa, light=True)
                            self._send(c, b, pb, light=True)
                            r3 = self._send(c, a, pa, light=True)
                            self.n_probes += 1
                            if not r3["accepted"].get(b, False):
                                res.append(dict(kind="not_accepted_within_two_exchanges", profile=pa, reply=pb, sender=a, receiver=b,
                                                first_accepted=bool(r1["accepted"].get(b, False))))
                    self.probe_memo[key] = res
                out += [dict(r) for r in res]
        return out

    def check(self, w, ev, obs, hist):
        if isinstance(obs, tuple) and obs and obs[0] == "EXC":
            return [dict(kind="harness_exception", event=list(ev), exc=obs[1] + ":" + obs[2])]
        bad = list(w.bad)
        if self.probe:
            k = X._h(self.canon(w))
            if k not in self.probed:
                self.probed.add(k)
                bad += self.run_probes(w)
        return bad

    def canon(self, w):
        out = []
        for n in NAMES:
            st = w.stations[n]
            ss, lib = st.stack.sign, st.stack.lib
            el = w.now - ss.cam_handler.last_signer_full_certificate_time
            el = "inf" if el > 1.0 else round(el, 3)
            ol = w.o_last_incl[n]
            oel = "never" if ol is None else ("inf" if w.now - ol > 1.0 else round(w.now - ol, 3))
            out.append((n in w.joined, el, ss.cam_handler.requested_own_certificate, tuple(ss.unknown_ats), tuple(ss.requested_ats),
                        tuple(sorted(lib.known_authorization_tickets)), tuple(sorted(lib.known_authorization_authorities)),
                        oel, w.o_asked[n], tuple(sorted(w.o_knows[n]))))
        return tuple(out)

    def outcome(self, w, obs):
        return obs


def _mk(preloaded, events, probe=True):
    return Model(preloaded, events, probe)


def all_events(thorough):
    evs = [("send", s, k) for s in NAMES for k in KINDS[s]]
    evs += [("adv", 0.4), ("adv", 1.1), ("join",)]
    return evs


# ------------------------------------------------------------------------------------------------
# ITS-AID lattice: every entry path x every ITS-AID covered by the ticket
# ------------------------------------------------------------------------------------------------
def _aid_job(args):
    kind, psid = args
    m = Model(False, [], probe=False)
    w = m.init()
    # S2 has heard S1's certificate before, so a digest-signed message is acceptable at once
    m._send(w, "S1", "DENM")
    res = m._send(w, "S1", kind, psid=psid)
    bad = res["bad"]
    if not bad and not res["accepted"].get("S2", False):
        bad.append(dict(kind="honest_rejected", receiver="S2", profile=kind, psid=psid, carried_certificate=bool(res["carried"]),
                        report="n/a", verify_ok=False, station="S1"))
    for r in bad:
        r.setdefault("psid", psid)
    return (kind, psid), bad, res["accepted"].get("S2", False)


def run(ctx):
    thorough = ctx.tier == "thorough"
    rnd = random.Random(ctx.seed)
    states = trans = xchecks = 0
    digests = []
    outcomes = set()
    samples = []
    complete = True
    caps = []
    depth = 6 if thorough else 4
    for label, pre in (("bare", False), ("preloaded", True)):
        evs = all_events(thorough)
        rnd.shuffle(evs)
        d = depth if not pre else depth - 1
        r = X.parallel_bfs(_mk, (pre, evs), d, split_depth=2, xcheck_every=41)
        states += r.states
        trans += r.transitions
        xchecks += r.xchecks
        digests.append((label, r.digest()))
        outcomes |= r.outcomes
        samples += r.samples[:2]
        if r.cap_hit:
            caps.append((label, r.cap_hit))
        for rec, hist in r.violations:
            rec.setdefault("config", label)
            ctx.violation(rec, replay=dict(part="bfs", preloaded=pre, history=hist))
        ctx.parts["bfs_" + label] = dict(states=r.states, transitions=r.transitions, max_depth=r.max_depth, graph_closed=r.complete,
                                         cap=r.cap_hit, xchecks=r.xchecks, outcomes=len(r.outcomes), alphabet=len(evs),
                                         probes_per_state="ordered pairs x sender profile x {CAM, VAM} reply; 3 real sends each")
    # ITS-AID lattice
    jobs = [("CAM", None), ("VAM", None), ("DENM", None)] + [("GEN", a) for a in S.ALL_PSIDS]
    n_aid = 0
    with mp.Pool(8) as pool:
        for key, bad, acc in pool.imap_unordered(_aid_job, jobs):
            n_aid += 1
            for rec in bad:
                rec["config"] = "aid_lattice"
                ctx.violation(rec, replay=dict(part="aid", profile=key[0], psid=key[1]))
    ctx.parts["aid_lattice"] = dict(evaluations=n_aid, cases=[list(j) for j in jobs])
    ctx.coverage.update(
        states=states, transitions=trans + n_aid, traces_validated_against_impl=trans + n_aid, evaluations=n_aid,
        replay_crosschecks=xchecks, distinct_outcomes=len(outcomes), exhaustive=True, bfs_depth=depth, caps=caps,
        state_digests=digests,
        samples=samples[:4] or [[["send", "S1", "CAM"], ["join"], ["send", "S3", "CAM"], ["send", "S1", "CAM"]]],
        explanation=("every transition is a real origination through btp.Router/geonet.Router/SignService and a real reception by "
                     "every joined station (VerifyService, CertificateLibrary, P2PCD notifications); emitted frames are decoded by "
                     "mc/ref/chain_check.py; in every distinct state the two-exchange probe is executed on copies; exhaustive to the "
                     "stated depth"),
    )
    ctx.assumptions += [
        "profile rules as encoded in mc/checks/c05.py (TS 103 097 clauses 5.2, 7.1.1-7.1.3 from memory of the standard; CAM/VAM: "
        "certificate required if > 1 s since the last own emission carrying it (any message type - the weakest reading) or if asked)",
        "'two further message exchanges' = the peer's next P2PCD-capable message (CAM/VAM) followed by the sender's next message of the same profile",
        "location-table state is excluded from the canonical state: equal-time packets are accepted by the GN layer (verified by the "
        "delivery check on every transition)"]


def replay(path):
    rec = json.load(open(path))
    print(json.dumps(rec["violation"], indent=1))
    rp = rec["replay"]
    if rp.get("part") == "aid":
        key, bad, acc = _aid_job((rp["profile"], rp["psid"]))
        print(key, "accepted" if acc else "not accepted", bad or "ok")
        return 1 if bad else 0
    m = Model(rp["preloaded"], all_events(True), probe=True)
    w = m.init()
    bad = []
    hist = [tuple(e) for e in rp["history"]]
    for i, ev in enumerate(hist):
        obs = m.apply(w, ev)
        b = m.check(w, ev, obs, hist[:i + 1])
        print(i, ev, "->", obs, b or "ok")
        bad += b
    return 1 if bad else 0
