"""C05 - honestly signed messages are accepted by every station sharing the trust root; every emitted message
satisfies its TS 103 097 clause 7.1 profile (E1 over real stations + a small ITS-AID lattice).

World: three real stations (btp.Router + geonet.Router with itsGnSecurity=ENABLED + SignService/VerifyService/
CertificateLibrary, VerifyService wired to the own SignService for P2PCD), tickets AT1..AT3 under the common AA;
S3 is a late joiner.  Events: send(station, CAM|VAM|DENM|GEN), advance(0.4 s | 1.1 s), join.  Every emitted
frame is decoded independently (mc/ref/chain_check.py) and checked against its profile; every receiver must
accept at once when the frame carries the certificate or the ticket is known to it; in every reachable state
the probe "A sends; B sends (P2PCD-capable message); A sends" must end with B accepting A's message.
"""
from __future__ import annotations

import copy
import json
import multiprocessing as mp
import random

from mc import env  # noqa: F401
from mc import explore as X
from mc.ref import chain_check as CC
from mc.ref import gn_codec as G
from mc.worlds import secured as S
from mc.worlds import stations as _ST

from flexstack.security.sn_sap import ReportVerify

LEVEL = "model_checking"

X.SKIP_TYPES = (_ST.EtherLL, _ST.Net, _ST.Station, _ST._PortHandler, S.Stack)

NAMES = ("S1", "S2", "S3")
MIDS = {"S1": b"\0\0\0\0\0\x01", "S2": b"\0\0\0\0\0\x02", "S3": b"\0\0\0\0\0\x03"}
TICKET = {"S1": "AT1", "S2": "AT2", "S3": "AT3"}
KINDS = {"S1": ("CAM", "VAM", "DENM", "GEN"), "S2": ("CAM", "DENM", "GEN"), "S3": ("CAM", "DENM", "GEN")}
P2PCD_CAPABLE = ("CAM", "VAM")          # messages that can carry an inlineP2pcdRequest (clause 7.1.1)

# header fields per profile (TS 103 097 clauses 5.2, 7.1.1, 7.1.2, 7.1.3)
MANDATORY = {"CAM": {"psid", "generationTime"}, "VAM": {"psid", "generationTime"},
             "DENM": {"psid", "generationTime", "generationLocation"}, "GEN": {"psid", "generationTime"}}
ALLOWED_EXTRA = {"CAM": {"inlineP2pcdRequest", "requestedCertificate"}, "VAM": {"inlineP2pcdRequest", "requestedCertificate"},
                 "DENM": set(), "GEN": None}      # None: anything not forbidden by clause 5.2
ALWAYS_FORBIDDEN = {"p2pcdLearningRequest", "missingCrlIdentifier"}

TRUST = None


def _trust():
    global TRUST
    if TRUST is None:
        TRUST = S.trust()
    return TRUST


def payload_for(n, kind):
    body = (kind + ":%d:" % n).encode()
    return body + bytes((i * 7 + n) & 0xFF for i in range((n * 37) % 90))


class Model:
    def __init__(self, preloaded: bool, events, probe=True):
        self.preloaded = preloaded
        self.events = list(events)
        self.probe = probe
        self.pair_hist = {}

    # -- world -------------------------------------------------------------------------------------
    def init(self):
        _trust()
        p = S.pki()
        w = S.SecNet(now=S.T0, rng_seed="c05")
        for i, n in enumerate(NAMES):
            known = tuple(TICKET[m] for m in NAMES if m != n) if self.preloaded else ()
            w.add_secured(n, MIDS[n], S.make_stack(own=TICKET[n], known_ats=known), lat=41.0 + 0.0002 * i)
        w.connect("S1", "S2")
        w.joined = ["S1", "S2"]
        w.nsent = 0
        w.n_ask = 0
        w.n_ev = 0
        w.bad = []
        # oracle bookkeeping (independent of the implementation's state)
        w.o_knows = {n: ({p.h8(TICKET[m]) for m in NAMES if m != n} if self.preloaded else set()) for n in NAMES}
        w.o_last_incl = {n: None for n in NAMES}       # time of the last own emission that carried the certificate
        w.o_asked = {n: False for n in NAMES}          # a peer asked for the certificate since the last CAM/VAM with certificate
        w.last_obs = None
        return w

    def share(self, w):
        return [S.pki().backend]

    def enabled(self, w):
        out = []
        for ev in self.events:
            if ev[0] == "send" and ev[1] not in w.joined:
                continue
            if ev[0] == "join" and "S3" in w.joined:
                continue
            if ev[0] == "ask_ca" and (w.n_ask >= 1 or w.n_ev > 1):
                continue        # at most one CA request per history, as first or second event (bounds the state space)
            out.append(ev)
        return out

    # -- one emission + reception by everybody, with all oracle checks ---------------------------------
    def _send(self, w, s, kind, psid=None, light=False):
        """``light`` (probes): acceptance only, profile conformance is not re-checked."""
        p = S.pki()
        st = w.stations[s]
        own = p.d(TICKET[s])
        own_h8 = p.h8(TICKET[s])
        bad = []
        w.sent.clear()
        for x in w.stations.values():
            x.gn_indications.clear()
            x.btp_indications.clear()
            x.stack.verify.log.clear()
        w.nsent += 1
        payload = payload_for(w.nsent, kind)
        st.refresh()
        want_psid = S.PROFILES[kind]["psid"] if psid is None else psid
        try:
            S.send(w, st, kind, payload, psid=psid)
        except Exception as e:  # noqa: BLE001
            bad.append(dict(kind="emit_failed", profile=kind, psid=want_psid, exc=type(e).__name__, station=s))
            return dict(accepted={}, carried=None, bad=bad)
        frames = [f for (src, f) in w.sent if src == s]
        if len(frames) != 1:
            bad.append(dict(kind="emit_count", profile=kind, psid=want_psid, n=len(frames)))
            return dict(accepted={}, carried=None, bad=bad)
        frame = frames[0]
        t = w.now
        # ---- (2) profile conformance, decoded independently -------------------------------------------
        base = dict(profile=kind, station=s)
        d = CC.dec_data(frame[4:]) if (frame[0] & 0x0F) == G.BNH_SECURED else None
        carried = None
        pl = None
        answers_ca = False
        if d is None or d["content"][0] != "signedData":
            bad.append(dict(kind="profile_not_signed", **base))
        else:
            sd = d["content"][1]
            tbs = sd["tbsData"]
            hi = tbs.get("headerInfo", {})
            keys = set(hi)
            if d.get("protocolVersion") != 3 or sd.get("hashId") != "sha256":
                bad.append(dict(kind="profile_envelope", version=d.get("protocolVersion"), hashId=str(sd.get("hashId")), **base))
            miss = MANDATORY[kind] - keys
            if miss:
                bad.append(dict(kind="profile_header_missing", fields=sorted(miss), **base))
            forb = keys & ALWAYS_FORBIDDEN
            if ALLOWED_EXTRA[kind] is not None:
                forb |= keys - MANDATORY[kind] - ALLOWED_EXTRA[kind]
            if forb:
                bad.append(dict(kind="profile_header_forbidden", fields=sorted(forb), **base))
            if hi.get("psid") != want_psid:
                bad.append(dict(kind="profile_psid", got=hi.get("psid"), want=want_psid, **base))
            if "generationTime" in hi and abs(hi["generationTime"] - S.its_us(t)) > 1000:
                bad.append(dict(kind="profile_generation_time", got=hi["generationTime"], want=S.its_us(t), **base))
            inner = tbs["payload"].get("data")
            pl = inner["content"][1] if inner and inner["content"][0] == "unsecuredData" else None
            ok_pl = False
            if pl is not None and "extDataHash" not in tbs["payload"] and inner.get("protocolVersion") == 3:
                try:
                    ref = G.parse(bytes([(frame[0] & 0xF0) | G.BNH_COMMON]) + frame[1:4] + pl)
                    ok_pl = ref["payload"][4:] == payload and int.from_bytes(ref["payload"][0:2], "big") == S.PROFILES[kind]["port"]
                except Exception:  # noqa: BLE001
                    ok_pl = False
            if not ok_pl:
                bad.append(dict(kind="profile_payload", **base))
            answers_ca = "requestedCertificate" in hi
            signer = sd["signer"]
            is_cert = signer[0] == "certificate" and len(signer[1]) == 1 and CC.enc_cert(signer[1][0]) == CC.enc_cert(own)
            is_digest = signer[0] == "digest" and signer[1] == own_h8
            carried = is_cert
            if not (is_cert or is_digest):
                bad.append(dict(kind="profile_signer_identity", signer=str(signer[0]), **base))
            last = w.o_last_incl[s]
            elapsed = None if last is None else t - last
            if kind == "DENM" and not is_cert:
                bad.append(dict(kind="profile_signer", need="certificate", why="denm", **base))
            if kind in ("CAM", "VAM") and not is_cert:
                if elapsed is None or elapsed > 1.0:
                    bad.append(dict(kind="profile_signer", need="certificate", why="timer",
                                    elapsed=None if elapsed is None else round(elapsed, 3), **base))
                elif w.o_asked[s]:
                    bad.append(dict(kind="profile_signer", need="certificate", why="requested", elapsed=round(elapsed, 3), **base))
            if not light and CC.signature_ok(CC.cert_pub(own), CC.enc_tbs_data(tbs), sd.get("signature"), CC.enc_cert(own)) is None:
                bad.append(dict(kind="profile_signature", **base))
            if is_cert:
                w.o_last_incl[s] = t
                if kind in ("CAM", "VAM"):
                    w.o_asked[s] = False
        # ---- delivery to every joined receiver (real receive path) -----------------------------------
        try:
            w.quiesce()
        except Exception as e:  # noqa: BLE001
            bad.append(dict(kind="receive_exception", exc=type(e).__name__, **base))
        accepted = {}
        for r in w.joined:
            if r == s:
                continue
            rs = w.stations[r]
            log = [c for (m, c, e) in rs.stack.verify.log if m == frame[4:]]
            ok_verify = bool(log) and log[-1] is not None and log[-1].report == ReportVerify.SUCCESS
            ok_btp = any(port == S.PROFILES[kind]["port"] and bytes(bi.data) == payload for port, bi in rs.btp_indications)
            accepted[r] = ok_verify and ok_btp
            expect_now = bool(carried) or own_h8 in w.o_knows[r]
            if expect_now and not accepted[r]:
                bad.append(dict(kind="honest_rejected", receiver=r, carried_certificate=bool(carried),
                                report=(log[-1].report.name if log and log[-1] is not None else "none"), verify_ok=ok_verify, **base))
            if ok_verify and pl is not None and log[-1].plain_message != pl:
                bad.append(dict(kind="payload_changed", receiver=r, **base))
            if accepted[r] and not expect_now:
                bad.append(dict(kind="accepted_unknown_digest", receiver=r, **base))   # would be C03's subject; sanity
            # oracle bookkeeping: what r has learnt / been asked
            if carried:
                w.o_knows[r].add(own_h8)
            if expect_now and d is not None and kind in P2PCD_CAPABLE:
                req = d["content"][1]["tbsData"].get("headerInfo", {}).get("inlineP2pcdRequest") or []
                if S.pki().h8(TICKET[r])[-3:] in req:
                    w.o_asked[r] = True
        return dict(accepted=accepted, carried=carried, bad=bad, answers_ca=answers_ca)

    def _ask_ca(self, w):
        """A verified CAM of an outside peer X (genuine ticket AT_cam, certificate included) whose inlineP2pcdRequest names the
        AA and the root certificate every station holds: each station must answer with requestedCertificate in its next
        CAM/VAM - and that answer has to be accepted by everybody and to satisfy the profile like any other message."""
        p = S.pki()
        tst = int((w.now - S.ITS_EPOCH + 5) * 1000) % 2 ** 32
        pkt = G.build("shb", so_addr=G.addr_encode(0, 5, b"\0\0\0\0\0\x58"), so=dict(tst=tst, lat=410005000, lon=20000000, pai=1, s=0, h=0),
                      rhl=1, nh=G.CNH_BTPB, payload=b"\x07\xd1\x00\x00ask")
        sec = S.forge(pkt[4:], S.PSID_CAM, S.its_us(w.now), ("certificate", [p.d("AT_cam")]), p.sk("AT_cam"),
                      header_extra={"inlineP2pcdRequest": [p.h8("AA")[-3:], p.h8("R")[-3:]]})
        frame = bytes([(pkt[0] & 0xF0) | G.BNH_SECURED]) + pkt[1:4] + sec
        bad = []
        for r in w.joined:
            rs = w.stations[r]
            rs.btp_indications.clear()
            rs.stack.verify.log.clear()
            try:
                w.inject(r, frame)
            except Exception as e:  # noqa: BLE001
                bad.append(dict(kind="receive_exception", exc=type(e).__name__, profile="CAM", station="X"))
            if not any(port == 2001 and bytes(bi.data) == b"ask" for port, bi in rs.btp_indications):
                bad.append(dict(kind="honest_rejected", receiver=r, carried_certificate=True, report="n/a", verify_ok=False,
                                profile="CAM", station="X"))
        return bad

    def apply(self, w, ev):
        w.bad = []
        w.n_ev += 1
        if ev[0] == "ask_ca":
            w.n_ask += 1
            w.bad = self._ask_ca(w)
            w.last_obs = ("ask_ca", tuple(len(w.stations[n].stack.sign.requested_ats) for n in NAMES))
        elif ev[0] == "adv":
            w.advance(ev[1])
            w.last_obs = ("adv",)
        elif ev[0] == "join":
            w.joined.append("S3")
            for n in ("S1", "S2"):
                w.connect(n, "S3")
            w.last_obs = ("join",)
        else:
            res = self._send(w, ev[1], ev[2])
            w.bad = res["bad"]
            w.last_obs = ("send", ev[2], bool(res["carried"]), tuple(sorted(res["accepted"].items())), res.get("answers_ca", False))
        return w.last_obs

    # -- probe: within two further exchanges ---------------------------------------------------------
    def pair_keys(self, w):
        can = self.canon(w)
        return [(a, b, can[NAMES.index(a)], can[NAMES.index(b)]) for a in w.joined for b in w.joined if a != b]

    def run_pair_probe(self, w, a, b):
        """Probe "A sends; B sends; A sends" for the ordered pair (a, b) on copies of ``w``.  Only A and B take part (the
        third station stays silent and cannot influence them), so the result is a function of the two stations' states."""
        res = []
        n = 0
        for pa in KINDS[a]:
            if pa == "DENM":
                continue        # always carries the certificate: covered by the at-once rule on every transition
            for pb in KINDS[b]:
                if pb not in P2PCD_CAPABLE:
                    continue
                c = X.snapshot(self, w)
                c.joined = [a, b]
                c.links = {(a, b), (b, a)}
                r1 = self._send(c, a, pa, light=True)
                self._send(c, b, pb, light=True)
                r3 = self._send(c, a, pa, light=True)
                n += 1
                if not r3["accepted"].get(b, False):
                    res.append(dict(kind="not_accepted_within_two_exchanges", profile=pa, reply=pb, sender=a, receiver=b,
                                    first_accepted=bool(r1["accepted"].get(b, False))))
        return res, n

    def check(self, w, ev, obs, hist):
        if isinstance(obs, tuple) and obs and obs[0] == "EXC":
            return [dict(kind="harness_exception", event=list(ev), exc=obs[1] + ":" + obs[2])]
        bad = list(w.bad)
        for key in self.pair_keys(w):
            h = self.pair_hist.get(key)
            if h is None:
                self.pair_hist[key] = [list(hist), None]      # first (shortest, BFS order) and one alternative history
            elif h[1] is None and list(hist) != h[0]:
                h[1] = list(hist)
        if self.probe:       # replay mode: run the probes of this state immediately
            for (a, b, _ca, _cb) in self.pair_keys(w):
                bad += self.run_pair_probe(w, a, b)[0]
        return bad

    def canon(self, w):
        out = []
        for n in NAMES:
            st = w.stations[n]
            ss, lib = st.stack.sign, st.stack.lib
            el = w.now - ss.cam_handler.last_signer_full_certificate_time
            el = "inf" if el > 1.0 else round(el, 3)
            ol = w.o_last_incl[n]
            oel = "never" if ol is None else ("inf" if w.now - ol > 1.0 else round(w.now - ol, 3))
            out.append((n in w.joined, el, ss.cam_handler.requested_own_certificate, tuple(ss.unknown_ats), tuple(ss.requested_ats),
                        tuple(sorted(lib.known_authorization_tickets)), tuple(sorted(lib.known_authorization_authorities)),
                        oel, w.o_asked[n], tuple(sorted(w.o_knows[n])), (w.n_ask, min(w.n_ev, 2)) if n == NAMES[0] else 0))
        return tuple(out)

    def outcome(self, w, obs):
        return obs


def _mk(preloaded, events, probe=True):
    return Model(preloaded, events, probe)


def all_events(thorough=False, reduced=False):
    if reduced:     # deeper histories on the P2PCD-relevant core of the alphabet
        return [("send", "S1", "CAM"), ("send", "S1", "GEN"), ("send", "S2", "CAM"), ("send", "S3", "CAM"),
                ("adv", 0.4), ("adv", 1.1), ("join",)]      # (the CA-request event stays in the full alphabet only)
    evs = [("send", s, k) for s in NAMES for k in KINDS[s]]
    evs += [("adv", 0.4), ("adv", 1.1), ("join",), ("ask_ca",)]
    return evs


# ------------------------------------------------------------------------------------------------
# ITS-AID lattice: every entry path x every ITS-AID covered by the ticket
# ------------------------------------------------------------------------------------------------
def _aid_job(args):
    kind, psid = args
    m = Model(False, [], probe=False)
    w = m.init()
    # S2 has heard S1's certificate before, so a digest-signed message is acceptable at once
    m._send(w, "S1", "DENM")
    res = m._send(w, "S1", kind, psid=psid)
    bad = res["bad"]
    if not bad and not res["accepted"].get("S2", False):
        bad.append(dict(kind="honest_rejected", receiver="S2", profile=kind, psid=psid, carried_certificate=bool(res["carried"]),
                        report="n/a", verify_ok=False, station="S1"))
    for r in bad:
        r.setdefault("psid", psid)
    return (kind, psid), bad, res["accepted"].get("S2", False)


def _bfs_job(args):
    pre, evs, prefix, depth = args
    m = Model(pre, evs, probe=False)
    r = X.bfs(m, depth, prefix=prefix, xcheck_every=41)
    return r, m.pair_hist


def _probe_job(args):
    """All pair probes whose representative history is ``hist`` (the world is rebuilt once)."""
    pre, evs, hist, keys = args
    m = Model(pre, evs, probe=False)
    w = X.rebuild(m, [tuple(e) for e in hist])
    can = m.canon(w)
    out = []
    n = 0
    for key in keys:
        a, b = key[0], key[1]
        if (can[NAMES.index(a)], can[NAMES.index(b)]) != (key[2], key[3]):
            raise RuntimeError(f"history does not reproduce pair state {key!r}")
        res, k = m.run_pair_probe(w, a, b)
        n += k
        out.append((key, res))
    return hist, out, n


def explore(pre, evs, depth, split_depth=2):
    """BFS with the work below each depth-``split_depth`` state in its own process (like explore.parallel_bfs) that also
    collects, per distinct ordered-pair state, a history reaching it (for the probe phase)."""
    head_model = Model(pre, evs, probe=False)
    total = X.Result()
    head = X.bfs(head_model, min(split_depth, depth), xcheck_every=41)
    total.merge(head)
    pair_hist = dict(head_model.pair_hist)
    if depth > split_depth:
        total.complete, total.cap_hit = True, None
        prefixes = X._prefixes(head_model, split_depth)
        with mp.Pool(16) as pool:
            for r, ph in pool.imap_unordered(_bfs_job, [(pre, evs, p, depth) for p in prefixes]):
                total.merge(r)
                for k, h in ph.items():
                    cur = pair_hist.get(k)
                    if cur is None:
                        pair_hist[k] = h
                    else:
                        cands = [x for x in (cur[0], cur[1], h[0], h[1]) if x is not None]
                        cands.sort(key=lambda x: (len(x), repr(x)))
                        alt = next((x for x in cands[1:] if x != cands[0]), None)
                        pair_hist[k] = [cands[0], alt]
    return total, pair_hist


# ------------------------------------------------------------------------------------------------
# validity-boundary lattice: honest messages generated at / around the ticket's validity boundaries
# ------------------------------------------------------------------------------------------------
# Reading used: IEEE 1609.2 validity is start <= t <= start + duration.  The start instant is inclusive (a ticket is usable
# from the very instant it becomes valid); at exactly the end instant both answers are accepted; instants outside the period
# carry no obligation here (C09 judges the only-if direction there).
OFFSETS = [("-2ms", -0.0015), ("exact", 0.0), ("+1ms", 0.0015), ("+1s", 1.0), ("-1s", -1.0)]
SEQUENCES = [("CAM", "CAM", "GEN", "DENM"), ("VAM", "VAM", "DENM", "GEN"), ("DENM", "GEN", "CAM", "VAM")]


def _validity_job(args):
    boundary, (olabel, dt), seq = args
    p = S.pki()
    _trust()
    lo, hi = CC.validity_s(p.d("AT_short"))
    base = lo if boundary == "start" else hi
    w = S.SecNet(now=base + S.ITS_EPOCH - CC.LEAP + dt, rng_seed="c05-validity")
    a = w.add_secured("A", b"\0\0\0\0\0\x0a", S.make_stack(own="AT_short"))
    b = w.add_secured("B", b"\0\0\0\0\0\x0b", S.make_stack(own="AT2"), lat=41.0002)
    w.connect("A", "B")
    bad = []
    n = judged = 0
    knows = False
    for i, kind in enumerate(seq):
        payload = payload_for(i + 1, kind)
        w.sent.clear()
        b.btp_indications.clear()
        b.stack.verify.log.clear()
        a.refresh()
        n += 1
        lab = dict(profile=kind, boundary=boundary, offset=olabel, position=i)
        try:
            S.send(w, a, kind, payload)
        except Exception as e:  # noqa: BLE001
            bad.append(dict(kind="emit_failed", psid=S.PROFILES[kind]["psid"], exc=type(e).__name__, station="A", **lab))
            continue
        frames = [f for (src, f) in w.sent if src == "A"]
        if len(frames) != 1:
            bad.append(dict(kind="emit_count", n=len(frames), **lab))
            continue
        d = CC.dec_data(frames[0][4:])
        sd = d["content"][1]
        t = sd["tbsData"]["headerInfo"]["generationTime"] / 1e6
        carried = sd["signer"][0] == "certificate"
        try:
            w.quiesce()
        except Exception as e:  # noqa: BLE001
            bad.append(dict(kind="receive_exception", exc=type(e).__name__, **lab))
        log = [c for (m, c, e) in b.stack.verify.log if m == frames[0][4:]]
        ok = (bool(log) and log[-1] is not None and log[-1].report == ReportVerify.SUCCESS
              and any(port == S.PROFILES[kind]["port"] and bytes(bi.data) == payload for port, bi in b.btp_indications))
        inside = lo <= t <= hi
        at_end = t == hi
        if inside and not at_end and (carried or knows):
            judged += 1
            if not ok:
                bad.append(dict(kind="honest_rejected", receiver="B", carried_certificate=carried, signer_mode="certificate" if carried else "digest",
                                report=(log[-1].report.name if log and log[-1] is not None else "none"), verify_ok=False,
                                station="A", at_start=(t == lo), seconds_after_start=round(t - lo, 3), **lab))
        knows = knows or carried        # the ticket has been presented to the receiver (as in the BFS bookkeeping)
    return n, judged, bad


# ------------------------------------------------------------------------------------------------
# geo-addressed (GBC / GAC) origination lattice: sender inside / outside its own destination area
# ------------------------------------------------------------------------------------------------
# Rule (all profiles alike): whatever leaves the sender with basic-header NH = SECURED must decode as EtsiTs103097Data-Signed,
# be authentic under the common root, satisfy the profile of its kind, carry exactly the GN headers + BTP + facility payload as
# signed content, and be accepted (SN-VERIFY SUCCESS, payload delivered unchanged) by a peer of the same trust root that lies
# inside the destination area.  Frames that leave unsecured, or nothing sent at all (SCF buffering), carry no obligation here.
GEO_TRANSPORTS = [("GBC", 0), ("GBC", 1), ("GBC", 2), ("GAC", 0), ("GAC", 1), ("GAC", 2)]      # circle, rectangle, ellipse


def _geo_job(args):
    (tname, hst), kind, inside, scf = args
    from flexstack.btp.service_access_point import BTPDataRequest
    from flexstack.geonet.service_access_point import (Area, PacketTransportType, HeaderType, GeoBroadcastHST, GeoAnycastHST,
                                                       CommonNH, TrafficClass)
    p = S.pki()
    _trust()
    w = S.SecNet(now=S.T0, rng_seed="c05-geo")
    a = w.add_secured("A", b"\0\0\0\0\0\x0a", S.make_stack(own="AT1"), lat=41.0, lon=2.0)
    # area centre: at the sender (inside) or ~2.2 km north of it (outside); the peer B always lies inside the area
    clat = 41.0 if inside else 41.02
    b = w.add_secured("B", b"\0\0\0\0\0\x0b", S.make_stack(own="AT2"), lat=clat + 0.0005, lon=2.0)
    w.connect("A", "B")
    S.send(w, b, "CAM", b"hello")          # A learns B as a neighbour (with progress towards the area in the outside case)
    w.quiesce()
    lab = dict(profile=kind, transport=tname, shape=hst, sender_inside_area=inside, scf=scf, station="A")
    bad = []
    pr = S.PROFILES[kind]
    payload = payload_for(3 + hst, kind)
    ptt = PacketTransportType(HeaderType.GEOBROADCAST, GeoBroadcastHST(hst)) if tname == "GBC" else \
        PacketTransportType(HeaderType.GEOANYCAST, GeoAnycastHST(hst))
    req = BTPDataRequest(btp_type=CommonNH.BTP_B, destination_port=pr["port"], gn_packet_transport_type=ptt,
                         gn_area=Area(latitude=int(clat * 1e7), longitude=20000000, a=400, b=300, angle=0), data=payload, length=len(payload),
                         security_profile=pr["profile"], its_aid=pr["psid"], traffic_class=TrafficClass().set_scf(scf))
    w.sent.clear()
    b.gn_indications.clear()
    b.btp_indications.clear()
    b.stack.verify.log.clear()
    a.refresh()
    try:
        w.call(a.btp.btp_data_request, req)
    except Exception as e:  # noqa: BLE001
        return lab, "raised", [dict(kind="emit_failed", psid=pr["psid"], exc=type(e).__name__, **lab)]
    frames = [f for (src, f) in w.sent if src == "A"]
    if not frames:
        return lab, "nothing_sent", []
    secured = [f for f in frames if (f[0] & 0x0F) == G.BNH_SECURED]
    if not secured:
        return lab, "left_unsecured", []
    if len(frames) != 1:
        bad.append(dict(kind="emit_count", n=len(frames), **lab))
    frame = secured[0]
    v = CC.classify(frame[4:], TRUST, {p.h8("AT1"): p.d("AT1")})
    if not v.authentic:
        bad.append(dict(kind="profile_not_signed" if v.why in ("undecodable",) or str(v.why).startswith(("not_signed", "structure")) else "profile_signature",
                        why=v.why, **lab))
    else:
        hi = v.header or {}
        keys = set(hi)
        miss = MANDATORY[kind] - keys
        forb = keys & ALWAYS_FORBIDDEN
        if ALLOWED_EXTRA[kind] is not None:
            forb |= keys - MANDATORY[kind] - ALLOWED_EXTRA[kind]
        if miss:
            bad.append(dict(kind="profile_header_missing", fields=sorted(miss), **lab))
        if forb:
            bad.append(dict(kind="profile_header_forbidden", fields=sorted(forb), **lab))
        if hi.get("psid") != pr["psid"]:
            bad.append(dict(kind="profile_psid", got=hi.get("psid"), want=pr["psid"], **lab))
        if kind == "DENM" and v.signer_kind != "certificate":
            bad.append(dict(kind="profile_signer", need="certificate", why="denm", **lab))
        try:
            ref = G.parse(bytes([(frame[0] & 0xF0) | G.BNH_COMMON]) + frame[1:4] + v.payload)
            ok_pl = ref["kind"] == tname.lower() and ref["payload"][4:] == payload and int.from_bytes(ref["payload"][0:2], "big") == pr["port"]
        except Exception:  # noqa: BLE001
            ok_pl = False
        if not ok_pl:
            bad.append(dict(kind="profile_payload", **lab))
    try:
        w.quiesce()
    except Exception as e:  # noqa: BLE001
        bad.append(dict(kind="receive_exception", exc=type(e).__name__, **lab))
    log = [c for (m, c, e) in b.stack.verify.log if m == frame[4:]]
    ok_verify = bool(log) and log[-1] is not None and log[-1].report == ReportVerify.SUCCESS
    ok_btp = any(port == pr["port"] and bytes(bi.data) == payload for port, bi in b.btp_indications)
    if not (ok_verify and ok_btp):
        bad.append(dict(kind="honest_rejected", receiver="B", carried_certificate=(v.signer_kind == "certificate"),
                        report=(log[-1].report.name if log and log[-1] is not None else "none"), verify_ok=ok_verify, **lab))
    return lab, "secured_sent", bad


def run(ctx):
    thorough = ctx.tier == "thorough"
    rnd = random.Random(ctx.seed)
    states = trans = xchecks = 0
    digests = []
    outcomes = set()
    samples = []
    caps = []
    depth = 5 if thorough else 4
    n_probes = n_pairs = n_memo_x = 0
    runs = [("bare", False, False, depth), ("preloaded", True, False, depth - 1)]
    if thorough:
        runs.append(("bare_core_deep", False, True, 6))
    for label, pre, reduced, d in runs:
        evs = all_events(thorough, reduced)
        rnd.shuffle(evs)
        r, pair_hist = explore(pre, evs, d)
        states += r.states
        trans += r.transitions
        xchecks += r.xchecks
        digests.append((label, r.digest()))
        outcomes |= r.outcomes
        samples += r.samples[:2]
        if r.cap_hit:
            caps.append((label, r.cap_hit))
        for rec, hist in r.violations:
            rec.setdefault("config", label)
            ctx.violation(rec, replay=dict(part="bfs", preloaded=pre, history=hist))
        # probe phase: one probe set per distinct ordered-pair state (grouped by representative history);
        # every 5th pair state is probed again from an alternative history and the results must agree
        groups = {}
        for i, (k, h) in enumerate(sorted(pair_hist.items(), key=lambda kv: repr(kv[0]))):
            groups.setdefault(json.dumps(h[0]), []).append(("main", k))
            if h[1] is not None and i % 5 == 0:
                groups.setdefault(json.dumps(h[1]), []).append(("alt", k))
        jobs = [(pre, evs, json.loads(hk), [k for _t, k in ks]) for hk, ks in groups.items()]
        rnd.shuffle(jobs)
        np_ = 0
        seen_res = {}
        with mp.Pool(16) as pool:
            for hist, out, n in pool.imap_unordered(_probe_job, jobs, chunksize=2):
                np_ += n
                for key, res in out:
                    if key in seen_res:
                        n_memo_x += 1
                        if seen_res[key] != res:
                            raise RuntimeError(f"probe result is not a function of the pair state {key!r}: {seen_res[key]!r} / {res!r}")
                        continue
                    seen_res[key] = res
                    for rec in res:
                        rec = dict(rec, config=label)
                        ctx.violation(rec, replay=dict(part="probe", preloaded=pre, history=hist, sender=key[0], receiver=key[1]))
        n_pairs += len(pair_hist)
        n_probes += np_
        ctx.parts["bfs_" + label] = dict(states=r.states, transitions=r.transitions, max_depth=r.max_depth, graph_closed=r.complete,
                                         cap=r.cap_hit, xchecks=r.xchecks, outcomes=len(r.outcomes), alphabet=len(evs),
                                         distinct_pair_states=len(pair_hist), probes=np_, probe_sends=3 * np_)
    # ITS-AID lattice
    jobs = [("CAM", None), ("VAM", None), ("DENM", None)] + [("GEN", a) for a in S.ALL_PSIDS]
    n_aid = 0
    with mp.Pool(8) as pool:
        for key, bad, acc in pool.imap_unordered(_aid_job, jobs):
            n_aid += 1
            for rec in bad:
                rec["config"] = "aid_lattice"
                ctx.violation(rec, replay=dict(part="aid", profile=key[0], psid=key[1]))
    ctx.parts["aid_lattice"] = dict(evaluations=n_aid, cases=[list(j) for j in jobs])
    vjobs = [(bd, off, seq) for bd in ("start", "end") for off in OFFSETS for seq in SEQUENCES]
    n_val = n_judged = 0
    with mp.Pool(16) as pool:
        for n, judged, bad in pool.imap_unordered(_validity_job, vjobs):
            n_val += n
            n_judged += judged
            for rec in bad:
                rec["config"] = "validity_lattice"
                ctx.violation(rec, replay=dict(part="validity", boundary=rec["boundary"], offset=rec["offset"]))
    ctx.parts["validity_lattice"] = dict(evaluations=n_val, judged_must_accept=n_judged, boundaries=["start", "end"],
                                         offsets=[o[0] for o in OFFSETS], sequences=[list(q) for q in SEQUENCES])
    n_aid += n_val
    gjobs = [(t, k, ins, scf) for t in GEO_TRANSPORTS for k in ("DENM", "CAM", "GEN") for ins in (True, False) for scf in (False, True)]
    geo = {}
    with mp.Pool(16) as pool:
        for lab, outcome, bad in pool.imap_unordered(_geo_job, gjobs):
            key = f"{outcome}:{'inside' if lab['sender_inside_area'] else 'outside'}"
            geo[key] = geo.get(key, 0) + 1
            for rec in bad:
                rec["config"] = "geo_lattice"
                ctx.violation(rec, replay=dict(part="geo", transport=[lab["transport"], lab["shape"]], profile=lab["profile"],
                                               inside=lab["sender_inside_area"], scf=lab["scf"]))
    ctx.parts["geo_lattice"] = dict(evaluations=len(gjobs), outcomes=geo, transports=[list(t) for t in GEO_TRANSPORTS],
                                    profiles=["DENM", "CAM", "GEN"], placements=["inside", "outside"], scf=[False, True])
    n_aid += len(gjobs)
    ctx.coverage.update(
        states=states, transitions=trans + 3 * n_probes + 2 * n_aid, traces_validated_against_impl=trans + 3 * n_probes + 2 * n_aid,
        evaluations=n_aid, probes=n_probes, distinct_pair_states=n_pairs, probe_memo_crosschecks=n_memo_x,
        replay_crosschecks=xchecks, distinct_outcomes=len(outcomes), exhaustive=True, bfs_depth=depth, caps=caps,
        state_digests=digests,
        samples=samples[:4] or [[["send", "S1", "CAM"], ["join"], ["send", "S3", "CAM"], ["send", "S1", "CAM"]]],
        explanation=("every transition is a real origination through btp.Router/geonet.Router/SignService and a real reception by "
                     "every joined station (VerifyService, CertificateLibrary, P2PCD notifications); emitted frames are decoded by "
                     "mc/ref/chain_check.py; for every distinct ordered-pair state reachable within the depth the two-exchange probe "
                     "(three further real sends) is executed; exhaustive to the stated depth"),
    )
    ctx.assumptions += [
        "profile rules as encoded in mc/checks/c05.py (TS 103 097 clauses 5.2, 7.1.1-7.1.3 from memory of the standard; CAM/VAM: "
        "certificate required if > 1 s since the last own emission carrying it (any message type - the weakest reading) or if asked)",
        "'two further message exchanges' = the peer's next P2PCD-capable message (CAM/VAM) followed by the sender's next message of the same profile",
        "the probe outcome is a function of the two stations' states (third station silent); cross-checked on alternative histories",
        "location-table state is excluded from the canonical state: equal-time packets are accepted by the GN layer (verified by the "
        "delivery check on every transition)"]


def replay(path):
    rec = json.load(open(path))
    print(json.dumps(rec["violation"], indent=1))
    rp = rec["replay"]
    if rp.get("part") == "geo":
        lab, outcome, bad = _geo_job((tuple(rp["transport"]), rp["profile"], rp["inside"], rp["scf"]))
        print(lab, outcome, bad or "ok")
        return 1 if bad else 0
    if rp.get("part") == "validity":
        bad = []
        for off in OFFSETS:
            if off[0] == rp["offset"]:
                for seq in SEQUENCES:
                    bad += _validity_job((rp["boundary"], off, seq))[2]
        print(bad or "ok")
        return 1 if bad else 0
    if rp.get("part") == "aid":
        key, bad, acc = _aid_job((rp["profile"], rp["psid"]))
        print(key, "accepted" if acc else "not accepted", bad or "ok")
        return 1 if bad else 0
    m = Model(rp["preloaded"], all_events(True), probe=False)
    w = m.init()
    bad = []
    hist = [tuple(e) for e in rp["history"]]
    for i, ev in enumerate(hist):
        obs = m.apply(w, ev)
        b = m.check(w, ev, obs, hist[:i + 1])
        print(i, ev, "->", obs, b or "ok")
        bad += b
    if rp.get("part") == "probe":
        res, _n = m.run_pair_probe(w, rp["sender"], rp["receiver"])
        print("probe", rp["sender"], "->", rp["receiver"], res or "ok")
        bad += res
    return 1 if bad else 0
