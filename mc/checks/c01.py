"""C01 - end-to-end payload delivery between stations through BTP and GeoNetworking (E1 + E3)."""
from __future__ import annotations

import copy
import multiprocessing as mp

from mc import env  # noqa: F401
from mc import explore as X
from mc.ref import geo_area as A
from mc.worlds import stations as S
from mc.worlds.stations import Net

from flexstack.btp.service_access_point import BTPDataRequest
from flexstack.geonet.service_access_point import HeaderSubType, TrafficClass

LEVEL = "model_checking"

MID = {"A": b"\0\0\0\0\0\x0a", "B": b"\0\0\0\0\0\x0b", "C": b"\0\0\0\0\0\x0c"}
PORTS = (2001, 2002)            # 2003 is never registered
REQ_SHAPE = [(2001, "B", 0x1111), (2002, "A", 0x2222), (2001, "A", 0x3333), (2002, "B", 0x0000)]


def ptt_of(kind, shape=0):
    if kind == "shb":
        return S.PacketTransportType(S.HeaderType.TSB, S.TopoBroadcastHST.SINGLE_HOP)
    if kind == "gbc":
        return S.PacketTransportType(S.HeaderType.GEOBROADCAST, S.GeoBroadcastHST(shape))
    if kind == "gac":
        return S.PacketTransportType(S.HeaderType.GEOANYCAST, S.GeoAnycastHST(shape))
    return S.PacketTransportType(S.HeaderType.GEOUNICAST, HeaderSubType.UNSPECIFIED)


def btp_request(kind, port, btp, second, payload, *, area=None, dest=None, hop=3, tc=None, shape=0, life=None):
    kw = dict(btp_type=S.CommonNH.BTP_A if btp == "A" else S.CommonNH.BTP_B, source_port=second, destination_port=port,
              destination_port_info=second, gn_packet_transport_type=ptt_of(kind, shape), data=payload, length=len(payload),
              gn_max_hop_limit=hop, gn_max_packet_lifetime=life)
    if tc is not None:
        kw["traffic_class"] = tc
    if area is not None:
        kw["gn_area"] = area
    if dest is not None:
        kw["gn_destination_address"] = dest
    return BTPDataRequest(**kw)


def summarize(ind_list):
    """[(port, indication)] -> comparable tuples"""
    out = []
    for port, ind in ind_list:
        pv = ind.gn_source_position_vector
        out.append(dict(port=port, data=bytes(ind.data), dport=ind.destination_port, sport=ind.source_port, info=ind.destination_port_info,
                        ht=ind.gn_packet_transport_type.header_type.name, so=pv.gn_addr.mid.mid, so_lat=pv.latitude, so_lon=pv.longitude))
    return out


class E2EModel:
    """A sends; B is the addressed receiver; C is a third station outside the destination area."""

    def __init__(self, algo="SIMPLE", max_req=3, kinds=("shb", "gbc", "gac", "guc"), max_depth_events=None, beacons=1):
        self.algo = algo
        self.max_req = max_req
        self.kinds = kinds
        self.beacons = beacons      # how often B may beacon (2: a relay can know a newer position of B than the sender)

    def init(self):
        net = Net()
        mk = dict(itsGnAreaForwardingAlgorithm=getattr(S.AreaForwardingAlgorithm, self.algo), itsGnLocationServiceMaxRetrans=2)
        net.add("A", MID["A"], lat=41.0, lon=2.0, ports=PORTS, mib_kw=mk)
        net.add("B", MID["B"], lat=41.0005, lon=2.0, ports=PORTS, mib_kw=mk)
        net.add("C", MID["C"], lat=41.0, lon=2.001, ports=PORTS, mib_kw=mk)
        net.connect_all()
        net.reqs = []        # dicts: kind, port, btp, second, payload
        net.n = dict(unrel=0, beacon=0, fire=0, refresh=0)
        net.a_positions = [(net.stations["A"].gn.ego_position_vector.latitude, net.stations["A"].gn.ego_position_vector.longitude)]
        return net

    def enabled(self, w):
        evs = []
        for link in w.pending_links():           # default answers first: deliver the oldest frames
            evs.append(("deliver", link[0], link[1]))
        if len(w.reqs) < self.max_req:
            for k in self.kinds:
                evs.append(("req", k))
        if w.n["beacon"] < self.beacons:
            evs.append(("beaconB",))
        if w.n["unrel"] < 2:
            evs.append(("unrel",))
        if w.n["refresh"] < 1:
            evs.append(("refreshA",))
        if w.n["fire"] < 2:
            for i, _t in enumerate(w.pending_timers()):
                evs.append(("fire", i))
        return evs

    def apply(self, w, ev):
        a, b, c = (w.stations[x] for x in "ABC")
        if ev[0] == "req":
            port, btp, second = REQ_SHAPE[len(w.reqs) % len(REQ_SHAPE)]
            payload = bytes([0xC0 + len(w.reqs)]) + ev[1].encode() + bytes(range(len(w.reqs) + 1))
            area = S.Area(latitude=b.gn.ego_position_vector.latitude, longitude=b.gn.ego_position_vector.longitude, a=70, b=70, angle=0)
            req = btp_request(ev[1], port, btp, second, payload, area=area, dest=b.addr if ev[1] == "guc" else None)
            w.reqs.append(dict(kind=ev[1], port=port, btp=btp, second=second, payload=payload))
            w.call(a.btp.btp_data_request, req)
        elif ev[0] == "deliver":
            w.deliver((ev[1], ev[2]))
        elif ev[0] == "beaconB":
            w.n["beacon"] += 1
            if w.n["beacon"] > 1:
                w.now += 1.0                       # a later beacon: newer position timestamp (ego PV has 1 s resolution)
                w.call(b.refresh)
            w.call(b.gn.gn_data_request_beacon)
        elif ev[0] == "unrel":
            w.n["unrel"] += 1
            w.call(c.gn.gn_data_request_beacon)
            # only A hears it now (the copy towards B is dropped): an unrelated reception at the sender
            fr = w.queues[("C", "A")].pop()
            w.queues[("C", "B")].pop()
            w.inject("A", fr)
        elif ev[0] == "refreshA":
            w.n["refresh"] += 1
            w.now += 0.25
            w.call(a.refresh, 41.00001, 2.00001)
            pv = a.gn.ego_position_vector
            w.a_positions.append((pv.latitude, pv.longitude))
        elif ev[0] == "fire":
            w.n["fire"] += 1
            w.fire(w.pending_timers()[ev[1]])
        return None

    def final_check(self, w):
        """Run a copy to quiescence with default answers and judge every request."""
        out = []
        w2 = X.snapshot(self, w)
        try:
            w2.quiesce()
        except Exception as e:  # noqa: BLE001
            return [dict(kind="exception_in_quiescence", exc=f"{type(e).__name__}: {str(e)[:80]}")]
        got = {n: summarize(w2.stations[n].btp_indications) for n in "ABC"}
        if got["A"]:
            out.append(dict(kind="delivered_to_sender", count=len(got["A"])))
        kinds_in_hist = tuple(r["kind"] for r in w.reqs)
        for st in ("B", "C"):
            mine = got[st]
            used = [False] * len(mine)
            last_idx = {}
            for i, r in enumerate(w.reqs):
                should = st == "B" or r["kind"] == "shb"
                m = [j for j, g in enumerate(mine) if g["data"] == r["payload"]]
                base = dict(station=st, transport=r["kind"], req_index=i, n_reqs=len(w.reqs), kinds=list(kinds_in_hist))
                if not should:
                    if m:
                        out.append(dict(kind="delivered_outside_destination", **base))
                    continue
                if len(m) != 1:
                    out.append(dict(kind="delivery_count", got=len(m), expected=1, **base))
                    continue
                g = mine[m[0]]
                used[m[0]] = True
                exp_info = r["second"] if r["btp"] == "B" else 0
                exp_sport = r["second"] if r["btp"] == "A" else 0
                if (g["port"], g["dport"], g["info"], g["sport"]) != (r["port"], r["port"], exp_info, exp_sport):
                    out.append(dict(kind="wrong_port_info", got=[g["port"], g["dport"], g["info"], g["sport"]], **base))
                exp_ht = {"shb": "TSB", "gbc": "GEOBROADCAST", "gac": "GEOANYCAST", "guc": "GEOUNICAST"}[r["kind"]]
                if g["ht"] != exp_ht:
                    out.append(dict(kind="wrong_transport_type", got=g["ht"], **base))
                if g["so"] != MID["A"] or (g["so_lat"], g["so_lon"]) not in w.a_positions:
                    out.append(dict(kind="wrong_source_pv", **base))
                prev = last_idx.get(r["kind"])
                if prev is not None and m[0] < prev:
                    out.append(dict(kind="out_of_order", **base))
                last_idx[r["kind"]] = m[0]
            for j, u in enumerate(used):
                if not u and not any(mine[j]["data"] == r["payload"] for r in w.reqs):
                    out.append(dict(kind="spurious_delivery", station=st))
        return out

    def check(self, w, ev, obs, hist):
        if isinstance(obs, tuple) and obs and obs[0] == "EXC":
            rec = dict(kind="exception", event=ev[0], transport=ev[1] if ev[0] == "req" else "-", exc=obs[1] + ": " + obs[2][:60], _cut=True)
            return [rec]
        return self.final_check(w)

    def canon(self, w):
        sts = []
        for n in "ABC":
            s = w.stations[n]
            try:
                core = (X.generic_canon(s.gn.location_table), X.generic_canon(s.gn._ls_packet_buffers),
                        X.generic_canon(s.gn._ls_retransmit_counters), s.gn.sequence_number, X.generic_canon(s.gn.ego_position_vector))
            except AttributeError:
                # refactored router: fall back to the generic digest of the whole router object (finer states, same soundness)
                core = X.generic_canon(s.gn)
            sts.append((core, tuple((p, bytes(i.data)) for p, i in s.btp_indications)))
        return (tuple(sts), tuple(sorted((k, tuple(q)) for k, q in w.queues.items() if q)), tuple(r["kind"] for r in w.reqs),
                tuple(sorted(w.n.items())), tuple(round(t.due - w.now, 6) for t in w.pending_timers()), round(w.now % 1.0, 3))

    def outcome(self, w, obs):
        return tuple(len(w.stations[n].btp_indications) for n in "ABC")


X.SKIP_TYPES = (S.EtherLL, S.Net, S.Station, S._PortHandler)


def mk_model(algo, max_req, kinds, beacons=1):
    return E2EModel(algo, max_req, kinds, beacons=beacons)


# ------------------------------------------------------------------------------------------------
# E3: configurations through the complete two-station path
# ------------------------------------------------------------------------------------------------
def two_station(lat, lon, dlat, dlon, algo="SIMPLE"):
    net = Net()
    mk = dict(itsGnAreaForwardingAlgorithm=getattr(S.AreaForwardingAlgorithm, algo))
    a = net.add("A", MID["A"], lat=lat, lon=lon, ports=PORTS, mib_kw=mk)
    b = net.add("B", MID["B"], lat=lat + dlat, lon=lon + dlon, ports=PORTS, mib_kw=mk)
    net.connect_all()
    return net, a, b


def ports_job(args):
    lo, hi, btp = args
    bad, n = [], 0
    net = Net()
    a = net.add("A", MID["A"], lat=41.0, lon=2.0, ports=PORTS)
    bs = {}
    # receivers with the swept port registered are expensive to build one by one: use one receiver per chunk with all ports
    b = net.add("B", MID["B"], lat=41.0003, lon=2.0, ports=tuple(range(lo, hi)))
    net.connect_all()
    other = (hi + 7) % 65536
    for port in range(lo, hi):
        for second in (0, 0xFFFF, port ^ 0x5A5A):
            n += 1
            payload = port.to_bytes(2, "big") + b"x"
            b.btp_indications.clear()
            try:
                net.call(a.btp.btp_data_request, btp_request("shb", port, btp, second, payload))
                net.quiesce()
            except Exception as e:  # noqa: BLE001
                bad.append(dict(kind="exception", event="ports", transport="shb", exc=f"{type(e).__name__}: {str(e)[:60]}"))
                continue
            g = summarize(b.btp_indications)
            ok = (len(g) == 1 and g[0]["port"] == port and g[0]["data"] == payload and g[0]["dport"] == port
                  and (g[0]["info"] if btp == "B" else g[0]["sport"]) == second)
            if not ok:
                bad.append(dict(kind="port_demux", port=port, second=second, btp=btp, got=[(x["port"], x["info"], x["sport"]) for x in g]))
        # a port that is not registered at B must reach nobody
        if port % 97 == 0 and not (lo <= other < hi):
            n += 1
            b.btp_indications.clear()
            net.call(a.btp.btp_data_request, btp_request("shb", other, btp, 1, b"zz"))
            net.quiesce()
            if b.btp_indications:
                bad.append(dict(kind="delivered_to_other_port", port=other))
    return n, bad


def config_job(args):
    """payload bytes / lengths / traffic classes / hop limits / placements x transport kinds."""
    what, items = args
    bad, n = [], 0
    for it in items:
        kinds = ("shb", "gbc", "gac", "guc")
        for kind in kinds:
            lat, lon, dlat, dlon = 41.0, 2.0, 0.0003, 0.0002
            payload, tc, hop, shape, algo = b"\x01\x02\x03", None, 3, 0, "SIMPLE"
            if what == "byte":
                payload = bytes([it]) + b"\x00" + bytes([it ^ 0xFF]) + bytes([it])
            elif what == "length":
                payload = bytes((i * 7 + 3) % 256 for i in range(it))
            elif what == "tc":
                tc = TrafficClass.decode_from_int(it)
            elif what == "hop":
                hop = it
            elif what == "place":
                lat, lon, dlat, dlon, shape, algo = it
            n += 1
            rec = dict(what=what, transport=kind, item=repr(it)[:60])
            try:
                net, a, b = two_station(lat, lon, dlat, dlon, algo)
                # B is a known neighbour of A (needed for store-carry-forward traffic classes and unicast)
                net.call(b.gn.gn_data_request_beacon)
                net.quiesce()
                bpv = b.gn.ego_position_vector
                area = S.Area(latitude=bpv.latitude, longitude=bpv.longitude, a=200, b=150, angle=0)
                req = btp_request(kind, 2001, "B", 0x0102, payload, area=area, dest=b.addr if kind == "guc" else None, hop=hop, tc=tc, shape=shape)
                net.call(a.btp.btp_data_request, req)
                net.quiesce()
            except Exception as e:  # noqa: BLE001
                rec.update(kind="exception", event="config", exc=f"{type(e).__name__}: {str(e)[:60]}",
                           hemisphere=("S" if lat < 0 else "N") + ("W" if lon < 0 else "E"))
                bad.append(rec)
                continue
            too_long = what == "length" and it > 1380
            g = summarize(b.btp_indications)
            ga = summarize(a.btp_indications)
            if ga:
                bad.append(dict(kind="delivered_to_sender", **rec))
            if too_long:
                continue   # beyond the MTU the request may be refused; nothing to demand
            scf_parked = what == "tc" and (it & 0x80) and kind == "guc"   # local optimum + SCF may park the packet (buffer unimplemented)
            if len(g) != 1 or g[0]["data"] != payload or g[0]["port"] != 2001 or g[0]["info"] != 0x0102:
                if scf_parked and not g:
                    continue
                bad.append(dict(kind="delivery_count" if len(g) != 1 else "payload_or_port_mismatch", got=len(g), expected=1, station="B",
                                hemisphere=("S" if lat < 0 else "N") + ("W" if lon < 0 else "E"), **rec))
            elif (g[0]["so_lat"], g[0]["so_lon"]) != (a.gn.ego_position_vector.latitude, a.gn.ego_position_vector.longitude):
                bad.append(dict(kind="wrong_source_pv", station="B", **rec))
    return n, bad


def rotated_job(items):
    """rotated rectangles / ellipses (azimuth not a multiple of 90 degrees) with receivers on and off the major axis: delivery
    end to end exactly when the reference geometry puts the receiver inside (border band skipped)"""
    from mc.ref import geo_area as GA
    bad, n = [], 0
    for (lat, lon, shape, angle, bearing) in items:
        for kind in ("gbc", "gac"):
            alat, alon = int(round(lat * 1e7)), int(round(lon * 1e7))
            blat, blon = GA.destination(alat, alon, bearing, 200.0)
            where = GA.classify(shape, alat, alon, 300, 40, angle, blat, blon)
            if where == "band":
                continue
            n += 1
            rec = dict(what="rotated", transport=kind, item=repr((shape, angle, bearing)), hemisphere=("S" if lat < 0 else "N") + ("W" if lon < 0 else "E"))
            try:
                net, a, b = two_station(lat, lon, blat / 1e7 - lat, blon / 1e7 - lon)
                net.call(b.gn.gn_data_request_beacon)
                net.quiesce()
                apv = a.gn.ego_position_vector
                area = S.Area(latitude=apv.latitude, longitude=apv.longitude, a=300, b=40, angle=angle)
                net.call(a.btp.btp_data_request, btp_request(kind, 2001, "B", 0x0102, b"rot", area=area, shape=shape))
                net.quiesce()
            except Exception as e:  # noqa: BLE001
                bad.append(dict(kind="exception", event="config", exc=f"{type(e).__name__}: {str(e)[:60]}", **rec))
                continue
            g = summarize(b.btp_indications)
            exp = 1 if where == "inside" else 0
            if len(g) != exp:
                bad.append(dict(kind="delivery_count" if exp else "delivered_outside_area", got=len(g), expected=exp, station="B", **rec))
    return n, bad


def secured_job(args):
    """security ON with a common trust root: both stations hold tickets under the same AA and know each other's ticket"""
    from mc.worlds import secured as SEC
    from flexstack.security.security_profiles import SecurityProfile
    bad, n = [], 0
    pk = SEC.pki()
    profs = {"CAM": (SecurityProfile.COOPERATIVE_AWARENESS_MESSAGE, 36), "VAM": (SecurityProfile.VRU_AWARENESS_MESSAGE, 638),
             "DENM": (SecurityProfile.DECENTRALIZED_ENVIRONMENTAL_NOTIFICATION_MESSAGE, 37), "GEN": (SecurityProfile.NO_SECURITY, SEC.PSID_GEN)}
    for (lat, lon) in args:
        for kind in ("shb", "gbc", "gac", "guc"):
            for pname, (prof, psid) in profs.items():
                # the sender inside the destination area (area forwarding) and outside it (greedy forwarding towards it)
                for payload, dlat in ((b"", 0.0003), (b"s", 0.0003), (bytes(range(200)), 0.0003), (b"out", 0.003)):
                    n += 1
                    rec = dict(security="on", transport=kind, profile=pname, length=len(payload), hemisphere=("S" if lat < 0 else "N") + ("W" if lon < 0 else "E"))
                    try:
                        net = SEC.SecNet()
                        a = net.add_secured("A", MID["A"], SEC.make_stack(own="AT1", known_ats=("AT2",), p=pk), lat=lat, lon=lon, itsGnDefaultHopLimit=3)
                        b = net.add_secured("B", MID["B"], SEC.make_stack(own="AT2", known_ats=("AT1",), p=pk), lat=lat + dlat, lon=lon, itsGnDefaultHopLimit=3)
                        net.connect_all()
                        net.call(b.gn.gn_data_request_beacon)
                        net.quiesce()
                        bpv = b.gn.ego_position_vector
                        area = S.Area(latitude=bpv.latitude, longitude=bpv.longitude, a=200, b=150, angle=0)
                        req = BTPDataRequest(btp_type=S.CommonNH.BTP_B, destination_port=2001, destination_port_info=7,
                                             gn_packet_transport_type=ptt_of(kind), gn_area=area, gn_destination_address=b.addr, data=payload,
                                             length=len(payload), security_profile=prof, its_aid=psid, gn_max_hop_limit=3)
                        net.call(a.btp.btp_data_request, req)
                        net.quiesce()
                    except Exception as e:  # noqa: BLE001
                        bad.append(dict(kind="secured_exception", exc=type(e).__name__, **rec))
                        continue
                    g = summarize(b.btp_indications)
                    if summarize(a.btp_indications):
                        bad.append(dict(kind="delivered_to_sender", **rec))
                    if len(g) != 1:
                        bad.append(dict(kind="secured_delivery_count", got=len(g), expected=1, **rec))
                    elif g[0]["data"] != payload or g[0]["port"] != 2001 or g[0]["info"] != 7 or g[0]["so"] != MID["A"]:
                        bad.append(dict(kind="secured_payload_or_port_mismatch", **rec))
                    # whatever reaches the ether from A must be a secured packet (basic header NH = 2)
                    for s_, f in net.sent:
                        if s_ == "A" and len(g) == 1 and (f[0] & 0x0F) != 2:
                            bad.append(dict(kind="delivered_although_unsecured", **rec))
    return n, bad


def _run(j):
    return j[0].__name__, j[0](j[1])


def run(ctx):
    thorough = ctx.tier == "thorough"
    states = trans = xchecks = 0
    digests, samples, outcomes, caps = [], [], set(), []
    complete = True
    plans = [("SIMPLE", 3, ("shb", "gbc", "gac", "guc"), 5 if not thorough else 7, 1),
             ("SIMPLE", 3, ("guc",), 7 if not thorough else 9, 1),
             ("SIMPLE", 1, ("guc",), 7 if not thorough else 9, 2),     # relay with a newer destination position (two beacons of B)
             ("CBF", 2, ("gbc", "guc"), 5 if not thorough else 7, 1)]
    for algo, max_req, kinds, depth, beacons in plans:
        label = f"histories_{algo}_{'-'.join(kinds)}_r{max_req}_b{beacons}_d{depth}"
        r = X.parallel_bfs(mk_model, (algo, max_req, kinds, beacons), depth, split_depth=2, xcheck_every=401)
        states += r.states
        trans += r.transitions
        xchecks += r.xchecks
        digests.append((label, r.digest()))
        samples += r.samples[:1]
        outcomes |= r.outcomes
        if r.cap_hit:
            caps.append((label, r.cap_hit))
            if not str(r.cap_hit).startswith("depth"):
                complete = False
        for rec, hist in r.violations:
            rec["part"] = label
            ctx.violation(rec, replay=dict(algo=algo, max_req=max_req, kinds=list(kinds), beacons=beacons, history=hist))
        ctx.parts[label] = dict(states=r.states, transitions=r.transitions, max_depth=r.max_depth, pruned=r.pruned, xchecks=r.xchecks,
                                outcomes=len(r.outcomes))
    # ---- E3 -------------------------------------------------------------------------------------
    jobs = []
    step = 2048
    port_ranges = [(lo, min(lo + step, 65536)) for lo in range(0, 65536, step)]
    if not thorough:
        port_ranges = [(0, 256), (1792, 2304), (32640, 32896), (65280, 65536)] + [(lo, lo + 8) for lo in range(251, 65000, 2510)]
    for lo, hi in port_ranges:
        for btp in ("A", "B"):
            jobs.append((ports_job, (lo, hi, btp)))
    jobs.append((config_job, ("byte", list(range(0, 256, 1)))))
    jobs.append((config_job, ("length", [0, 1, 4, 5, 100, 1000, 1379, 1380, 1381, 1400])))
    for lo in range(0, 256, 32):
        jobs.append((config_job, ("tc", list(range(lo, lo + 32)))))
    for lo in range(0, 256, 32):
        jobs.append((config_job, ("hop", list(range(lo, lo + 32)))))
    lats = [-89.99, -33.8688, -0.0000002, 0.0, 0.0000002, 41.0, 89.99]
    lons = [-179.999, -74.006, -0.0000002, 0.0, 0.0000002, 2.0, 179.999]
    offs = [(0.0003, 0.0), (-0.0003, 0.0), (0.0, 0.0004), (0.0, -0.0004), (0.0002, 0.0002), (-0.0002, -0.0002), (0.0002, -0.0002), (-0.0002, 0.0002)]
    places = [(la, lo, dla, dlo, sh, al) for la in lats for lo in lons for (dla, dlo) in offs for sh, al in ((0, "SIMPLE"), (1, "CBF"), (2, "SIMPLE"))]
    for i in range(0, len(places), 40):
        jobs.append((config_job, ("place", places[i:i + 40])))
    rot = [(la, lo, sh, ang, brg) for (la, lo) in ((41.0, 2.0), (-33.8688, 151.2093), (40.7128, -74.006), (-22.9068, -43.1729))
           for sh in (1, 2) for ang in (30, 60, 120, 150, 200, 330) for brg in (ang, (360 - ang) % 360, (ang + 90) % 360, (ang + 180) % 360)]
    for i in range(0, len(rot), 24):
        jobs.append((rotated_job, rot[i:i + 24]))
    jobs.append((secured_job, [(41.0, 2.0)]))
    jobs.append((secured_job, [(-33.8688, 151.2093)]))
    jobs.append((secured_job, [(40.7128, -74.006)]))
    evals = 0
    per = {}
    with mp.Pool(16) as pool:
        for name, (n, bad) in pool.imap_unordered(_run, jobs):
            evals += n
            per[name] = per.get(name, 0) + n
            for rec in bad:
                ctx.violation(rec, replay=rec)
    for k, v in per.items():
        ctx.parts[k] = dict(evaluations=v)
    ctx.coverage.update(
        states=states, transitions=trans, traces_validated_against_impl=trans, replay_crosschecks=xchecks, evaluations=evals,
        distinct_outcomes=len(outcomes), exhaustive=complete, caps=caps, state_digests=digests, samples=samples[:3],
        explanation=("BFS over histories of three real stations (A sender, B addressed receiver, C outside the area) with requests of every "
                     "transport type, frame deliveries in every order, an unrelated reception at the sender, a destination beacon, "
                     "location-service timer expiries and an ego position refresh; after EVERY transition a copy is run to quiescence and "
                     "each request must have reached exactly its handler once, byte-identical, in order, with the sender's PV/transport/"
                     "ports. Plus complete two-station sweeps over ports x BTP-A/B, payload bytes, lengths, traffic classes, hop limits "
                     "and a placement lattice over all hemispheres x shapes x SIMPLE/CBF."))
    ctx.assumptions += ["order is judged per transport kind (a unicast request parked for a location lookup may be overtaken by a later broadcast)",
                        "security ON: both stations know each other's ticket (certificate learning itself is C05's subject)"]


def replay(path):
    import json
    rec = json.load(open(path))
    print(json.dumps(rec["violation"], indent=1))
    rp = rec["replay"]
    if "history" not in rp:
        return 1
    m = E2EModel(rp["algo"], rp["max_req"], tuple(rp["kinds"]), beacons=rp.get("beacons", 1))
    w = m.init()
    bad = []
    for ev in rp["history"]:
        ev = tuple(ev)
        try:
            obs = m.apply(w, ev)
        except Exception as e:  # noqa: BLE001
            obs = ("EXC", type(e).__name__, str(e))
        b = m.check(w, ev, obs, [])
        print(ev, "->", b or "ok")
        bad = b
    return 1 if bad else 0
