"""C13 - LDM queries return exactly the matching objects, identically on both back-ends (E1 + E3).

E1: breadth-first over add / delete histories (object pool of CAM with and without low-frequency container, two
stations / station types, DENM with and without situation container, VAM) executed on TWO real LDMs side by side -
Dictionary back-end (real factory) and TinyDB back-end (scratch file) - with a reference list of stored records.
E3: at every distinct reached store the declared finite lattice of requests
    {no filter, 12 attribute paths x 8 operators x 4 reference values, 8x8x2 two-statement filters}
  x {type selections} x {no order, one key, two keys x directions}
is evaluated through IF.LDM.4 `request_data_objects` on both back-ends and compared with the brute-force predicate
`mc.ref.ldm_model.filter_true` / `order_ok`.  The full lattice runs on stores built by additions only, a reduced
lattice on stores that went through deletions (identifier gaps).

Successor worlds are produced by replaying the history on fresh LDMs (TinyDB holds an open file and cannot be
deep-copied); scratch files live under one `tempfile.mkdtemp()` directory removed in `finally`.
"""
from __future__ import annotations

import os
import random
import shutil
import tempfile
from collections import Counter

from mc import env  # noqa: F401
from mc.ref import ldm_model as R
from mc.worlds import ldm as L
from mc.worlds.ldm import APP, LdmWorld, ckey, is_exc

from flexstack.facilities.local_dynamic_map import ldm_classes as C

LEVEL = "model_checking"

POOL = ["camA", "camC", "camL", "denmA", "denmB", "vamA"]
APP_OF = {2: APP["CAM"], 1: APP["DENM"], 16: APP["VAM"]}
CONSUMER = APP["CAM"]
VALIDITY = 3600
OPS = {"==": C.ComparisonOperators.EQUAL, "!=": C.ComparisonOperators.NOT_EQUAL, ">": C.ComparisonOperators.GREATER_THAN,
       "<": C.ComparisonOperators.LESS_THAN, ">=": C.ComparisonOperators.GREATER_THAN_OR_EQUAL,
       "<=": C.ComparisonOperators.LESS_THAN_OR_EQUAL, "like": C.ComparisonOperators.LIKE, "notlike": C.ComparisonOperators.NOT_LIKE}
LOGIC = {"and": C.LogicalOperators.AND, "or": C.LogicalOperators.OR}
DIRS = {"asc": C.OrderingDirection.ASCENDING, "desc": C.OrderingDirection.DESCENDING}

# attribute paths: (path, class) - class: present in every message / in one message type / optional container / nowhere
PATHS = [
    ("header.stationId", "all"), ("header.messageId", "all"),
    ("cam.generationDeltaTime", "type"), ("cam.camParameters.basicContainer.stationType", "type"),
    ("denm.management.stationType", "type"), ("denm.management.termination", "type"), ("vam.vamParameters.vruHighFrequencyContainer.speed.speedValue", "type"),
    ("denm.situation.informationQuality", "optional"), ("cam.camParameters.lowFrequencyContainer", "optional"),
    ("denm.situation.eventType.ccAndScc", "optional"),
    ("cam.camParameters.noSuchContainer.value", "missing"), ("header.stationId.sub", "missing"),
]
# reference values per path: matching, non-matching (same type), other type, None
VALUES = {
    "header.stationId": (1001, 424242, "abc", None), "header.messageId": (2, 99, "abc", None),
    "cam.generationDeltaTime": (0, 7, "abc", None), "cam.camParameters.basicContainer.stationType": (5, 9, "5", None),
    "denm.management.stationType": (15, 9, "abc", None), "denm.management.termination": ("Cancel", "nope", 5, None),
    "vam.vamParameters.vruHighFrequencyContainer.speed.speedValue": (120, 7, "abc", None),
    "denm.situation.informationQuality": (3, 6, "abc", None),
    "cam.camParameters.lowFrequencyContainer": ("basicVehicleContainerLowFrequency", "nope", 5, None),
    "denm.situation.eventType.ccAndScc": ("accident2", "nope", 5, None),
    "cam.camParameters.noSuchContainer.value": (1, 2, "abc", None), "header.stationId.sub": (1, 2, "abc", None),
}
VKIND = ("match", "nomatch", "othertype", "none")
PAIR_STATEMENTS = [
    ("header.stationId", "==", 1001), ("header.stationId", "!=", 1001), ("cam.camParameters.basicContainer.stationType", "==", 5),
    ("cam.camParameters.basicContainer.stationType", ">", 5), ("denm.management.stationType", "<=", 15),
    ("denm.situation.informationQuality", "==", 3), ("cam.camParameters.noSuchContainer.value", "==", 1), ("header.messageId", "<", "abc"),
]
ALL_TYPES = (2, 1, 16)
TYPE_SUBSETS = [(), (2,), (1,), (16,), (2, 1), (2, 16), (1, 16), (2, 1, 16)]
ORDERS = [None,
          (("stationId", "asc"),), (("stationId", "desc"),), (("generationDeltaTime", "asc"),), (("generationDeltaTime", "desc"),),
          (("stationType", "asc"),), (("stationType", "desc"),),
          (("stationType", "asc"), ("stationId", "asc")), (("stationType", "asc"), ("stationId", "desc")),
          (("stationType", "desc"), ("stationId", "asc")), (("stationType", "desc"), ("stationId", "desc")),
          (("stationId", "asc"), ("generationDeltaTime", "desc")), (("stationId", "desc"), ("generationDeltaTime", "asc")),
          # attributes whose pool values include 0 between a negative and/or positive value (0 is not last in either direction):
          # generationDeltaTime {0, 50, 70, 100}, stationType {0, 1, 5, 6, 15}, lanePosition {-1, 0}, externalTemperature {-5, 0}
          (("lanePosition", "asc"),), (("lanePosition", "desc"),), (("externalTemperature", "desc"),),
          (("lanePosition", "desc"), ("stationId", "asc")), (("stationType", "asc"), ("generationDeltaTime", "asc")),
          (("messageId", "asc"), ("externalTemperature", "desc"))]


def lattice(full, thorough):
    """The declared finite request lattice: list of (label, types, filt, order)."""
    out = []
    singles = [((p, op, v), (cls, op, VKIND[i])) for (p, cls) in PATHS for op in OPS for i, v in enumerate(VALUES[p])]
    pairs = [((a, lg, b), ("pair", lg)) for a in PAIR_STATEMENTS for b in PAIR_STATEMENTS for lg in ("and", "or")]
    if full:
        for t in TYPE_SUBSETS:
            for o in ORDERS:
                out.append((("nofilter",), t, None, o))
        tsel = TYPE_SUBSETS if thorough else [(2, 1, 16), (2,), (1, 16)]
        for st, lab in singles:
            for t in tsel:
                out.append((lab, t, (st,), None))
        for (a, lg, b), lab in pairs:
            for t in ([(2, 1, 16), (2,), (2, 1)] if thorough else [(2, 1, 16), (2,)]):
                out.append((lab, t, (a, lg, b), None))
        for o in ORDERS[1:]:
            for f in (("header.stationId", "!=", 1001), ("header.messageId", "<=", 2), ("cam.camParameters.basicContainer.stationType", ">=", 5)):
                for t in [(2, 1, 16), (2,), (2, 16)]:
                    out.append((("order+filter",), t, (f,), o))
    else:
        for t in [(2, 1, 16), (2,), (1, 16), ()]:
            for o in (None, ORDERS[1], ORDERS[8]):
                out.append((("nofilter",), t, None, o))
        for st, lab in singles:
            if lab[2] in ("match", "othertype") and lab[1] in ("==", "!=", "<", "like"):
                out.append((lab, (2, 1, 16), (st,), None))
        for (a, lg, b), lab in pairs[::5]:
            out.append((lab, (2, 1, 16), (a, lg, b), None))
    return out


def mk_filter(filt):
    if filt is None:
        return None
    st = [C.FilterStatement(p, OPS[op], v) for (p, op, v) in (filt[0::2] if len(filt) == 3 else filt)]
    if len(st) == 1:
        return C.Filter(st[0])
    return C.Filter(st[0], LOGIC[filt[1]], st[1])


def mk_order(order):
    if order is None:
        return None
    return [C.OrderTupleValue(a, DIRS[d]) for a, d in order]


class Pair:
    """Two real LDMs with the same history, plus the reference list of stored records."""

    def __init__(self, tmpdir):
        self.d = LdmWorld("Dictionary")
        Pair.n = getattr(Pair, "n", 0) + 1
        self.t = LdmWorld("TinyDB", db_dir=tmpdir, db_name=f"ldm_{os.getpid()}_{Pair.n}.json")
        self.t_ok = True
        self.live = []          # [name, record(ref), dict id, tinydb id]
        self.issued = {2: [], 3: []}
        self.n_added = 0
        self.fallback_deletes = 0
        self.bad = []
        for w in (self.d, self.t):
            for app in APP_OF.values():
                assert w.reg_provider(app) == 0
            assert w.reg_consumer(CONSUMER, (APP["CAM"], APP["DENM"], APP["VAM"])) == 0

    def close(self):
        self.t.close()

    def step(self, ev, last):
        if ev[0] == "add":
            name = ev[1]
            msg = L.MSGS[name]()
            app = APP_OF[R.msg_type(msg)]
            did = self.d.add(app, L.MSGS[name](), VALIDITY, "near")
            tid = self.t.add(app, L.MSGS[name](), VALIDITY, "near") if self.t_ok else None
            if is_exc(did) or did == -1:
                self.bad.append(dict(kind="add_failed", backend="dictionary", obj=name, got=repr(did)))
            if self.t_ok and (is_exc(tid) or tid == -1):
                self.t_ok = False
                if last:
                    self.bad.append(dict(kind="backend_insert_exception", backend="tinydb", obj=name, exc=tid[1] if is_exc(tid) else "refused",
                                         has_bytes=_has_bytes(msg)))
            d = L.LOCS["near"]["d"]
            rec = {"application_id": app, "timestamp": L.its_ms(self.d.now),
                   "location": R.location_record(L.LDM_LAT + d[0], L.LDM_LON + d[1], L.LDM_ALT + d[2]), "dataObject": msg, "timeValidity": VALIDITY}
            self.live.append([name, rec, did, tid])
            self.issued[2].append(did)
            self.issued[3].append(tid)
            self.n_added += 1
        else:
            name, rec, did, tid = self.live.pop(ev[1])
            app = APP_OF[R.msg_type(rec["dataObject"])]
            for w, col, on in ((self.d, 2, True), (self.t, 3, self.t_ok)):
                if not on:
                    continue
                oid = (did, tid)[col - 2]
                before = self._count(w)
                w.delete(app, oid)
                if self._count(w) >= before:      # IF.LDM.3 delete without effect (C12's subject): use the collector's path
                    self.fallback_deletes += 1
                    with w:
                        w.ldm.ldm_maintenance.del_provider_data(w.ldm.ldm_maintenance.get_provider_data(oid))
                for a in APP_OF.values():      # (a delete without effect may have deregistered a provider, C12-K1b)
                    w.reg_provider(a)
                # deletion is by record value (C12-K6): of identical copies any may have gone - re-read who holds which identifier
                stored = [(i, w.get_by_id(i)) for i in self.issued[col]]
                stored = [(i, r) for i, r in stored if isinstance(r, dict)]
                for entry in self.live:
                    k = ckey(entry[1]["dataObject"], strict=False)
                    for j, (i, r) in enumerate(stored):
                        if ckey(r.get("dataObject"), strict=False) == k:
                            entry[col] = i
                            del stored[j]
                            break

    @staticmethod
    def _count(w):
        with w:
            return len(w.ldm.ldm_maintenance.get_all_data_containers())


def _has_bytes(o):
    if isinstance(o, (bytes, bytearray)):
        return True
    if isinstance(o, dict):
        return any(_has_bytes(v) for v in o.values())
    if isinstance(o, (list, tuple)):
        return any(_has_bytes(v) for v in o)
    return False


class W:
    """Snapshot = history only (worlds are re-materialised by replay)."""

    def __init__(self):
        self.hist = ()
        self.canon = ((), True)
        self.live_n = 0
        self.n_added = 0
        self.bad = []
        self.stats = None


class QueryModel:
    def __init__(self, tmpdir, max_adds, thorough, seed=0):
        self.tmpdir, self.max_adds, self.thorough = tmpdir, max_adds, thorough
        self.pool = list(POOL)
        random.Random(seed).shuffle(self.pool)
        self.lat_full = lattice(True, thorough)
        self.lat_red = lattice(False, thorough)
        self.done = {}

    def init(self):
        return W()

    def enabled(self, w):
        evs = [("add", n) for n in self.pool] if w.n_added < self.max_adds else []
        return evs + [("del", k) for k in range(w.live_n)]

    def canon(self, w):
        return w.canon

    def apply(self, w, ev):
        w.hist = w.hist + (tuple(ev),)
        pair = Pair(self.tmpdir)
        try:
            for i, e in enumerate(w.hist):
                pair.step(e, last=(i == len(w.hist) - 1))
            w.canon = (tuple((name, did) for name, _r, did, _t in pair.live), pair.t_ok)
            w.live_n, w.n_added = len(pair.live), pair.n_added
            w.bad = list(pair.bad)
            w.stats = None
            if w.canon not in self.done:
                pure = all(e[0] == "add" for e in w.hist)
                st = self.evaluate(pair, self.lat_full if pure else self.lat_red, w)
                st.update(pure_add=pure, fallback_deletes=pair.fallback_deletes, tinydb_enabled=pair.t_ok)
                self.done[w.canon] = st
                w.stats = st
        finally:
            pair.close()
        return None

    # -- the lattice on one store ----------------------------------------------------------------------------------
    def evaluate(self, pair, lat, w):
        store = [(R.msg_type(rec["dataObject"]), rec) for _n, rec, _d, _t in pair.live]
        agg = {}
        n = nontrivial = both_equal = both_differ = 0
        backends = [("dictionary", pair.d)] + ([("tinydb", pair.t)] if pair.t_ok else [])
        for label, types, filt, order in lat:
            cand = [rec for (t, rec) in store if t in types]
            want = [rec for rec in cand if R.filter_true(rec["dataObject"], filt)]
            wantc = Counter(ckey(r, strict=False) for r in want)
            trouble = None
            for rec in cand:
                trouble = trouble or R.filter_trouble(rec["dataObject"], filt)
            f_obj, o_obj = mk_filter(filt), mk_order(order)
            got_keys = []
            for bname, world in backends:
                n += 1
                res = world.request(CONSUMER, types, order=o_obj, filt=f_obj)
                base = dict(backend=bname, filtered=filt is not None, trouble=trouble)
                obase = dict(backend=bname, n_keys=len(order) if order else 0, mixed_dirs=bool(order and len({d for _a, d in order}) > 1))
                if is_exc(res):
                    sorted_set = want if filt is not None else [rec for _t, rec in store]
                    missing = bool(order) and any(R.find_leaf(rec, a) is R.MISSING for rec in sorted_set for a, _d in order)
                    self._agg(agg, dict(kind="request_exception", exc=res[1], ordered=order is not None, order_attr_missing=missing, **base),
                              label, types, filt, order, w, text=res[2])
                    got_keys.append(None)
                    continue
                code, data = res
                if code != 0:
                    self._agg(agg, dict(kind="request_refused", result=code, **base), label, types, filt, order, w)
                    got_keys.append(None)
                    continue
                have = Counter(ckey(r, strict=False) for r in data)
                got_keys.append(have)
                if have != wantc:
                    extra, lost = have - wantc, wantc - have
                    othertypes = Counter(ckey(rec, strict=False) for (t, rec) in store if t not in types)
                    self._agg(agg, dict(kind="wrong_result_set", got=("none" if not data else "some"), want=("none" if not want else "some"),
                                        lost=bool(lost), extra=bool(extra), extra_only_other_types=bool(extra) and not (extra - othertypes),
                                        **base), label, types, filt, order, w, got_n=len(data), want_n=len(want))
                elif order is not None:
                    ok, why = R.order_ok(list(data), order)
                    if not ok:
                        self._agg(agg, dict(kind="order_violated", **obase), label, types, filt, order, w)
                if want and len(want) < len(store):
                    nontrivial += 1
            if len(got_keys) == 2 and None not in got_keys:
                if got_keys[0] == got_keys[1]:
                    both_equal += 1
                else:
                    both_differ += 1
        for sig, (cnt, rec) in agg.items():
            rec["cases"] = cnt
            w.bad.append(rec)
        return dict(evaluations=n, nontrivial=nontrivial, backends_equal=both_equal, backends_differ=both_differ, store=len(store))

    @staticmethod
    def _agg(agg, rec, label, types, filt, order, w, **detail):
        sig = tuple(sorted((k, repr(v)) for k, v in rec.items()))
        if sig in agg:
            agg[sig][0] += 1
            return
        rec = dict(rec)
        rec.update(example=dict(types=list(types), filter=_j(filt), order=_j(order), label=list(label), **detail))
        agg[sig] = [1, rec]

    def check(self, w, ev, obs, hist):
        out = []
        for b in w.bad:
            b = dict(b)
            b["state"] = repr(w.canon)
            if b["kind"] in ("add_failed",):
                b["_cut"] = True
            out.append(b)
        return out

    def outcome(self, w, obs):
        return (w.live_n, w.canon[1], bool(w.bad))


def _j(x):
    if isinstance(x, tuple):
        return [_j(v) for v in x]
    return x


def _mk(tmpdir, max_adds, thorough, seed):
    return QueryModel(tmpdir, max_adds, thorough, seed)


# the explorer's Result has no slot for per-state statistics: ship them through `outcomes`
class StatModel(QueryModel):
    def outcome(self, w, obs):
        if w.stats is not None:
            s = w.stats
            return ("stats", repr(w.canon), s["evaluations"], s["nontrivial"], s["backends_equal"], s["backends_differ"], s["pure_add"],
                    s["fallback_deletes"], s["tinydb_enabled"])
        return ("seen", w.live_n, w.canon[1])


def _mk_stat(tmpdir, max_adds, thorough, seed):
    return StatModel(tmpdir, max_adds, thorough, seed)


def run(ctx):
    thorough = ctx.tier == "thorough"
    max_adds = 4 if thorough else 3
    depth = 2 * max_adds if thorough else 5
    tmpdir = tempfile.mkdtemp(prefix="verif_c13_")
    try:
        res = L.explore_parts(_mk_stat, [dict(name="stores", fargs=(tmpdir, max_adds, thorough, ctx.seed), depth=depth)], 2,
                              xcheck_every=53, max_violations=10**7)["stores"]
    finally:
        shutil.rmtree(tmpdir, ignore_errors=True)
    # per-state statistics and violations are de-duplicated by canonical state (jobs overlap)
    stats = {}
    for o in res.outcomes:
        if o[0] == "stats":
            stats[o[1]] = o
    ev = sum(o[2] for o in stats.values())
    nontrivial = sum(o[3] for o in stats.values())
    seen = set()
    for rec, hist in res.violations:
        sig = (rec.get("state"), tuple(sorted((k, repr(v)) for k, v in rec.items() if k not in ("example", "cases", "state"))))
        if sig in seen:
            continue
        seen.add(sig)
        cases = rec.pop("cases", 1)
        rec["part"] = "stores"
        fid = ctx.classify(rec)
        if fid is not None:
            ctx.known_hits[fid] = ctx.known_hits.get(fid, 0) + cases
            ctx.known_examples.setdefault(fid, rec)
        else:
            ctx.violation(rec, replay=dict(history=hist, tier=ctx.tier, example=rec.get("example")))
            ctx.total_new += cases - 1
    ctx.parts["stores"] = dict(
        states=res.states, transitions=res.transitions, max_depth=res.max_depth, depth_bound=depth, max_adds=max_adds, pool=POOL,
        states_with_lattice=len(stats), pure_add_states=sum(1 for o in stats.values() if o[6]),
        lattice_full=len(lattice(True, thorough)), lattice_reduced=len(lattice(False, thorough)),
        request_evaluations=ev, nontrivial_evaluations=nontrivial,
        backend_pairs_equal=sum(o[4] for o in stats.values()), backend_pairs_differ=sum(o[5] for o in stats.values()),
        if_ldm_3_delete_fallbacks=sum(o[7] for o in stats.values()), states_tinydb_disabled=sum(1 for o in stats.values() if not o[8]),
        pruned_successors=res.pruned, xchecks=res.xchecks, graph_closed=res.complete)
    ctx.coverage.update(
        states=res.states, transitions=res.transitions, traces_validated_against_impl=res.transitions, replay_crosschecks=res.xchecks,
        request_evaluations=ev, nontrivial_evaluations=nontrivial, pruned_successors_behind_findings=res.pruned,
        exhaustive=bool(res.complete or str(res.cap_hit).startswith("depth")), caps=[res.cap_hit] if res.cap_hit else [],
        state_digests=[("stores", res.digest())],
        samples=(res.samples[:3] or [[["add", "camA"], ["add", "denmA"], ["del", 0]]]),
        explanation=("every transition replays an add/delete history through IF.LDM.3 on two real LDMs (Dictionary and TinyDB back-end); every "
                     "distinct store is then queried through IF.LDM.4 request_data_objects with the complete declared request lattice on both "
                     "back-ends and compared with the brute-force predicate; a state is the sequence of live (object, identifier) pairs"),
    )
    ctx.assumptions += [
        "brute-force predicate mc/ref/ldm_model.py:filter_true - a missing attribute or an undefined comparison (TypeError) makes the statement "
        "false; like/notlike = containment of the reference value in a string/sequence attribute (semantics documented in ldm_constants)",
        "result sets are compared as multisets modulo JSON representation (tuple == list), without an order tuple the sequence is free; with an "
        "order tuple the sequence must be sorted by the leaf attributes (ties free; undefined when an object lacks the attribute)",
        "order tuples are passed as list (the only container IF.LDM.4 request accepts), attributes are leaf names as documented in OrderTupleValue",
        "deletions go through IF.LDM.3; where that has no effect (C12 finding) the maintenance component's own deletion path is used instead",
    ]


def replay(path):
    import json
    rec = json.load(open(path))
    print(json.dumps(rec["violation"], indent=1))
    rp = rec["replay"]
    tmpdir = tempfile.mkdtemp(prefix="verif_c13_")
    try:
        m = QueryModel(tmpdir, 9, rp.get("tier") == "thorough")
        ex = rp.get("example")
        if ex:      # re-evaluate exactly the recorded request on the store reached by the history
            def tup(x):
                return tuple(tup(v) for v in x) if isinstance(x, list) else x
            one = [(tuple(ex.get("label", ["replay"])), tup(ex["types"]), tup(ex["filter"]) if ex["filter"] else None,
                    tup(ex["order"]) if ex["order"] else None)]
            m.lat_full = m.lat_red = one
        w = m.init()
        bad = []
        for ev in rp["history"]:
            m.done = {}
            m.apply(w, tuple(ev))
            bad = m.check(w, ev, None, [])
            print(ev, "->", [(b["kind"], b.get("backend"), b.get("cases")) for b in bad] or "ok")
        for b in bad:
            print(json.dumps(b, default=repr)[:700])
        return 1 if bad else 0
    finally:
        shutil.rmtree(tmpdir, ignore_errors=True)
