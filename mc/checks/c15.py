"""C15 - GeoNetworking router under concurrent origination, reception and timers (E2 schedule exploration)."""
from __future__ import annotations

import multiprocessing as mp

from mc import env  # noqa: F401
from mc import sched as SC
from mc.ref import gn_codec as G
from mc.worlds import stations as S

from flexstack.geonet.router import Router as GNRouter
from flexstack.geonet.mib import MIB, AreaForwardingAlgorithm
from flexstack.geonet.gn_address import GNAddress, M, ST, MID
from flexstack.geonet.service_access_point import HeaderSubType
from flexstack.geonet.basic_header import BasicHeader
from flexstack.geonet.common_header import CommonHeader
from flexstack.geonet.gbc_extended_header import GBCExtendedHeader
from flexstack.linklayer.link_layer import LinkLayer

LEVEL = "model_checking"
SCOPE = ("geonet/router.py", "geonet/location_table.py")
SCHED_KW = dict(scope=SCOPE, horizon=3)

ITS_EPOCH = 1072915200
MID_R, MID_D, MID_S = b"\0\0\0\0\0\x0f", b"\0\0\0\0\0\x0d", b"\0\0\0\0\0\x01"
ADDR_R, ADDR_D, ADDR_S = (G.addr_encode(0, 5, m) for m in (MID_R, MID_D, MID_S))
LAT, LON = 410000000, 20000000


def tst(now):
    return int((now - ITS_EPOCH + 5) * 1000) % 2**32


class RecLL(LinkLayer):
    def __init__(self, sched):
        super().__init__(lambda b: None)
        self.sched = sched
        self.sent = []

    def send(self, packet):
        me = self.sched.me()
        self.sent.append((me.name if me else "main", bytes(packet)))


class Base:
    algo = "SIMPLE"
    mib_kw = {}

    def setup(self, s):
        self.s = s
        self.addr = GNAddress(m=M.GN_UNICAST, st=ST.PASSENGER_CAR, mid=MID(MID_R))
        kw = dict(itsGnLocalGnAddr=self.addr, itsGnBeaconServiceRetransmitTimer=0,
                  itsGnAreaForwardingAlgorithm=getattr(AreaForwardingAlgorithm, self.algo))
        kw.update(self.mib_kw)
        self.r = GNRouter(MIB(**kw))
        self.ll = RecLL(s)
        self.r.link_layer = self.ll
        self.inds = []
        self.r.register_indication_callback(lambda ind: self.inds.append((s.me().name if s.me() else "main", bytes(ind.data))))
        self.r.refresh_ego_position_vector({"lat": 41.0, "lon": 2.0, "speed": 1.0, "track": 0.0, "time": S.iso(s.now)})
        self.extra_setup()

    def extra_setup(self):
        pass

    def know(self, mid, lat=LAT + 2000, lon=LON):
        """make a station known as neighbour (beacon processed during set-up)"""
        pkt = G.build("beacon", so_addr=G.addr_encode(0, 5, mid), so=dict(tst=tst(self.s.now), lat=lat, lon=lon, pai=1), rhl=1, mhl=1)
        self.r.gn_data_indicate(pkt)

    def frames(self):
        return [G.parse(f) for _n, f in self.ll.sent]

    def outcome(self, s):
        return (tuple((n, f[:16]) for n, f in self.ll.sent), tuple(self.inds), s.deadlock)

    def check(self, s):
        return []


def greq(kind, dest=None, payload=b"\x07\xd1\x00\x00p"):
    if kind == "gbc":
        ptt = S.PacketTransportType(S.HeaderType.GEOBROADCAST, S.GeoBroadcastHST.GEOBROADCAST_CIRCLE)
    elif kind == "shb":
        ptt = S.PacketTransportType(S.HeaderType.TSB, S.TopoBroadcastHST.SINGLE_HOP)
    else:
        ptt = S.PacketTransportType(S.HeaderType.GEOUNICAST, HeaderSubType.UNSPECIFIED)
    return S.GNDataRequest(upper_protocol_entity=S.CommonNH.BTP_B, packet_transport_type=ptt, data=payload, length=len(payload),
                           area=S.Area(latitude=LAT, longitude=LON, a=300, b=300, angle=0), max_hop_limit=3, destination=dest)


class H1Sequence(Base):
    """3 originators (GBC, GUC to a known destination, GUC needing a location lookup): SNs pairwise distinct"""
    mib_kw = dict(itsGnLocationServiceMaxRetrans=1)

    def extra_setup(self):
        self.know(MID_D)
        self.d = GNAddress(m=M.GN_UNICAST, st=ST.PASSENGER_CAR, mid=MID(MID_D))
        self.u = GNAddress(m=M.GN_UNICAST, st=ST.PASSENGER_CAR, mid=MID(b"\0\0\0\0\0\x77"))

    def actors(self):
        return [("gbc", lambda: self.r.gn_data_request(greq("gbc"))),
                ("guc", lambda: self.r.gn_data_request(greq("guc", self.d))),
                ("ls", lambda: self.r.gn_data_request(greq("guc", self.u)))]

    def check(self, s):
        sns = [p["ext"]["sn"] for p in self.frames() if "sn" in p.get("ext", {})]
        bad = []
        if len(sns) != len(set(sns)):
            bad.append(dict(kind="duplicate_sequence_number", sns=sns))
        if len(sns) < 3:
            bad.append(dict(kind="missing_packet", sns=sns))
        return bad


def gbc_packet(now, sn=7, rhl=3, src=ADDR_S):
    return G.build("gbc", so_addr=src, so=dict(tst=tst(now), lat=LAT + 5000, lon=LON, pai=1), sn=sn, rhl=rhl, mhl=5, nh=G.CNH_BTPB,
                   payload=b"\x07\xd1\x00\x00cbf", area=dict(lat=LAT, lon=LON, a=800, b=800, angle=0, shape=0))


class H2Cbf(Base):
    """rx(P) || rx(duplicate P) || CBF timer: P transmitted at most once, never after a completed cancellation"""
    algo = "CBF"

    def extra_setup(self):
        self.know(MID_S, LAT + 5000)
        self.p = gbc_packet(self.s.now)

    def actors(self):
        return [("rx1", lambda: self.r.gn_data_indicate(self.p)), ("rx2", lambda: self.r.gn_data_indicate(self.p))]

    def check(self, s):
        bad = []
        tx = [(n, f) for n, f in self.ll.sent]
        if len(tx) > 1:
            bad.append(dict(kind="cbf_transmitted_twice", count=len(tx)))
        if len(self.inds) != 1:
            bad.append(dict(kind="delivery_count", got=len(self.inds), expected=1))
        for timer, started in s.timer_cancels:
            if started is False and any(n == timer.ct.name and timer.ct.first_step_done for n, _f in tx):
                bad.append(dict(kind="sent_after_cancel"))
        for t in s.threads:
            if t.is_timer and getattr(t, "timer", None) is not None and t.timer.cancelled and not t.first_step_done:
                pass
        if getattr(self.r, "_cbf_buffer", None):
            bad.append(dict(kind="cbf_buffer_leak", keys=len(self.r._cbf_buffer)))
        return bad


class H2bSeam(H2Cbf):
    """gn_area_cbf_forwarding(P) x2 || timer (the seam where cancellation is reachable directly)"""

    def actors(self):
        bh = BasicHeader.decode_from_bytes(self.p[0:4]).set_rhl(2)
        ch = CommonHeader.decode_from_bytes(self.p[4:12])
        gh = GBCExtendedHeader.decode(self.p[12:56])
        pay = self.p[56:]
        self.ret = []
        return [("f1", lambda: self.ret.append(self.r.gn_area_cbf_forwarding(bh, ch, gh, pay))),
                ("f2", lambda: self.ret.append(self.r.gn_area_cbf_forwarding(bh, ch, gh, pay)))]

    def check(self, s):
        # the seam has no duplicate detection of its own: a call either buffers the packet (True: exactly one later
        # transmission unless a following call cancels it) or cancels the buffered copy (False: no transmission of it)
        bad = []
        buffered, cancelled = self.ret.count(True), self.ret.count(False)
        if len(self.ret) != 2 or buffered < 1:
            bad.append(dict(kind="cbf_return_values", got=sorted(self.ret)))
        tx = len(self.ll.sent)
        if tx > buffered:
            bad.append(dict(kind="cbf_transmitted_more_than_buffered", sent=tx, buffered=buffered))
        if cancelled and tx > buffered - cancelled:
            bad.append(dict(kind="sent_after_cancel", sent=tx, buffered=buffered, cancelled=cancelled))
        if not cancelled and tx != buffered and not any(t.is_timer and not t.finished for t in s.threads):
            bad.append(dict(kind="cbf_buffered_copy_never_sent", sent=tx, buffered=buffered))
        for timer, started in s.timer_cancels:
            if started is False and timer.ct is not None and timer.ct.first_step_done:
                bad.append(dict(kind="timer_ran_after_cancel"))
        if getattr(self.r, "_cbf_buffer", None):
            bad.append(dict(kind="cbf_buffer_leak", keys=len(self.r._cbf_buffer)))
        return bad


class H3EgoPv(Base):
    """refresh(tpv1) || refresh(tpv2) || 2 x SHB: every emitted SO PV is one of the whole ego PVs"""

    def extra_setup(self):
        self.pvs = {(self.r.ego_position_vector.latitude, self.r.ego_position_vector.longitude, self.r.ego_position_vector.s,
                     self.r.ego_position_vector.h, self.r.ego_position_vector.tst.msec)}
        self.t1 = {"lat": 41.1, "lon": 2.1, "speed": 11.0, "track": 111.0, "time": S.iso(self.s.now + 1)}
        self.t2 = {"lat": 41.2, "lon": 2.2, "speed": 22.0, "track": 222.0, "time": S.iso(self.s.now + 2)}
        for i, t in ((1, self.t1), (2, self.t2)):
            self.pvs.add((int(t["lat"] * 1e7), int(t["lon"] * 1e7), int(t["speed"] * 100), int(t["track"] * 10),
                          tst(self.s.now + i)))

    def actors(self):
        return [("ref1", lambda: self.r.refresh_ego_position_vector(self.t1)), ("ref2", lambda: self.r.refresh_ego_position_vector(self.t2)),
                ("shb1", lambda: self.r.gn_data_request(greq("shb"))), ("gbc1", lambda: self.r.gn_data_request(greq("gbc")))]

    def check(self, s):
        bad = []
        for p in self.frames():
            so = p["ext"]["so"]
            if (so["lat"], so["lon"], so["s"], so["h"], so["tst"]) not in self.pvs:
                bad.append(dict(kind="torn_position_vector", so=[so["lat"], so["lon"], so["s"], so["h"], so["tst"]]))
        if len(self.ll.sent) != 2:
            bad.append(dict(kind="missing_packet", count=len(self.ll.sent)))
        fin = self.r.ego_position_vector
        if (fin.latitude, fin.longitude, fin.s, fin.h, fin.tst.msec) not in self.pvs:
            bad.append(dict(kind="torn_ego_pv"))
        return bad


class H4LocationService(Base):
    """guc(r1->D) || guc(r2->D) || rx(LS reply from D) || retransmit timers: each buffered request sent exactly once
    after the reply or dropped after the final retry, never twice"""
    mib_kw = dict(itsGnLocationServiceMaxRetrans=1)

    def extra_setup(self):
        self.d = GNAddress(m=M.GN_UNICAST, st=ST.PASSENGER_CAR, mid=MID(MID_D))
        self.reply = G.build("ls_reply", so_addr=ADDR_D, so=dict(tst=tst(self.s.now), lat=LAT + 4000, lon=LON, pai=1), sn=3, rhl=5, mhl=5,
                             de=dict(addr=ADDR_R, tst=tst(self.s.now), lat=LAT, lon=LON))

    def actors(self):
        return [("g1", lambda: self.r.gn_data_request(greq("guc", self.d, b"\x07\xd1\x00\x00one"))),
                ("g2", lambda: self.r.gn_data_request(greq("guc", self.d, b"\x07\xd1\x00\x00two"))),
                ("rx", lambda: self.r.gn_data_indicate(self.reply))]

    def check(self, s):
        bad = []
        fr = self.frames()
        gucs = [p for p in fr if p["kind"] == "guc"]
        for name in (b"one", b"two"):
            n = sum(1 for p in gucs if p["payload"].endswith(name))
            if n > 1:
                bad.append(dict(kind="unicast_sent_twice", request=name.decode(), count=n))
            pending = sum(1 for lst in getattr(self.r, "_ls_packet_buffers", {}).values() for q in lst if q.data.endswith(name))
            if n + pending > 1:
                bad.append(dict(kind="unicast_sent_and_still_buffered", request=name.decode()))
            if n == 0 and pending == 0:
                # allowed only if a lookup was abandoned after the final retry: that takes MaxRetrans + 1 = 2 expiries of LS timers
                fired = sum(1 for t in s.threads if t.is_timer and t.first_step_done and "ls_retransmit" in t.name)
                if fired < 2:
                    bad.append(dict(kind="unicast_request_lost", request=name.decode(), ls_timer_expiries=fired, frames=[p["kind"] for p in fr]))
            if pending and not any(t.is_timer and not t.finished for t in s.threads) and not s.deadlock:
                bad.append(dict(kind="unicast_stranded_in_buffer", request=name.decode()))
        sns = [p["ext"]["sn"] for p in fr if "sn" in p.get("ext", {})]
        if len(sns) != len(set(sns)):
            bad.append(dict(kind="duplicate_sequence_number", sns=sns))
        return bad


class H5Dpd(Base):
    """rx(P) || rx(P) || rx(other SN): P delivered once, forwarded once"""

    def extra_setup(self):
        self.know(MID_S, LAT + 5000)
        self.p = gbc_packet(self.s.now, sn=7)
        self.q = gbc_packet(self.s.now, sn=8)

    def actors(self):
        return [("rx1", lambda: self.r.gn_data_indicate(self.p)), ("rx2", lambda: self.r.gn_data_indicate(self.p)),
                ("rx3", lambda: self.r.gn_data_indicate(self.q))]

    def check(self, s):
        bad = []
        if len(self.inds) != 2:
            bad.append(dict(kind="delivery_count", got=len(self.inds), expected=2))
        sns = sorted(p["ext"]["sn"] for p in self.frames())
        if sns != [7, 8]:
            bad.append(dict(kind="forward_count", sns=sns))
        return bad


class H1Small(H1Sequence):
    def actors(self):
        return H1Sequence.actors(self)[:2]

    def check(self, s):
        sns = [p["ext"]["sn"] for p in self.frames() if "sn" in p.get("ext", {})]
        return [dict(kind="duplicate_sequence_number", sns=sns)] if len(sns) != len(set(sns)) or len(sns) != 2 else []


class H1Lookup(H1Small):
    """originate GBC (scans the neighbours) || GUC to an unknown station (its lookup adds a placeholder to the same table)"""

    def actors(self):
        a = H1Sequence.actors(self)
        return [a[0], a[2]]

    def check(self, s):
        sns = [p["ext"]["sn"] for p in self.frames() if "sn" in p.get("ext", {})]    # GBC, LS request and its retransmissions
        return [dict(kind="duplicate_sequence_number", sns=sns)] if len(sns) != len(set(sns)) or len(sns) < 2 else []


class H3Small(H3EgoPv):
    def actors(self):
        a = H3EgoPv.actors(self)
        return [a[0], a[2], a[3]]


class H4Small(H4LocationService):
    def actors(self):
        a = H4LocationService.actors(self)
        return [a[0], a[2]]

    def check(self, s):
        return [b for b in H4LocationService.check(self, s) if b.get("request") != "two"]


class H4Timeout(H4LocationService):
    """one unicast request, the destination never answers: the request must be dropped after the final retry
    (timer expiry may race with the registration of the timer)"""

    def actors(self):
        return H4LocationService.actors(self)[:1]

    def check(self, s):
        bad = [b for b in H4LocationService.check(self, s) if b.get("request") != "two"]
        fr = self.frames()
        if any(p["kind"] == "guc" for p in fr):
            bad.append(dict(kind="unicast_sent_without_reply"))
        entry = self.r.location_table.get_entry(self.d)
        if entry is not None and entry.ls_pending and not any(t.is_timer and not t.finished for t in s.threads):
            bad.append(dict(kind="lookup_pending_for_ever"))
        return bad


class H4Prebuffered(H4LocationService):
    """request 'one' is already buffered for the lookup; a second request to the same destination races with the reply"""

    def extra_setup(self):
        H4LocationService.extra_setup(self)
        self.r.gn_data_request(greq("guc", self.d, b"\x07\xd1\x00\x00one"))

    # timers follow the virtual clock here (they cannot expire before the actors are done), so no lookup can be abandoned
    # before the reply is processed: both requests must go out exactly once
    sched_kw = dict(timers_use_clock=True)

    def actors(self):
        a = H4LocationService.actors(self)
        return [a[1], a[2]]

    def check(self, s):
        bad = [b for b in H4LocationService.check(self, s) if b["kind"] not in ("unicast_request_lost",)]
        gucs = [p for p in self.frames() if p["kind"] == "guc"]
        n1 = sum(1 for p in gucs if p["payload"].endswith(b"one"))
        n2 = sum(1 for p in gucs if p["payload"].endswith(b"two"))
        fresh_lookup_by_g2 = any(n == "g2" and G.parse(f)["kind"] == "ls_request" for n, f in self.ll.sent)
        expiries = sum(1 for t in s.threads if t.is_timer and t.first_step_done and "ls_retransmit" in t.name)
        # buffered before the reply, the reply is processed, no timer can expire before: exactly once - unless (2 preemptions)
        # 'two' started a lookup of its own between the reply's emptying of the buffer and the re-processing of 'one', which
        # then queued up behind 'two'; that second lookup is never answered here, so both are dropped after its final retry
        requeued = n1 == 0 and n2 == 0 and fresh_lookup_by_g2 and expiries >= 2
        if n1 != 1 and not requeued:
            bad.append(dict(kind="unicast_not_sent_exactly_once_after_reply", request="one", count=n1))
        if n2 > 1 or (n2 == 0 and not fresh_lookup_by_g2):
            # 'two' may only be missing when it started a lookup of its own after the reply had been consumed (the closed
            # harness never answers that second lookup, so it is abandoned after the final retry)
            bad.append(dict(kind="unicast_not_sent_exactly_once_after_reply", request="two", count=n2))
        return bad


class H4Beacon(H4LocationService):
    """guc(one->D) || [rx(first SHB from D); guc(two->D)]; D answers every location-service request (the answer is a thread of
    its own, started when the request leaves the link layer).  Timers follow the virtual clock, so no lookup is abandoned
    before its answer has been processed: both requests must go out exactly once, nothing may stay buffered."""
    sched_kw = dict(timers_use_clock=True)

    def extra_setup(self):
        H4LocationService.extra_setup(self)
        self.shb = G.build("shb", so_addr=ADDR_D, so=dict(tst=tst(self.s.now), lat=LAT + 4000, lon=LON, pai=1), nh=G.CNH_BTPB,
                           payload=b"\x07\xd1\x00\x00hello")
        self.answers = 0
        orig_send = self.ll.send

        def send(packet):
            orig_send(packet)
            if G.parse(bytes(packet))["kind"] == "ls_request" and self.answers < 3:
                self.answers += 1
                k = self.answers         # a fresh reply each time (own sequence number and timestamp: not a duplicate)
                reply = G.build("ls_reply", so_addr=ADDR_D, so=dict(tst=tst(self.s.now) + k, lat=LAT + 4000, lon=LON, pai=1),
                                sn=3 + k, rhl=5, mhl=5, de=dict(addr=ADDR_R, tst=tst(self.s.now), lat=LAT, lon=LON))
                self.s.spawn("answer%d" % k, lambda: self.r.gn_data_indicate(reply))
        self.ll.send = send

    def actors(self):
        a = H4LocationService.actors(self)
        return [("g1", a[0][1]), ("shb_g2", lambda: (self.r.gn_data_indicate(self.shb), a[1][1]()))]

    def check(self, s):
        bad = [b for b in H4LocationService.check(self, s) if b["kind"] not in ("unicast_request_lost",)]
        gucs = [p for p in self.frames() if p["kind"] == "guc"]
        for name in (b"one", b"two"):
            n = sum(1 for p in gucs if p["payload"].endswith(name))
            if n != 1:
                bad.append(dict(kind="unicast_not_sent_exactly_once_after_reply", request=name.decode(), count=n,
                                frames=[(a, G.parse(f)["kind"]) for a, f in self.ll.sent]))
        return bad


class H4BeaconB(H4Beacon):
    """[guc(one->D); guc(two->D)] || rx(first SHB from D), same environment and oracle as H4b"""

    def actors(self):
        a = H4LocationService.actors(self)
        return [("g12", lambda: (a[0][1](), a[1][1]())), ("shb", lambda: self.r.gn_data_indicate(self.shb))]


class H6Mixed(H3EgoPv):
    """rx(first beacon of X) || originate GBC || rx(GBC of S to forward and deliver) || refresh ego position: nothing fails,
    one originated and one forwarded frame, one delivery, originated SO PV a whole ego PV"""

    def extra_setup(self):
        H3EgoPv.extra_setup(self)
        # the refreshed position stays inside the packet's area (a move out of it would legitimately change what is delivered)
        self.t1 = {"lat": 41.0001, "lon": 2.0001, "speed": 11.0, "track": 111.0, "time": S.iso(self.s.now + 1)}
        self.pvs.add((int(self.t1["lat"] * 1e7), int(self.t1["lon"] * 1e7), 1100, 1110, tst(self.s.now + 1)))
        self.know(MID_S, LAT + 5000)
        self.p = gbc_packet(self.s.now, sn=7)
        self.bx = G.build("beacon", so_addr=G.addr_encode(0, 5, b"\0\0\0\0\0\x55"), so=dict(tst=tst(self.s.now), lat=LAT + 900, lon=LON, pai=1),
                          rhl=1, mhl=1)

    def actors(self):
        return [("bx", lambda: self.r.gn_data_indicate(self.bx)), ("gbc1", lambda: self.r.gn_data_request(greq("gbc"))),
                ("rxs", lambda: self.r.gn_data_indicate(self.p)), ("ref1", lambda: self.r.refresh_ego_position_vector(self.t1))]

    def check(self, s):
        bad = []
        fr = self.frames()
        own = [p for p in fr if p["ext"]["so"]["addr_raw"] == ADDR_R]
        fwd = [p for p in fr if p["ext"]["so"]["addr_raw"] == ADDR_S]
        if len(own) != 1 or len(fwd) != 1 or len(fr) != 2:
            bad.append(dict(kind="frame_count", own=len(own), forwarded=len(fwd), total=len(fr)))
        for p in own:
            so = p["ext"]["so"]
            if (so["lat"], so["lon"], so["s"], so["h"], so["tst"]) not in self.pvs:
                bad.append(dict(kind="torn_position_vector", so=[so["lat"], so["lon"], so["s"], so["h"], so["tst"]]))
        for p in fwd:
            if p["payload"] != b"\x07\xd1\x00\x00cbf" or p["ext"]["sn"] != 7 or p["basic"]["rhl"] != 2:
                bad.append(dict(kind="forwarded_frame_altered", sn=p["ext"]["sn"], rhl=p["basic"]["rhl"]))
        if len(self.inds) != 1:
            bad.append(dict(kind="delivery_count", got=len(self.inds), expected=1))
        # (not judged: whether X is in the location table afterwards - the property has no clause about the table under
        #  concurrency; on the pinned tree a concurrent refresh_table() can purge X's entry between its insertion and its
        #  first update, see DESIGN 8.2 "observed outside the properties")
        fin = self.r.ego_position_vector
        if (fin.latitude, fin.longitude, fin.s, fin.h, fin.tst.msec) not in self.pvs:
            bad.append(dict(kind="torn_ego_pv"))
        return bad


class H6Small(H6Mixed):
    """rx(first beacon of X) || originate GBC (scans the neighbours while the table grows)"""

    def actors(self):
        return H6Mixed.actors(self)[:2]

    def check(self, s):
        bad = []
        fr = self.frames()
        if len(fr) != 1 or fr[0]["ext"]["so"]["addr_raw"] != ADDR_R:
            bad.append(dict(kind="frame_count", total=len(fr)))
        for p in fr:
            so = p["ext"]["so"]
            if (so["lat"], so["lon"], so["s"], so["h"], so["tst"]) not in self.pvs:
                bad.append(dict(kind="torn_position_vector", so=[so["lat"], so["lon"], so["s"], so["h"], so["tst"]]))
        return bad


class H5Small(H5Dpd):
    def actors(self):
        return H5Dpd.actors(self)[:2]

    def check(self, s):
        bad = []
        if len(self.inds) != 1:
            bad.append(dict(kind="delivery_count", got=len(self.inds), expected=1))
        if len(self.ll.sent) != 1:
            bad.append(dict(kind="forward_count", got=len(self.ll.sent)))
        return bad


HARNESSES = {"H1l": H1Lookup, "H6": H6Mixed, "H6s": H6Small, "H4b": H4Beacon, "H4c": H4BeaconB, "H4p": H4Prebuffered, "H4t": H4Timeout, "H1s": H1Small, "H3s": H3Small, "H4s": H4Small, "H5s": H5Small, "H1": H1Sequence, "H2": H2Cbf, "H2b": H2bSeam, "H3": H3EgoPv, "H4": H4LocationService, "H5": H5Dpd}


def make(name):
    return HARNESSES[name]()


def run(ctx):
    thorough = ctx.tier == "thorough"
    plan = {"H1s": 1, "H1l": 1, "H2": 1, "H2b": 2, "H3s": 1, "H4s": 1, "H4t": 1, "H4p": 1, "H4b": 1, "H5s": 1, "H6s": 1} if not thorough else \
           {"H1s": 2, "H1l": 2, "H1": 1, "H2": 2, "H2b": 3, "H3s": 2, "H3": 1, "H4s": 2, "H4t": 2, "H4p": 2, "H4b": 1, "H4c": 1, "H4": 1, "H5s": 2, "H5": 1, "H6s": 2, "H6": 1}
    tot_s = tot_steps = 0
    outcomes = 0
    samples = []
    capped = False
    with mp.Pool(16) as pool:
        for name, bound in plan.items():
            st = SC.explore(make, (name,), bound, dict(SCHED_KW, **getattr(HARNESSES[name], "sched_kw", {})), pool=pool, max_schedules=None)
            tot_s += st["schedules"]
            tot_steps += st["steps"]
            outcomes += len(st["outcomes"])
            capped = capped or st["capped"]
            if st["sample"]:
                samples.append(dict(harness=name, **st["sample"]))
            ctx.parts[name] = dict(schedules=st["schedules"], preemption_bound=bound, points_max=st["max_points"], steps=st["steps"],
                                   distinct_outcomes=len(st["outcomes"]), violations=st["nviol"])
            for rec, choices in st["violations"]:
                rec["harness"] = name
                ctx.violation(rec, replay=dict(harness=name, choices=choices))
    ctx.coverage.update(
        states=outcomes, transitions=tot_s, traces_validated_against_impl=tot_s, scheduler_steps=tot_steps, exhaustive=not capped,
        samples=samples[:4],
        explanation=("every schedule with at most the stated number of preemptions of each harness (scheduling points before every "
                     "shared-state bytecode of router.py/location_table.py and at every lock/timer operation) executed on fresh real "
                     "routers; 'states' = distinct observed outcomes (frames, indications), 'transitions' = schedules executed"))
    ctx.assumptions += ["C-level atomicity of dict/deque/list operations (CPython)", "preemption bounds per harness in coverage.parts",
                        "timer expiry may happen at any point after start() (arbitrary expiry time)"]


def replay(path):
    import json
    rec = json.load(open(path))
    print(json.dumps(rec["violation"], indent=1))
    rp = rec["replay"]
    s, h, bad = SC.execute(lambda: make(rp["harness"]), rp["choices"], dict(SCHED_KW, **getattr(HARNESSES[rp["harness"]], "sched_kw", {})))
    print("frames:", [(n, G.parse(f)["kind"]) for n, f in h.ll.sent])
    print(bad or "ok")
    return 1 if bad else 0
