"""C03 - secured packets are delivered only if authentic and untampered (E3 mutation families + E1 histories).

Every element of the declared finite mutation families of captured *genuine* secured packets is pushed through the
real receive path (geonet.Router with itsGnSecurity=ENABLED -> VerifyService -> CertificateLibrary -> ECDSA backend)
on a fresh copy of the receiver and judged by the independent oracle ``delivered => authentic``
(mc/ref/chain_check.py).  Part 2 explores all arrival orders of genuine / forged / unsecured packets (BFS over
the real receiver) with the same oracle plus trust-store closure on every state.
"""
from __future__ import annotations

import copy
import itertools
import json
import multiprocessing as mp
import random

from mc import env  # noqa: F401
from mc import explore as X
from mc.ref import chain_check as CC
from mc.ref import gn_codec as G
from mc.worlds import secured as S

LEVEL = "model_checking"

MID = {"A": b"\0\0\0\0\0\x0a", "B": b"\0\0\0\0\0\x0b", "C": b"\0\0\0\0\0\x0c", "H": b"\0\0\0\0\0\x0e"}
T_RX = S.T0 + 3.0


# ------------------------------------------------------------------------------------------------
# captured genuine packets (real sender stack: btp.Router -> geonet.Router -> SignService)
# ------------------------------------------------------------------------------------------------
_CAP = None


def capture():
    """Deterministic capture of genuine frames {name: frame}."""
    global _CAP
    if _CAP is not None:
        return _CAP
    net = S.SecNet(now=S.T0, rng_seed="c03-capture")
    a = net.add_secured("A", MID["A"], S.make_stack(own="AT1"))
    c = net.add_secured("C", MID["C"], S.make_stack(own="AT3"), lat=41.0002)
    h = net.add_secured("H", MID["H"], S.make_stack(own="AT2"), lat=41.0004)
    net.connect_all()
    out = {}

    def tx(st, kind, name, dt, payload):
        net.now += dt
        st.refresh()
        net.sent.clear()
        S.send(net, st, kind, payload)
        frames = [f for (s, f) in net.sent if s == st.name]
        assert len(frames) == 1, (name, len(frames))
        out[name] = frames[0]
        net.quiesce()

    tx(h, "CAM", "_h", 0.0, b"helper")                 # gives A and C a neighbour (needed for GBC origination)
    tx(a, "CAM", "cam_cert", 0.05, b"CAM:" + bytes(range(40)))
    tx(a, "CAM", "cam_digest", 0.30, b"CAM:" + bytes(range(40, 80)))
    tx(a, "DENM", "denm", 0.10, b"DENM:" + bytes(range(48)))
    tx(a, "GEN", "gen", 0.10, b"GEN:" + bytes(range(24)))
    tx(a, "VAM", "vam_digest", 0.10, b"VAM:" + bytes(range(30)))
    tx(c, "CAM", "c_cert", 0.01, b"CAM-C:" + bytes(range(20)))
    tx(c, "CAM", "c_digest", 0.20, b"CAM-C:" + bytes(range(20, 40)))
    tx(a, "VAM", "vam_cert", 1.00, b"VAM:" + bytes(range(30, 60)))
    for n, pl in (("cam_empty", b""), ("cam_1", b"\x00"), ("cam_long", bytes(range(256)) * 4)):
        tx(a, "CAM", n, 1.05, pl)                      # "all payloads": lengths 0, 1, 1024 (certificate included each time)
    out.pop("_h")
    for n, f in out.items():
        v = CC.classify(f[4:], S.trust(), {S.pki().h8(x): S.pki().d(x) for x in ("AT1", "AT3")})
        assert v.authentic, (n, v.why)
    _CAP = out
    return out


def receiver(known=()):
    net = S.SecNet(now=T_RX, rng_seed="c03-rx")
    net.add_secured("B", MID["B"], S.make_stack(own="AT2", known_ats=known), lat=41.0001)
    return net


# ------------------------------------------------------------------------------------------------
# oracle wrapper: one frame against one receiver copy
# ------------------------------------------------------------------------------------------------
def judge(w, frame, known):
    """Inject ``frame`` into receiver B of world ``w``; return (outcome tuple, violation records)."""
    st = w.stations["B"]
    st.gn_indications.clear()
    st.btp_indications.clear()
    exc = None
    try:
        w.inject("B", frame)
    except Exception as e:  # noqa: BLE001 - C04's subject; here: "not delivered"
        exc = type(e).__name__
    inds, btps = list(st.gn_indications), list(st.btp_indications)
    if len(frame) >= 4:
        v = CC.classify(frame[4:], TRUST, known)
    else:
        v = CC.Verdict(authentic=False, why="short", certs=[])
    bad = []
    delivered = bool(inds or btps)
    if delivered:
        nh = frame[0] & 0x0F
        if nh != G.BNH_SECURED:
            bad.append(dict(kind="unsecured_delivered", nh=nh))
        elif not v.authentic:
            bad.append(dict(kind="delivered_not_authentic", why=v.why, signer_kind=str(v.signer_kind)))
        else:
            try:
                ref = G.parse(bytes([(frame[0] & 0xF0) | G.BNH_COMMON]) + frame[1:4] + v.payload)
                want = ref["payload"]
            except Exception:  # noqa: BLE001
                want = None
            if want is None:
                bad.append(dict(kind="delivered_unparsable_signed_payload"))
            else:
                for ind in inds:
                    if bytes(ind.data) != want:
                        bad.append(dict(kind="delivered_bytes_not_signed", got_len=len(ind.data), want_len=len(want)))
                for port, bi in btps:
                    if bytes(bi.data) != want[4:] or port != int.from_bytes(want[0:2], "big"):
                        bad.append(dict(kind="btp_bytes_not_signed", port=port))
            if len(inds) > 1:
                bad.append(dict(kind="delivered_more_than_once", n=len(inds)))
    if exc is not None:
        cls = "raised"
    elif delivered:
        cls = "delivered"
    else:
        cls = "rejected"
    return (cls, "authentic" if v.authentic else "forged", v.why if not v.authentic else "ok", exc), bad, v


# ------------------------------------------------------------------------------------------------
# mutation families
# ------------------------------------------------------------------------------------------------
def fam_bitflips(f):
    for i in range(len(f) * 8):
        b = bytearray(f)
        b[i // 8] ^= 0x80 >> (i % 8)
        yield f"bit{i}", bytes(b)


def fam_truncations(f):
    for n in range(len(f)):
        yield f"len{n}", f[:n]


def fam_extensions(f):
    for n in (1, 2, 3, 4):
        for fill in (0x00, 0xFF, f[-1]):
            yield f"ext{n}x{fill:02x}", f + bytes([fill]) * n


def fam_substitutions(f, wide=False):
    for i, b in enumerate(f):
        vals = [0x00, 0xFF, (b + 1) & 0xFF, (b - 1) & 0xFF]
        if wide:
            vals += [0x80, 0x7F, b ^ 0xFF, 0x01]
        seen = {b}
        for v in vals:
            if v not in seen:
                seen.add(v)
                yield f"sub{i}={v:02x}", f[:i] + bytes([v]) + f[i + 1:]


def _enc(d):
    try:
        return CC.enc_data(d)
    except Exception:  # noqa: BLE001
        return None


def fam_fields(f, others):
    """Field-level mutations of the decoded structure, re-encoded WITHOUT re-signing."""
    p = S.pki()
    base = CC.dec_data(f[4:])
    out = []

    def m(label, fn):
        d = copy.deepcopy(base)
        try:
            fn(d, d["content"][1], d["content"][1]["tbsData"], d["content"][1]["tbsData"]["headerInfo"])
        except (KeyError, IndexError):
            return
        e = _enc(d)
        if e is not None:
            out.append((label, f[:4] + e))
        else:
            out.append((label + "!unencodable", None))

    def setp(path, val):
        def fn(d, sd, tbs, hi):
            o = {"d": d, "sd": sd, "tbs": tbs, "hi": hi}[path[0]]
            for k in path[1:-1]:
                o = o[k]
            if val is _DEL:
                del o[path[-1]]
            else:
                o[path[-1]] = val
        return fn

    pl = base["content"][1]["tbsData"]["payload"]["data"]["content"][1]
    hi0 = base["content"][1]["tbsData"]["headerInfo"]
    sd0 = base["content"][1]

    def payload(x):
        return setp(("tbs", "payload", "data", "content"), ("unsecuredData", x))
    # payload
    for lab, x in (("flip0", bytes([pl[0] ^ 1]) + pl[1:]), ("fliplast", pl[:-1] + bytes([pl[-1] ^ 0x80])), ("append", pl + b"\0"),
                   ("droplast", pl[:-1]), ("empty", b"")):
        m("payload." + lab, payload(x))
    if len(pl) > 41:
        m("payload.flipmid", payload(pl[:40] + bytes([pl[40] ^ 0x10]) + pl[41:]))
    for on, of in others.items():
        opl = CC.dec_data(of[4:])["content"][1]["tbsData"]["payload"]["data"]["content"][1]
        m("payload.splice:" + on, payload(opl))
    m("payload.inner_version2", setp(("tbs", "payload", "data", "protocolVersion"), 2))
    m("payload.inner_version4", setp(("tbs", "payload", "data", "protocolVersion"), 4))
    m("payload.add_extDataHash", setp(("tbs", "payload", "extDataHash"), ("sha256HashedData", bytes(32))))
    # header info
    for v in (0, 36, 37, 38, 638, 139, 140, 2 ** 31):
        if v != hi0.get("psid"):
            m(f"psid={v}", setp(("hi", "psid"), v))
    gt = hi0["generationTime"]
    for lab, v in (("+1", gt + 1), ("-1", gt - 1), ("0", 0), ("max", 2 ** 64 - 1), ("+1s", gt + 10 ** 6), ("removed", _DEL)):
        m("generationTime" + lab, setp(("hi", "generationTime"), v))
    loc = {"latitude": 410000000, "longitude": 20000000, "elevation": 0xF000}
    if "generationLocation" in hi0:
        m("generationLocation.removed", setp(("hi", "generationLocation"), _DEL))
        m("generationLocation.lat+1", setp(("hi", "generationLocation", "latitude"), hi0["generationLocation"]["latitude"] + 1))
        m("generationLocation.elev", setp(("hi", "generationLocation", "elevation"), 0))
    else:
        m("generationLocation.added", setp(("hi", "generationLocation"), loc))
    m("expiryTime.added", setp(("hi", "expiryTime"), gt + 10 ** 9))
    m("p2pcdLearningRequest.added", setp(("hi", "p2pcdLearningRequest"), b"\x01\x02\x03"))
    m("missingCrlIdentifier.added", setp(("hi", "missingCrlIdentifier"), {"cracaId": b"\0\0\0", "crlSeries": 0}))
    m("inlineP2pcdRequest.set", setp(("hi", "inlineP2pcdRequest"), [p.h8("AT2")[-3:], p.h8("AA")[-3:]]))
    m("requestedCertificate.AA'", setp(("hi", "requestedCertificate"), p.d("AA'")))
    m("requestedCertificate.AA_self", setp(("hi", "requestedCertificate"), p.d("AA_self")))
    m("requestedCertificate.AA_selfR", setp(("hi", "requestedCertificate"), p.d("AA_selfR")))
    # signer
    for n in ("AT1", "AT2", "AT3", "AT'", "AA", "R", "AT_resigned"):
        if sd0["signer"] != ("digest", p.h8(n)):
            m("signer.digest:" + n, setp(("sd", "signer"), ("digest", p.h8(n))))
    m("signer.digest:zeros", setp(("sd", "signer"), ("digest", bytes(8))))
    for n in ("AT1", "AT2", "AT3", "AT'", "AT_resigned", "AT_claimAA", "AT_selfclaim", "AT_self", "AT_aaself", "AT_esc", "AT_root",
              "AA", "R", "AA'", "R'", "AT_selfR", "AA_selfR", "AT_u_selfR"):
        if sd0["signer"][0] != "certificate" or CC.h8(sd0["signer"][1][0]) != p.h8(n):
            m("signer.cert:" + n, setp(("sd", "signer"), ("certificate", [p.d(n)])))
    m("signer.cert:[]", setp(("sd", "signer"), ("certificate", [])))
    m("signer.cert:[AT1,AA]", setp(("sd", "signer"), ("certificate", [p.d("AT1"), p.d("AA")])))
    m("signer.cert:[AT1,AA,R]", setp(("sd", "signer"), ("certificate", [p.d("AT1"), p.d("AA"), p.d("R")])))
    m("signer.cert:[AT1,AT1]", setp(("sd", "signer"), ("certificate", [p.d("AT1"), p.d("AT1")])))
    m("signer.self", setp(("sd", "signer"), ("self", None)))
    # certificate fields (only when the packet carries the certificate)
    if sd0["signer"][0] == "certificate":
        c0 = sd0["signer"][1][0]

        def cset(label, sub, val):
            def fn(d, sd, tbs, hi):
                sd["signer"] = ("certificate", [copy.deepcopy(c0)])
                o = sd["signer"][1][0]
                for k in sub[:-1]:
                    o = o[k]
                if val is _DEL:
                    del o[sub[-1]]
                else:
                    o[sub[-1]] = val
            m("cert." + label, fn)
        cset("version2", ("version",), 2)
        cset("type_implicit", ("type",), "implicit")
        cset("issuer:AA'", ("issuer",), ("sha256AndDigest", p.h8("AA'")))
        cset("issuer:R", ("issuer",), ("sha256AndDigest", p.h8("R")))
        cset("issuer:zeros", ("issuer",), ("sha256AndDigest", bytes(8)))
        cset("issuer:self", ("issuer",), ("self", "sha256"))
        cset("issuer:sha384", ("issuer",), ("sha384AndDigest", p.h8("AA")))
        cset("id_name", ("toBeSigned", "id"), ("name", "x"))
        cset("cracaId", ("toBeSigned", "cracaId"), b"\0\0\1")
        cset("crlSeries", ("toBeSigned", "crlSeries"), 1)
        cset("validity.start+1", ("toBeSigned", "validityPeriod", "start"), c0["toBeSigned"]["validityPeriod"]["start"] + 1)
        cset("validity.duration", ("toBeSigned", "validityPeriod", "duration"), ("years", 11))
        cset("app.add", ("toBeSigned", "appPermissions"), c0["toBeSigned"]["appPermissions"] + [{"psid": 999}])
        cset("app.remove", ("toBeSigned", "appPermissions"), c0["toBeSigned"]["appPermissions"][1:])
        cset("app.ssp", ("toBeSigned", "appPermissions"), [{"psid": e["psid"], "ssp": ("opaque", b"\x01")} for e in c0["toBeSigned"]["appPermissions"]])
        cset("assurance.add", ("toBeSigned", "assuranceLevel"), b"\x01")
        cset("issueperm.add", ("toBeSigned", "certIssuePermissions"), [S.perm(("all", None), 1)])
        cset("key:AT'", ("toBeSigned", "verifyKeyIndicator"), p.d("AT'")["toBeSigned"]["verifyKeyIndicator"])
        xy = c0["toBeSigned"]["verifyKeyIndicator"][1][1][1]
        comp = ("compressed-y-%d" % (xy["y"][-1] & 1), xy["x"])
        cset("key:compressed", ("toBeSigned", "verifyKeyIndicator"), ("verificationKey", ("ecdsaNistP256", comp)))
        cset("key:reconstruction", ("toBeSigned", "verifyKeyIndicator"), ("reconstructionValue", comp))
        cset("key:y+1", ("toBeSigned", "verifyKeyIndicator"),
             ("verificationKey", ("ecdsaNistP256", ("uncompressedP256", {"x": xy["x"], "y": xy["y"][:-1] + bytes([xy["y"][-1] ^ 1])}))))
        for lab, sig in _sig_variants(c0["signature"]):
            cset("sig." + lab, ("signature",), sig)
    # message signature / outer
    for lab, sig in _sig_variants(sd0["signature"]):
        m("sig." + lab, setp(("sd", "signature"), sig))
    m("hashId.sha384", setp(("sd", "hashId"), "sha384"))
    m("outer_version2", setp(("d", "protocolVersion"), 2))
    m("outer_version4", setp(("d", "protocolVersion"), 4))
    m("content.unsecured", lambda d, sd, tbs, hi: d.__setitem__("content", ("unsecuredData", pl)))
    return out


_DEL = object()


def _sig_variants(sig):
    r = int.from_bytes(sig[1]["rSig"][1], "big")
    s = int.from_bytes(sig[1]["sSig"], "big")
    n = CC.N

    def mk(rr, ss, choice="x-only", kind="ecdsaNistP256Signature"):
        rb = (rr % 2 ** 256).to_bytes(32, "big")
        rv = rb if choice != "uncompressedP256" else {"x": rb, "y": bytes(32)}
        return (kind, {"rSig": (choice, rv), "sSig": (ss % 2 ** 256).to_bytes(32, "big")})
    yield "r+1", mk(r + 1, s)
    yield "r-1", mk(r - 1, s)
    yield "s+1", mk(r, s + 1)
    yield "s-1", mk(r, s - 1)
    yield "r=0", mk(0, s)
    yield "s=0", mk(r, 0)
    yield "r=n", mk(n, s)
    yield "s=n", mk(r, n)
    yield "r+n", mk(r + n, s)           # same residue, different octets (only if < 2^256)
    yield "s+n", mk(r, s + n)
    yield "s=n-s(twin)", mk(r, n - s)
    yield "r=n-r", mk(n - r, s)
    yield "swap", mk(s, r)
    yield "r:compressed-y-0", mk(r, s, "compressed-y-0")
    yield "r:compressed-y-1", mk(r, s, "compressed-y-1")
    yield "r:uncompressed", mk(r, s, "uncompressedP256")
    yield "alg:brainpool", mk(r, s, kind="ecdsaBrainpoolP256r1Signature")


def fam_attacker(f):
    """Same / new signed content under attacker keys, self-made chains and mis-bound signers."""
    p = S.pki()
    base = CC.dec_data(f[4:])
    tbs = base["content"][1]["tbsData"]
    pl = tbs["payload"]["data"]["content"][1]
    hi = dict(tbs["headerInfo"])
    psid, gt = hi.pop("psid"), hi.pop("generationTime")
    out = []
    evil = pl[:36] + b"\x07\xd1\x00\x00EVIL" if len(pl) >= 36 else b"EVIL"
    for plab, body in (("same", pl), ("evil", evil)):
        def mk(label, signer, keyname):
            out.append((f"{plab}.{label}", f[:4] + S.forge(body, psid, gt, signer, p.sk(keyname), header_extra=hi)))
        mk("digest:AT1/key:AT'", ("digest", p.h8("AT1")), "AT'")
        mk("digest:AT'/key:AT'", ("digest", p.h8("AT'")), "AT'")
        mk("digest:AT1/key:AT2", ("digest", p.h8("AT1")), "AT2")
        mk("cert:AT1/key:AT'", ("certificate", [p.d("AT1")]), "AT'")
        mk("chain:[AT_u_selfR,AA_selfR]/own-key", ("certificate", [p.d("AT_u_selfR"), p.d("AA_selfR")]), "AT_u_selfR")
        mk("chain:[AT_u_selfR,AA_selfR,R]/own-key", ("certificate", [p.d("AT_u_selfR"), p.d("AA_selfR"), p.d("R")]), "AT_u_selfR")
        for n in ("AT'", "AT_claimAA", "AT_selfclaim", "AT_self", "AT_aaself", "AT_esc", "AT_suball", "AT_sub", "AT_aa2", "AT_byat",
                  "AA'", "R'", "AA_self", "AT_selfR", "AA_selfR", "AA_selfAA", "AT_u_selfR", "AT_u_selfAA"):
            mk(f"cert:{n}/own-key", ("certificate", [p.d(n)]), n)
        mk("cert:AT_resigned/key:AT1", ("certificate", [p.d("AT_resigned")]), "AT1")
        mk("cert:AA/key:AA'", ("certificate", [p.d("AA")]), "AA'")
        mk("cert:R/key:R'", ("certificate", [p.d("R")]), "R'")
        # controls: the genuine key (authentic by construction) and a ticket issued by the root itself
        mk("control.cert:AT1/key:AT1", ("certificate", [p.d("AT1")]), "AT1")
        mk("control.digest:AT1/key:AT1", ("digest", p.h8("AT1")), "AT1")
        mk("control.cert:AT_root/own-key", ("certificate", [p.d("AT_root")]), "AT_root")
        # genuine CA keys used to sign a message directly: the signer is not an authorization ticket
        mk("cert:AA/key:AA(genuine CA as signer)", ("certificate", [p.d("AA")]), "AA")
        mk("cert:SUB/key:SUB(CA not known to receiver)", ("certificate", [p.d("SUB")]), "SUB")
        mk("digest:AA/key:AA", ("digest", p.h8("AA")), "AA")
    return out


def fam_chains(f):
    """Signer chains of length 1..3 from {AT1, AT', AA, AA', R, R'} in every order, signed by AT1's and by AT''s key."""
    p = S.pki()
    base = CC.dec_data(f[4:])
    tbs = base["content"][1]["tbsData"]
    pl = tbs["payload"]["data"]["content"][1]
    hi = dict(tbs["headerInfo"])
    psid, gt = hi.pop("psid"), hi.pop("generationTime")
    names = ["AT1", "AT'", "AA", "AA'", "R", "R'"]
    out = []
    for k in (1, 2, 3):
        for seq in itertools.permutations(names, k):
            for key in ("AT1", "AT'"):
                out.append((f"chain[{','.join(seq)}]/key:{key}",
                            f[:4] + S.forge(pl, psid, gt, ("certificate", [p.d(n) for n in seq]), p.sk(key), header_extra=hi)))
    return out


def fam_unsecured(f):
    """The signed GN packet stripped of its security envelope (NH = common header), and with other NH codes."""
    pl = CC.dec_data(f[4:])["content"][1]["tbsData"]["payload"]["data"]["content"][1]
    yield "plain.nh1", bytes([(f[0] & 0xF0) | 1]) + f[1:4] + pl
    yield "plain.nh0", bytes([(f[0] & 0xF0) | 0]) + f[1:4] + pl
    yield "envelope.nh1", bytes([(f[0] & 0xF0) | 1]) + f[1:]
    unsec = CC.enc_data({"protocolVersion": 3, "content": ("unsecuredData", pl)})
    yield "etsi_unsecuredData", f[:4] + unsec


FAMILIES_BYTE = ("bitflip", "truncation", "extension", "substitution")


def mutants(case, tier):
    cap = capture()
    f = cap[case["frame"]]
    fams = case["families"]
    if "bitflip" in fams:
        for lab, x in fam_bitflips(f):
            yield "bitflip", lab, x
    if "truncation" in fams:
        for lab, x in fam_truncations(f):
            yield "truncation", lab, x
    if "extension" in fams:
        for lab, x in fam_extensions(f):
            yield "extension", lab, x
    if "substitution" in fams:
        for lab, x in fam_substitutions(f, wide=(tier == "thorough")):
            yield "substitution", lab, x
    if "field" in fams:
        others = {n: cap[n] for n in ("cam_digest", "denm", "c_cert") if n != case["frame"]}
        for lab, x in fam_fields(f, others):
            yield "field", lab, x
    if "attacker" in fams:
        for lab, x in fam_attacker(f):
            yield "attacker", lab, x
    if "chain" in fams:
        for lab, x in fam_chains(f):
            yield "chain", lab, x
    if "unsecured" in fams:
        for lab, x in fam_unsecured(f):
            yield "unsecured", lab, x
    yield "identity", "genuine", f


ALLF = ("bitflip", "truncation", "extension", "substitution", "field", "attacker", "chain", "unsecured")
STRUCT = ("truncation", "extension", "field", "attacker", "unsecured")

CASES_QUICK = [
    dict(name="cam_cert@fresh", frame="cam_cert", known=(), families=ALLF, expect_delivered=True),
    dict(name="cam_digest@knows", frame="cam_digest", known=("AT1",), families=ALLF, expect_delivered=True),
    dict(name="cam_digest@fresh", frame="cam_digest", known=(), families=STRUCT, expect_delivered=False),
    dict(name="denm@fresh", frame="denm", known=(), families=("bitflip", "truncation", "extension", "field", "attacker", "unsecured"),
         expect_delivered=True),
    dict(name="gen@knows", frame="gen", known=("AT1",), families=STRUCT + ("bitflip",), expect_delivered=True),
    dict(name="cam_empty@fresh", frame="cam_empty", known=(), families=STRUCT, expect_delivered=True),
    dict(name="cam_1@fresh", frame="cam_1", known=(), families=STRUCT, expect_delivered=True),
]
AFTER = ("bitflip", "truncation", "extension", "substitution", "field", "attacker", "unsecured")
# the same families on a receiver that HAS ALREADY ACCEPTED the genuine packet (stateful shortcuts: caches of verified
# signatures / signers / payloads must not let a modified copy through)
CASES_QUICK += [
    dict(name="cam_cert@after_genuine", frame="cam_cert", known=(), prime="cam_cert", families=AFTER, expect_delivered=None),
    dict(name="cam_digest@after_genuine", frame="cam_digest", known=("AT1",), prime="cam_digest", families=AFTER, expect_delivered=None),
    dict(name="gen@after_genuine", frame="gen", known=("AT1",), prime="gen", families=("bitflip", "field", "extension"), expect_delivered=None),
]
CASES_THOROUGH = [
    dict(name="cam_cert@fresh", frame="cam_cert", known=(), families=ALLF, expect_delivered=True),
    dict(name="cam_cert@knows", frame="cam_cert", known=("AT1",), families=ALLF, expect_delivered=True),
    dict(name="cam_digest@knows", frame="cam_digest", known=("AT1",), families=ALLF, expect_delivered=True),
    dict(name="cam_digest@fresh", frame="cam_digest", known=(), families=ALLF, expect_delivered=False),
    dict(name="cam_digest@knows_other", frame="cam_digest", known=("AT3",), families=ALLF, expect_delivered=False),
    dict(name="denm@fresh", frame="denm", known=(), families=ALLF, expect_delivered=True),
    dict(name="denm@knows", frame="denm", known=("AT1",), families=ALLF, expect_delivered=True),
    dict(name="gen@knows", frame="gen", known=("AT1",), families=ALLF, expect_delivered=True),
    dict(name="gen@fresh", frame="gen", known=(), families=ALLF, expect_delivered=False),
    dict(name="vam_cert@fresh", frame="vam_cert", known=(), families=ALLF, expect_delivered=True),
    dict(name="vam_digest@knows", frame="vam_digest", known=("AT1",), families=ALLF, expect_delivered=True),
    dict(name="cam_empty@fresh", frame="cam_empty", known=(), families=ALLF, expect_delivered=True),
    dict(name="cam_1@fresh", frame="cam_1", known=(), families=ALLF, expect_delivered=True),
    dict(name="cam_long@fresh", frame="cam_long", known=(), families=STRUCT + ("chain", "substitution"), expect_delivered=True),
    dict(name="cam_cert@after_genuine", frame="cam_cert", known=(), prime="cam_cert", families=ALLF, expect_delivered=None),
    dict(name="cam_digest@after_genuine", frame="cam_digest", known=("AT1",), prime="cam_digest", families=ALLF, expect_delivered=None),
    dict(name="cam_digest@after_cam_cert", frame="cam_digest", known=(), prime="cam_cert", families=ALLF, expect_delivered=None),
    dict(name="gen@after_genuine", frame="gen", known=("AT1",), prime="gen", families=ALLF, expect_delivered=None),
    dict(name="vam_cert@after_genuine", frame="vam_cert", known=(), prime="vam_cert", families=ALLF, expect_delivered=None),
    dict(name="denm@after_genuine", frame="denm", known=(), prime="denm", families=ALLF, expect_delivered=None),
]

TRUST = None


def _init_worker():
    global TRUST
    TRUST = S.trust()
    capture()


def _chunk_job(args):
    case, items = args
    p = S.pki()
    if TRUST is None:
        _init_worker()
    base = receiver(case["known"])
    known = {p.h8(n): p.d(n) for n in case["known"]}
    memo_share = {id(p.backend): p.backend}
    stats = {}
    out = []
    if case.get("prime"):
        pf = capture()[case["prime"]]
        oc0, bad0, v0 = judge(base, pf, known)
        if oc0[0] != "delivered" or bad0:
            out.append((dict(kind="vacuity_base_case", case=case["name"], outcome=list(oc0)), pf.hex()))
        for c in v0.certs or []:
            if CC.h8(c) is not None:
                known.setdefault(CC.h8(c), c)
    for fam, lab, frame in items:
        if frame is None:
            stats[(fam, "unencodable", "-", "-")] = stats.get((fam, "unencodable", "-", "-"), 0) + 1
            continue
        w = copy.deepcopy(base, dict(memo_share))
        oc, bad, v = judge(w, frame, known)
        key = (fam, oc[0], oc[1], oc[3] or "-")
        stats[key] = stats.get(key, 0) + 1
        if fam == "identity" and case["expect_delivered"] is not None and (oc[0] == "delivered") != case["expect_delivered"]:
            out.append((dict(kind="vacuity_base_case", case=case["name"], outcome=list(oc)), frame.hex()))
        for rec in bad:
            rec.update(case=case["name"], family=fam, mutation=lab)
            out.append((rec, frame.hex()))
    return case["name"], stats, out, len(items)


# ------------------------------------------------------------------------------------------------
# part 2: arrival orders (E1)
# ------------------------------------------------------------------------------------------------
_MENU = None


def menu():
    global _MENU
    if _MENU is not None:
        return _MENU
    p = S.pki()
    cap = capture()
    cam = CC.dec_data(cap["cam_cert"][4:])["content"][1]["tbsData"]
    pl = cam["payload"]["data"]["content"][1]
    gt = cam["headerInfo"]["generationTime"]
    bh = cap["cam_cert"][:4]
    evil = pl[:36] + b"\x07\xd1\x00\x00EVIL"
    flip = bytearray(cap["cam_cert"])
    flip[-70] ^= 0x01       # inside the signed payload / signature area: certificate stays intact
    m = {
        "g_cert": cap["cam_cert"], "g_digest": cap["cam_digest"], "g_denm": cap["denm"], "g_gen": cap["gen"],
        "c_digest": cap["c_digest"],
        "f_digest": bh + S.forge(evil, 36, gt, ("digest", p.h8("AT1")), p.sk("AT'")),
        "f_chain": bh + S.forge(evil, 36, gt, ("certificate", [p.d("AT'")]), p.sk("AT'")),
        "f_claim": bh + S.forge(evil, 36, gt, ("certificate", [p.d("AT_claimAA")]), p.sk("AT_claimAA")),
        "f_resign": bh + S.forge(evil, 36, gt, ("certificate", [p.d("AT_resigned")]), p.sk("AT1")),
        "f_teach": bh + S.forge(evil, 36, gt, ("certificate", [p.d("AT1")]), p.sk("AT'")),
        "t_flip": bytes(flip),
        "unsec": bytes([(bh[0] & 0xF0) | 1]) + bh[1:4] + pl,
        "i_reqAA'": bh + S.forge(pl, 36, gt + 1000, ("certificate", [p.d("AT1")]), p.sk("AT1"),
                                 header_extra={"requestedCertificate": p.d("AA'"), "inlineP2pcdRequest": [p.h8("AA")[-3:], p.h8("AT2")[-3:]]}),
        "i_reqAAself": bh + S.forge(pl, 36, gt + 2000, ("certificate", [p.d("AT1")]), p.sk("AT1"),
                                    header_extra={"requestedCertificate": p.d("AA_self")}),
        "f_aaself": bh + S.forge(evil, 36, gt, ("certificate", [p.d("AT_aaself")]), p.sk("AT_aaself")),
        # insider messages carrying a rogue CA that is signed with its own key but NAMES the trusted root / AA as issuer,
        # and packets signed under tickets issued by those rogue CAs
        "i_reqAAselfR": bh + S.forge(pl, 36, gt + 3000, ("certificate", [p.d("AT1")]), p.sk("AT1"),
                                     header_extra={"requestedCertificate": p.d("AA_selfR")}),
        "i_reqAAselfAA": bh + S.forge(pl, 36, gt + 4000, ("certificate", [p.d("AT1")]), p.sk("AT1"),
                                      header_extra={"requestedCertificate": p.d("AA_selfAA"), "inlineP2pcdRequest": [p.h8("AA_selfAA")[-3:]]}),
        "f_u_selfR": bh + S.forge(evil, 36, gt, ("certificate", [p.d("AT_u_selfR")]), p.sk("AT_u_selfR")),
        "f_u_selfAA": bh + S.forge(evil, 36, gt, ("certificate", [p.d("AT_u_selfAA")]), p.sk("AT_u_selfAA")),
        "c_cert": cap["c_cert"],
    }
    # "replay with modification": signer and signature octets of a genuine frame kept, signed content / signer form changed
    def variants(name):
        f = cap[name]
        d0 = CC.dec_data(f[4:])

        def mk(label, fn):
            d = copy.deepcopy(d0)
            sd = d["content"][1]
            fn(sd, sd["tbsData"], sd["tbsData"]["headerInfo"])
            m[f"{name}~{label}"] = f[:4] + CC.enc_data(d)
        pl0 = d0["content"][1]["tbsData"]["payload"]["data"]["content"][1]
        mk("bit", lambda sd, tbs, hi: tbs["payload"]["data"].__setitem__("content", ("unsecuredData", pl0[:-1] + bytes([pl0[-1] ^ 1]))))
        mk("payload", lambda sd, tbs, hi: tbs["payload"]["data"].__setitem__("content", ("unsecuredData", pl0[:36] + b"\x07\xd1\x00\x00REWRITTEN")))
        mk("gentime", lambda sd, tbs, hi: hi.__setitem__("generationTime", hi["generationTime"] + 1000))
        mk("psid", lambda sd, tbs, hi: hi.__setitem__("psid", 140 if hi["psid"] != 140 else 139))
        if d0["content"][1]["signer"][0] == "certificate":
            mk("as_digest", lambda sd, tbs, hi: sd.__setitem__("signer", ("digest", CC.h8(sd["signer"][1][0]))))
        else:
            mk("as_cert", lambda sd, tbs, hi: sd.__setitem__("signer", ("certificate", [p.d("AT1")])))
    for gname in ("cam_cert", "cam_digest", "denm", "gen"):
        variants(gname)
    _MENU = m
    return m


VARIANTS = [f"{g}~{v}" for g in ("cam_cert", "cam_digest", "denm", "gen") for v in ("bit", "payload", "gentime", "psid")] + \
           ["cam_cert~as_digest", "cam_digest~as_cert", "denm~as_digest", "gen~as_cert"]


class HistModel:
    """Receiver B {R, AA}; each event injects one pre-built frame; oracle with history-tracked 'presented' tickets."""

    def __init__(self, names):
        self.names = list(names)

    def init(self):
        global TRUST
        if TRUST is None:
            _init_worker()
        w = receiver(())
        w.presented = {}
        w.bad = []
        w.last = None
        return w

    def share(self, w):
        return [S.pki().backend]

    def enabled(self, w):
        return self.names

    def apply(self, w, ev):
        frame = menu()[ev]
        oc, bad, v = judge(w, frame, dict(w.presented))
        for c in v.certs or []:
            k = CC.h8(c)
            if k is not None:
                w.presented.setdefault(k, c)
        for rec in bad:
            rec["event"] = ev
        # trust-store closure (cheap; C09 explores it in depth)
        lib = w.stations["B"].stack.lib
        pool = list(w.presented.values())
        for dname in ("known_authorization_tickets", "known_authorization_authorities"):
            for k, c in getattr(lib, dname).items():
                if TRUST.chain(c.certificate, pool) is None:
                    bad.append(dict(kind="store_polluted", store=dname, event=ev))
        for k in lib.known_root_certificates:
            if k not in TRUST.roots:
                bad.append(dict(kind="store_polluted", store="known_root_certificates", event=ev))
        w.bad = bad
        w.last = oc
        return oc

    def check(self, w, ev, obs, hist):
        if isinstance(obs, tuple) and obs and obs[0] == "EXC":
            return [dict(kind="harness_exception", event=ev, exc=obs[1] + ":" + obs[2])]
        return w.bad

    def canon(self, w):
        st = w.stations["B"]
        lib, ss = st.stack.lib, st.stack.sign
        return (tuple(sorted(lib.known_authorization_tickets)), tuple(sorted(lib.known_authorization_authorities)),
                tuple(sorted(lib.known_root_certificates)), tuple(ss.unknown_ats), tuple(ss.requested_ats),
                ss.cam_handler.requested_own_certificate, tuple(sorted(w.presented)),
                X.generic_canon(st.gn.location_table))

    def outcome(self, w, obs):
        return obs


def _mk_hist(names):
    return HistModel(names)


from mc.worlds import stations as _ST  # noqa: E402
X.SKIP_TYPES = (_ST.EtherLL, _ST.Net, _ST.Station, _ST._PortHandler, S.Stack)


def run(ctx):
    thorough = ctx.tier == "thorough"
    global TRUST
    _init_worker()
    rnd = random.Random(ctx.seed)
    cases = CASES_THOROUGH if thorough else CASES_QUICK
    jobs = []
    for case in cases:
        items = list(mutants(case, ctx.tier))
        rnd.shuffle(items)                      # VERIF_SEED only permutes the order
        for i in range(0, len(items), 120):
            jobs.append((case, items[i:i + 120]))
    rnd.shuffle(jobs)
    stats = {}
    total = 0
    with mp.Pool(16, initializer=_init_worker) as pool:
        for name, st, out, n in pool.imap_unordered(_chunk_job, jobs):
            total += n
            d = stats.setdefault(name, {})
            for k, v in st.items():
                d[k] = d.get(k, 0) + v
            for rec, hexframe in out:
                if rec["kind"] == "vacuity_base_case":
                    raise RuntimeError(f"base case not as expected (check would be vacuous): {rec}")
                ctx.violation(rec, replay=dict(part="family", case=rec["case"], frame=hexframe))
    agg = {"delivered_authentic": 0, "rejected_authentic": 0, "rejected_forged": 0, "raised_authentic": 0, "raised_forged": 0,
           "delivered_forged": 0, "unencodable": 0}
    raised_types = {}
    for name, d in sorted(stats.items()):
        per = {}
        for (fam, cls, auth, exc), n in sorted(d.items()):
            k = cls if cls == "unencodable" else f"{cls}_{auth}"
            agg[k] = agg.get(k, 0) + n
            per.setdefault(fam, {}).setdefault(k, 0)
            per[fam][k] += n
            if exc != "-":
                raised_types[exc] = raised_types.get(exc, 0) + n
        ctx.parts["family:" + name] = per

    # ---- part 2: arrival orders ------------------------------------------------------------------
    names_q = ["g_cert", "g_digest", "g_denm", "g_gen", "c_digest", "f_digest", "f_chain", "f_claim", "f_resign", "f_teach",
               "t_flip", "unsec", "i_reqAA'", "i_reqAAself", "f_aaself", "i_reqAAselfR", "i_reqAAselfAA", "f_u_selfR", "f_u_selfAA"]
    names = names_q + VARIANTS + (["c_cert"] if thorough else [])
    order = list(names)
    rnd.shuffle(order)
    depth = 5 if thorough else 4      # 40 events: depth 6 no longer fits the 20 min budget on a loaded machine
    r = X.parallel_bfs(_mk_hist, (order,), depth, split_depth=1, xcheck_every=53)
    for rec, hist in r.violations:
        ctx.violation(rec, replay=dict(part="history", history=hist))
    ctx.parts["arrival_orders"] = dict(states=r.states, transitions=r.transitions, max_depth=r.max_depth, alphabet=len(names),
                                       graph_closed=r.complete, cap=r.cap_hit, xchecks=r.xchecks,
                                       outcomes=sorted({json.dumps(list(o)) for o in r.outcomes}))
    ctx.coverage.update(
        states=r.states, transitions=r.transitions + total, traces_validated_against_impl=r.transitions + total,
        evaluations=total, mutation_outcomes=agg, raised_exception_types=raised_types,
        replay_crosschecks=r.xchecks, state_digest=r.digest(), exhaustive=True, bfs_depth=depth,
        distinct_outcomes=len(r.outcomes),
        samples=[dict(case="cam_cert@fresh", mutation="bit1000"), dict(case="cam_digest@knows", mutation="sig.s=n-s(twin)"),
                 dict(history=["f_teach", "f_digest", "g_digest"])] + [dict(history=s) for s in r.samples[:2]],
        explanation=("every mutant of the declared families is injected into the real geonet.Router (security ENABLED) of a fresh "
                     "receiver copy; BFS states are canonical digests of the real trust store, P2PCD state and location table; "
                     "oracle mc/ref/chain_check.py; exhaustive over the declared families and to the stated BFS depth"),
    )
    ctx.assumptions += ["asn1tools OER codec and python-ecdsa primitives are trusted (oracle decodes/verifies with them directly)",
                        "a packet that decodes to the same signed content, signer and a verifying signature is authentic "
                        "(non-canonical encodings, trailing octets, (r, n-s) twin, unsigned envelope fields such as hashId)",
                        "exceptions escaping the receive path count as 'not delivered' (C04 judges them)"]


def replay(path):
    rec = json.load(open(path))
    print(json.dumps(rec["violation"], indent=1))
    rp = rec["replay"]
    _init_worker()
    p = S.pki()
    if rp.get("part") == "history":
        m = HistModel(list(menu()))
        w = m.init()
        bad = []
        for ev in rp["history"]:
            oc = m.apply(w, ev)
            print(ev, "->", oc, w.bad or "ok")
            bad += w.bad
        return 1 if bad else 0
    case = next(c for c in CASES_THOROUGH + CASES_QUICK if c["name"] == rp["case"])
    w = receiver(case["known"])
    known = {p.h8(n): p.d(n) for n in case["known"]}
    if case.get("prime"):
        oc0, _b, v0 = judge(w, capture()[case["prime"]], known)
        print("primed with genuine", case["prime"], "->", oc0)
        for c in v0.certs or []:
            known.setdefault(CC.h8(c), c)
    oc, bad, v = judge(w, bytes.fromhex(rp["frame"]), known)
    print("outcome", oc, "oracle:", v.why, "->", bad or "ok")
    return 1 if bad else 0
