"""C02 - emitted packets and header codecs conform to the ETSI wire formats (E3, finite lattice)."""
from __future__ import annotations

import multiprocessing as mp

from mc import env  # noqa: F401
from mc.ref import gn_codec as G
from mc.ref import lifetime as RL
from mc.worlds import stations as S
from mc.worlds.stations import Net

from flexstack.geonet.basic_header import BasicHeader
from flexstack.geonet.common_header import CommonHeader
from flexstack.geonet.gn_address import GNAddress, M, ST, MID
from flexstack.geonet.position_vector import LongPositionVector, ShortPositionVector, TST
from flexstack.geonet.gbc_extended_header import GBCExtendedHeader
from flexstack.geonet.tsb_extended_header import TSBExtendedHeader
from flexstack.geonet.guc_extended_header import GUCExtendedHeader
from flexstack.geonet.ls_extended_header import LSRequestExtendedHeader, LSReplyExtendedHeader
from flexstack.geonet.service_access_point import TrafficClass, HeaderSubType
from flexstack.geonet.mib import GnIsMobile
from flexstack.btp.btp_header import BTPAHeader, BTPBHeader
from flexstack.btp.service_access_point import BTPDataRequest

LEVEL = "exploration"


def patterns(w, signed=False):
    """Bit-pattern classes of a w-bit field (DESIGN 2.4)."""
    full = (1 << w) - 1
    vals = {0, full, 1}
    for k in range(w):
        vals |= {1 << k, (1 << k) - 1, ((1 << k) + 1) & full, full ^ (1 << k)}
    vals = sorted(v & full for v in vals)
    if signed:
        return sorted({v - (1 << w) if v >> (w - 1) else v for v in vals})
    return vals


def enumval(x):
    return x.value if hasattr(x, "value") else x


def _try(fn, *a):
    try:
        return fn(*a), None
    except Exception as e:  # noqa: BLE001
        return None, f"{type(e).__name__}: {str(e)[:80]}"


# ------------------------------------------------------------------------------------------------
# part A: decoders.  job = (name, list of cases) ; each returns (n, [violation records])
# ------------------------------------------------------------------------------------------------
def dec_basic(_):
    bad, n = [], 0
    for ver in range(16):
        for nh in (0, 1, 2):
            for lt, rhl in [(0, 0), (255, 255)] + [(x, 0x55) for x in range(256)] + [(0xAA, x) for x in range(256)]:
                raw = G.basic_encode(ver, nh, 0, lt, rhl)
                n += 1
                bh, err = _try(BasicHeader.decode_from_bytes, raw)
                if err:
                    bad.append(dict(kind="decode_exception", header="basic", field="*", value=raw.hex(), exc=err))
                    continue
                got = (bh.version, enumval(bh.nh), bh.reserved, bh.lt.encode_to_int(), bh.rhl, bh.lt.get_value_in_millis())
                exp = (ver, nh, 0, lt, rhl, G.lt_decode(lt))
                if got != exp:
                    bad.append(dict(kind="decode_value", header="basic", value=raw.hex(), got=list(got), expected=list(exp)))
    return n, bad, n


HT_HST = [(0, 0), (1, 0), (2, 0), (3, 0), (3, 1), (3, 2), (4, 0), (4, 1), (4, 2), (5, 0), (5, 1), (6, 0), (6, 1)]


def dec_common(part):
    bad, n = [], 0

    def one(nh, ht, hst, tc, mob, pl, mhl, field):
        nonlocal n
        raw = G.common_encode(nh, ht, hst, tc, mob, pl, mhl)
        n += 1
        ch, err = _try(CommonHeader.decode_from_bytes, raw)
        if err:
            bad.append(dict(kind="decode_exception", header="common", field=field, value=raw.hex(), exc=err))
            return
        got = (enumval(ch.nh), enumval(ch.ht), enumval(ch.hst), ch.tc.encode_to_int(), int(ch.tc.scf), int(ch.tc.channel_offload),
               ch.tc.tc_id, ch.flags, ch.pl, ch.mhl)
        exp = (nh, ht, hst, tc, tc >> 7, (tc >> 6) & 1, tc & 0x3F, mob << 7, pl, mhl)
        if got != exp:
            bad.append(dict(kind="decode_value", header="common", field=field, value=raw.hex(), got=list(got), expected=list(exp)))
        back, err = _try(ch.encode_to_bytes)
        if err or back != raw:
            bad.append(dict(kind="reencode", header="common", field=field, value=raw.hex(), got=back.hex() if back else err))

    if part == "small":
        for nh in range(4):
            for ht, hst in HT_HST:
                for tc in range(256):
                    for mob in (0, 1):
                        one(nh, ht, hst, tc, mob, 0, 0, "nh/ht/hst/tc/flags")
                        one(nh, ht, hst, tc, mob, 0xFFFF, 0xFF, "nh/ht/hst/tc/flags")
        for mhl in range(256):
            for ht, hst in HT_HST:
                one(1, ht, hst, 0, 0, 0, mhl, "mhl")
                one(2, ht, hst, 0xFF, 1, 0xFFFF, mhl, "mhl")
    else:
        lo, hi = part
        for pl in range(lo, hi):
            one(0, 4, 0, 0, 0, pl, 0, "pl")
            one(2, 5, 1, 0xFF, 1, pl, 0xFF, "pl")
    return n, bad, n


def dec_addr(_):
    bad, n = [], 0
    mids = [bytes(6), b"\xff" * 6] + [(1 << k).to_bytes(6, "big") for k in range(48)] + [(((1 << 48) - 1) ^ (1 << k)).to_bytes(6, "big") for k in range(48)]
    for m in (0, 1):
        for st in range(32):
            for mid in mids:
                raw = G.addr_encode(m, st, mid)
                n += 1
                a, err = _try(GNAddress.decode, raw)
                if err:
                    bad.append(dict(kind="decode_exception", header="gn_addr", field="st", st=st, exc=err))
                    continue
                got = (enumval(a.m), enumval(a.st), a.mid.mid)
                if got != (m, st, mid):
                    bad.append(dict(kind="decode_value", header="gn_addr", st=st, got=repr(got), expected=repr((m, st, mid))))
                back, err = _try(a.encode)
                if err or back != raw:
                    bad.append(dict(kind="reencode", header="gn_addr", st=st, value=raw.hex(), got=back.hex() if back else err))
    return n, bad, n


ADDR0 = G.addr_encode(0, 5, b"\x00\x11\x22\x33\x44\x55")


def _pv_cases():
    p32s = patterns(32, signed=True)
    lat_dom = [v for v in p32s if -900000000 <= v <= 900000000] + [900000000, -900000000, 899999999, -899999999]
    lon_dom = [v for v in p32s if -1800000000 <= v <= 1800000000] + [1800000000, -1800000000, 1799999999, -1799999999]
    cases = []
    for tst in patterns(32):
        cases.append(("tst", dict(tst=tst)))
        cases.append(("tst", dict(tst=tst, lat=-1, lon=-1, pai=1, s=-1, h=0xFFFF)))
    for lat in lat_dom:
        cases.append(("lat", dict(lat=lat)))
        cases.append(("lat", dict(lat=lat, tst=0xFFFFFFFF, lon=-1, pai=1, s=-1, h=0xFFFF)))
    for lon in lon_dom:
        cases.append(("lon", dict(lon=lon)))
        cases.append(("lon", dict(lon=lon, tst=0xFFFFFFFF, lat=-1, pai=1, s=-1, h=0xFFFF)))
    for s in range(-16384, 16384):
        cases.append(("s", dict(s=s, pai=0)))
        cases.append(("s", dict(s=s, pai=1, tst=0xFFFFFFFF, lat=-1, lon=-1, h=0xFFFF)))
    for h in range(65536):
        cases.append(("h", dict(h=h)))
        cases.append(("h", dict(h=h, pai=1, s=-1, tst=0xFFFFFFFF, lat=-1, lon=-1)))
    return cases


def dec_lpv(part):
    cases = _pv_cases()
    lo, hi = part
    bad, n = [], 0
    for field, c in cases[lo:hi]:
        d = dict(tst=0, lat=0, lon=0, pai=0, s=0, h=0)
        d.update(c)
        raw = G.lpv_encode(ADDR0, **d)
        n += 1
        pv, err = _try(LongPositionVector.decode, raw)
        if err:
            bad.append(dict(kind="decode_exception", header="lpv", field=field, exc=err))
            continue
        got = dict(tst=pv.tst.msec, lat=pv.latitude, lon=pv.longitude, pai=int(pv.pai), s=pv.s, h=pv.h)
        if got != d or pv.gn_addr.encode() != ADDR0:
            wrong = sorted(k for k in d if got[k] != d[k])
            sign = {k: ("negative" if d[k] < 0 else "nonneg") for k in wrong}
            bad.append(dict(kind="decode_value", header="lpv", field=field, wrong=wrong, sign=sign.get(field, "other"), got=got, expected=d))
            continue
        back, err = _try(pv.encode)
        if err or back != raw:
            bad.append(dict(kind="reencode", header="lpv", field=field, expected=raw.hex(), got=back.hex() if back else err))
        # short position vector shares tst/lat/lon
        if field in ("tst", "lat", "lon"):
            raw2 = G.spv_encode(ADDR0, d["tst"], d["lat"], d["lon"])
            n += 1
            sp, err = _try(ShortPositionVector.decode, raw2)
            if err:
                bad.append(dict(kind="decode_exception", header="spv", field=field, exc=err))
            else:
                g2 = (sp.tst.msec, sp.latitude, sp.longitude)
                if g2 != (d["tst"], d["lat"], d["lon"]):
                    bad.append(dict(kind="decode_value", header="spv", field=field, sign="negative" if d[field] < 0 else "nonneg",
                                    got=list(g2), expected=[d["tst"], d["lat"], d["lon"]]))
                else:
                    back, err = _try(sp.encode)
                    if err or back != raw2:
                        bad.append(dict(kind="reencode", header="spv", field=field, expected=raw2.hex(), got=back.hex() if back else err))
    return n, bad, n


def enc_objects(_):
    """Encoders driven with field values (objects built through the public constructors)."""
    bad, n = [], 0
    a = GNAddress(m=M.GN_UNICAST, st=ST.PASSENGER_CAR, mid=MID(b"\x00\x11\x22\x33\x44\x55"))
    for field, c in _pv_cases():
        if field in ("s", "h") and (c.get(field, 0) % 97) and c.get(field) not in (0, 1, -1, 16383, -16384, 65535, 3599, 3600):
            continue
        d = dict(tst=0, lat=0, lon=0, pai=0, s=0, h=0)
        d.update(c)
        n += 1
        exp = G.lpv_encode(ADDR0, **d)
        pv = LongPositionVector(gn_addr=a, tst=TST(msec=d["tst"]), latitude=d["lat"], longitude=d["lon"], pai=bool(d["pai"]), s=d["s"], h=d["h"])
        got, err = _try(pv.encode)
        if err or got != exp:
            neg = [k for k in ("lat", "lon", "s") if d[k] < 0]
            bad.append(dict(kind="encode_exception" if err else "encode_value", header="lpv", field=field, negative_fields=neg,
                            sign="negative" if neg else "nonneg", exc=err, expected=exp.hex(), got=got.hex() if got else None))
        if field in ("tst", "lat", "lon"):
            n += 1
            exp2 = G.spv_encode(ADDR0, d["tst"], d["lat"], d["lon"])
            sp = ShortPositionVector(gn_addr=a, tst=TST(msec=d["tst"]), latitude=d["lat"], longitude=d["lon"])
            got, err = _try(sp.encode)
            if err or got != exp2:
                neg = [k for k in ("lat", "lon") if d[k] < 0]
                bad.append(dict(kind="encode_exception" if err else "encode_value", header="spv", field=field, negative_fields=neg,
                                sign="negative" if neg else "nonneg", exc=err))
            # GBC area position
            n += 1
            g = GBCExtendedHeader(sn=0xBEEF, so_pv=LongPositionVector(gn_addr=a), latitude=d["lat"], longitude=d["lon"], a=1, b=2, angle=3)
            exp3 = G.ext_gbc(0xBEEF, G.lpv_encode(ADDR0), d["lat"], d["lon"], 1, 2, 3)
            got, err = _try(g.encode)
            if err or got != exp3:
                neg = [k for k in ("lat", "lon") if d[k] < 0]
                bad.append(dict(kind="encode_exception" if err else "encode_value", header="gbc", field=field, negative_fields=neg,
                                sign="negative" if neg else "nonneg", exc=err))
            else:
                back, err = _try(GBCExtendedHeader.decode, exp3)
                if err or (back.latitude, back.longitude) != (d["lat"], d["lon"]):
                    bad.append(dict(kind="decode_value", header="gbc", field=field, sign="negative" if (d["lat"] < 0 or d["lon"] < 0) else "nonneg"))
    return n, bad, n


def dec_ext(_):
    """Extended headers: SN all 65536, area a/b/angle all 16-bit values, BTP ports all 65536."""
    bad, n = [], 0
    so = G.lpv_encode(ADDR0, 123456, 410000000, 20000000, 1, 100, 900)
    de = G.spv_encode(G.addr_encode(0, 6, b"\xaa" * 6), 99, -5, 7)
    req = G.addr_encode(1, 12, b"\xbb" * 6)
    for v in range(65536):
        w = 0xFFFF ^ v
        n += 6
        raw = G.ext_gbc(v, so, 410000000, 20000000, w, v, w)
        g, err = _try(GBCExtendedHeader.decode, raw)
        if err or (g.sn, g.a, g.b, g.angle, g.reserved, g.reserved2) != (v, w, v, w, 0, 0) or g.encode() != raw:
            bad.append(dict(kind="decode_value", header="gbc", field="sn/a/b/angle", value=v, exc=err))
        raw = G.ext_tsb(v, so)
        t, err = _try(TSBExtendedHeader.decode, raw)
        if err or t.sn != v or t.reserved != 0 or t.encode() != raw:
            bad.append(dict(kind="decode_value", header="tsb", field="sn", value=v, exc=err))
        raw = G.ext_guc(v, so, de)
        u, err = _try(GUCExtendedHeader.decode, raw)
        if err or u.sn != v or u.encode() != raw or (u.de_pv.tst.msec, u.de_pv.latitude, u.de_pv.longitude) != (99, -5, 7):
            bad.append(dict(kind="decode_value", header="guc", field="sn/de_pv", value=v, exc=err,
                            sign="negative"))
        raw = G.ext_ls_request(v, so, req)
        q, err = _try(LSRequestExtendedHeader.decode, raw)
        if err or q.sn != v or q.encode() != raw or q.request_gn_addr.encode() != req:
            bad.append(dict(kind="decode_value", header="ls_request", field="sn", value=v, exc=err))
        raw = G.btp_encode(v, w)
        ba, err = _try(BTPAHeader.decode, raw)
        if err or (ba.destination_port, ba.source_port) != (v, w) or ba.encode() != raw:
            bad.append(dict(kind="decode_value", header="btp_a", value=v, exc=err))
        bb, err = _try(BTPBHeader.decode, raw)
        if err or (bb.destination_port, bb.destination_port_info) != (v, w) or bb.encode() != raw:
            bad.append(dict(kind="decode_value", header="btp_b", value=v, exc=err))
    return n, bad, n


# ------------------------------------------------------------------------------------------------
# part C: really emitted packets
# ------------------------------------------------------------------------------------------------
MIDA, MIDB, MIDC = b"\x00\x00\x00\x00\x00\x0a", b"\x00\x00\x00\x00\x00\x0b", b"\x00\x00\x00\x00\x00\x0c"


def ego_lpv_ref(st):
    pv = st.gn.ego_position_vector
    return G.lpv_encode(G.addr_encode(enumval(pv.gn_addr.m), enumval(pv.gn_addr.st), pv.gn_addr.mid.mid), pv.tst.msec, pv.latitude,
                        pv.longitude, int(pv.pai), pv.s, pv.h)


def emit_job(args):
    mobile, dhl, dlt, tcv, btp, pos, seqs = args
    bad, n = [], 0
    distinct = set()
    lat, lon, speed, track = pos
    for sn_pre in seqs:
        net = Net()
        mk = dict(itsGnIsMobile=GnIsMobile(mobile), itsGnDefaultHopLimit=dhl, itsGnDefaultPacketLifetime=dlt,
                  itsGnAreaForwardingAlgorithm=S.AreaForwardingAlgorithm.SIMPLE)
        try:
            a = net.add("A", MIDA, lat=lat, lon=lon, mib_kw=mk, ports=(2001,), refresh=False)
            b = net.add("B", MIDB, lat=lat, lon=lon, mib_kw=mk, ports=(2001,), refresh=False)
            net.connect_all()
            net.call(a.refresh, lat, lon, speed, track)
            # B a little closer to the equator (so greedy unicast forwarding has progress towards it)
            net.call(b.refresh, lat - 0.0002 if lat > 0 else lat + 0.0002, lon, speed, track)
        except Exception as e:  # noqa: BLE001
            n += 1
            bad.append(dict(kind="refresh_exception", pos=list(pos), sign="negative" if (lat < 0 or lon < 0) else "nonneg", exc=repr(e)[:120]))
            continue
        # B becomes a neighbour of A first (otherwise store-carry-forward traffic classes are parked, not sent)
        try:
            net.call(b.gn.gn_data_request_beacon)
            net.quiesce()
        except Exception as e:  # noqa: BLE001
            n += 1
            bad.append(dict(kind="emit_exception", packet="beacon", pos=list(pos), sign="negative" if (lat < 0 or lon < 0) else "nonneg",
                            exc=f"{type(e).__name__}: {str(e)[:80]}"))
            continue
        net.sent.clear()
        # bring the real counter to sn_pre through the public method only (its internal representation is not our business)
        last_sn = None
        for _ in range(sn_pre):
            last_sn = a.gn.get_sequence_number()
        tc = TrafficClass.decode_from_int(tcv)
        nh = S.CommonNH.BTP_A if btp == "A" else S.CommonNH.BTP_B
        port, second = 2001, 0x1234
        data = bytes(range(7))
        lat_i, lon_i = a.gn.ego_position_vector.latitude, a.gn.ego_position_vector.longitude

        def btpreq(ptt, hop, area=None, dest=None, life=None):
            kw = dict(btp_type=nh, source_port=second, destination_port=port, destination_port_info=second, gn_packet_transport_type=ptt,
                      traffic_class=tc, data=data, length=len(data), gn_max_hop_limit=hop, gn_max_packet_lifetime=life)
            if area is not None:
                kw["gn_area"] = area
            if dest is not None:
                kw["gn_destination_address"] = dest
            return BTPDataRequest(**kw)

        area = S.Area(latitude=lat_i, longitude=lon_i, a=300, b=200, angle=45)
        sdu = G.btp_encode(port, second) + data
        cases = [("beacon", None)]
        cases.append(("shb", S.PacketTransportType(S.HeaderType.TSB, S.TopoBroadcastHST.SINGLE_HOP)))
        for i in range(3):
            cases.append((f"gbc{i}", S.PacketTransportType(S.HeaderType.GEOBROADCAST, S.GeoBroadcastHST(i))))
            cases.append((f"gac{i}", S.PacketTransportType(S.HeaderType.GEOANYCAST, S.GeoAnycastHST(i))))
        cases.append(("guc", S.PacketTransportType(S.HeaderType.GEOUNICAST, HeaderSubType.UNSPECIFIED)))
        cases.append(("ls", S.PacketTransportType(S.HeaderType.GEOUNICAST, HeaderSubType.UNSPECIFIED)))
        for name, ptt in cases:
            net.sent.clear()
            n += 1
            sn_before = last_sn if last_sn is not None else 0
            try:
                if name == "beacon":
                    net.call(a.gn.gn_data_request_beacon)
                elif name in ("guc", "ls"):
                    if name == "guc":
                        dest = b.addr   # known at A through B's beacon
                    else:
                        dest = GNAddress(m=M.GN_UNICAST, st=ST.BUS, mid=MID(MIDC))
                    req = S.GNDataRequest(upper_protocol_entity=nh, packet_transport_type=ptt, traffic_class=tc, data=sdu, length=len(sdu),
                                          max_hop_limit=3, destination=dest)
                    net.call(a.gn.gn_data_request, req)
                else:
                    net.call(a.btp.btp_data_request, btpreq(ptt, 1 if name == "shb" else 3, area))
            except Exception as e:  # noqa: BLE001
                bad.append(dict(kind="emit_exception", packet=name, pos=list(pos), sign="negative" if (lat < 0 or lon < 0) else "nonneg",
                                exc=f"{type(e).__name__}: {str(e)[:80]}"))
                continue
            frames = [f for s_, f in net.sent if s_ == "A"]
            if len(frames) != 1:
                bad.append(dict(kind="emit_count", packet=name, count=len(frames)))
                continue
            got = frames[0]
            so = ego_lpv_ref(a)
            # EN 302 636-4-1 clause 8.3: SN(P) = (SN(P-1) + 1) % SN_MAX with SN_MAX = 2^16 - 1
            sn = (sn_before + 1) % 65535 if name != "beacon" and name != "shb" else None
            lt_def = RL.best(dlt * 1000)
            ltc = [c for c in range(256) if G.lt_decode(c) == lt_def]
            if name == "beacon":
                exp_tail = G.common_encode(G.CNH_ANY, G.HT_BEACON, 0, 0, mobile, 0, 1) + so
                rhl = 1
            elif name == "shb":
                exp_tail = G.common_encode(enumval(nh), G.HT_TSB, 0, tcv, mobile, len(sdu), 1) + G.ext_shb(so) + sdu
                rhl = 1
            elif name.startswith(("gbc", "gac")):
                ht = G.HT_GBC if name.startswith("gbc") else G.HT_GAC
                exp_tail = (G.common_encode(enumval(nh), ht, int(name[-1]), tcv, mobile, len(sdu), 3)
                            + G.ext_gbc(sn, so, lat_i, lon_i, 300, 200, 45) + sdu)
                rhl = 3
            elif name == "guc":
                be = a.gn.location_table.get_entry(b.addr)
                bpv = be.position_vector
                de = G.spv_encode(G.addr_encode(0, enumval(b.addr.st), MIDB), bpv.tst.msec, bpv.latitude, bpv.longitude)
                exp_tail = G.common_encode(enumval(nh), G.HT_GUC, 0, tcv, mobile, len(sdu), 3) + G.ext_guc(sn, so, de) + sdu
                rhl = 3
            else:  # LS request
                exp_tail = (G.common_encode(G.CNH_ANY, G.HT_LS, 0, 0, mobile, 0, dhl)
                            + G.ext_ls_request(sn, so, G.addr_encode(0, 6, MIDC)))
                rhl = dhl
            if sn is not None:
                last_sn = sn          # the counter advanced by one (checked through the emitted bytes below)
            ok = any(got == G.basic_encode(1, G.BNH_COMMON, 0, c, rhl) + exp_tail for c in ltc)
            distinct.add((name, mobile, tcv, btp, sn, pos))
            if not ok:
                cands = [G.basic_encode(1, G.BNH_COMMON, 0, c, rhl) + exp_tail for c in (ltc or [0])]
                exp = min(cands, key=lambda e: sum(1 for i in range(min(len(got), len(e))) if got[i] != e[i]))
                diff = [i for i in range(min(len(got), len(exp))) if got[i] != exp[i]]
                bad.append(dict(kind="emit_bytes", packet=name, mobile=mobile, diff_octets=diff[:10], len_got=len(got), len_exp=len(exp),
                                sn=sn, got=got.hex(), expected=exp.hex()))
                continue
            if name == "ls":
                # LS reply emitted by the sought station: feed the request to a station owning MIDC
                net2 = Net()
                c = net2.add("C", MIDC, lat=lat, lon=lon, mib_kw=mk, st=ST.BUS, refresh=False)
                net2.call(c.refresh, lat, lon, speed, track)
                c_last = 0
                for _ in range(sn_pre):
                    c_last = c.gn.get_sequence_number()
                n += 1
                try:
                    net2.inject("C", got)
                except Exception as e:  # noqa: BLE001
                    bad.append(dict(kind="emit_exception", packet="ls_reply", exc=f"{type(e).__name__}: {str(e)[:80]}",
                                    sign="negative" if (lat < 0 or lon < 0) else "nonneg"))
                    continue
                fr = [f for s_, f in net2.sent]
                if len(fr) != 1:
                    bad.append(dict(kind="emit_count", packet="ls_reply", count=len(fr)))
                    continue
                apv = a.gn.ego_position_vector
                de = G.spv_encode(G.addr_encode(0, enumval(a.addr.st), MIDA), apv.tst.msec, apv.latitude, apv.longitude)
                exp_tail = (G.common_encode(G.CNH_ANY, G.HT_LS, 1, 0, mobile, 0, dhl)
                            + G.ext_ls_reply((c_last + 1) % 65535, ego_lpv_ref(c), de))
                if not any(fr[0] == G.basic_encode(1, G.BNH_COMMON, 0, cc, dhl) + exp_tail for cc in ltc):
                    exp = G.basic_encode(1, G.BNH_COMMON, 0, ltc[-1] if ltc else 0, dhl) + exp_tail
                    diff = [i for i in range(min(len(fr[0]), len(exp))) if fr[0][i] != exp[i]]
                    bad.append(dict(kind="emit_bytes", packet="ls_reply", mobile=mobile, diff_octets=diff[:10], got=fr[0].hex(), expected=exp.hex()))
    return n, bad, len(distinct)


def sn_sweep_job(count):
    """every sequence number through the real counter (incl. the wrap): one station emits GBC packets back to back"""
    bad, n = [], 0
    net = Net()
    a = net.add("A", MIDA, lat=41.0, lon=2.0, ports=(2001,), mib_kw=dict(itsGnAreaForwardingAlgorithm=S.AreaForwardingAlgorithm.SIMPLE))
    prev = None
    seen = set()
    for i in range(count):
        net.sent.clear()
        req = S.GNDataRequest(upper_protocol_entity=S.CommonNH.BTP_B, packet_transport_type=S.PacketTransportType(S.HeaderType.GEOBROADCAST, S.GeoBroadcastHST(0)),
                              data=b"\x07\xd1\x00\x00s", length=5, max_hop_limit=3,
                              area=S.Area(latitude=410000000, longitude=20000000, a=100, b=100, angle=0))
        net.call(a.gn.gn_data_request, req)
        n += 1
        if len(net.sent) != 1:
            bad.append(dict(kind="emit_count", packet="gbc0", count=len(net.sent)))
            break
        sn = G.parse(net.sent[0][1])["ext"]["sn"]
        if prev is not None and sn != (prev + 1) % 65535:
            bad.append(dict(kind="sequence_number_step", prev=prev, got=sn, expected=(prev + 1) % 65535))
            if len(bad) > 5:
                break
        prev = sn
        seen.add(sn)
    return n, bad, len(seen)


def _run_job(j):
    fn, arg = j
    return fn.__name__, fn(arg)


def run(ctx):
    thorough = ctx.tier == "thorough"
    ncases = len(_pv_cases())
    jobs = [(dec_basic, None), (dec_common, "small"), (dec_addr, None), (dec_ext, None), (enc_objects, None)]
    jobs += [(dec_common, (lo, min(lo + 8192, 65536))) for lo in range(0, 65536, 8192)]
    jobs += [(dec_lpv, (lo, min(lo + 20000, ncases))) for lo in range(0, ncases, 20000)]
    # emitted packets
    poss = [(41.0, 2.0, 0.0, 0.0), (41.3851, 2.1734, 13.88, 359.9), (0.0, 0.0, 0.0, 0.0), (89.9999999, 179.9999999, 163.83, 180.0),
            (-33.8688, 151.2093, 5.0, 90.0), (40.7128, -74.006, 1.0, 45.5), (-22.9068, -43.1729, 2.5, 270.0),
            (-0.0000001, -0.0000001, 0.01, 0.1), (-90.0, -180.0, 0.0, 0.0)]
    seqs_q = [0, 1, 255, 256, 32767, 65533, 65534, 65535]
    tcs = [0, 0x3F, 0x40, 0x80, 0xC5, 0xFF] if not thorough else list(range(256))
    ej = []
    for mobile in (0, 1):
        for (dhl, dlt) in ((10, 60), (3, 7)):
            for btp in ("A", "B"):
                for pos in poss:
                    for tcv in (tcs if pos == poss[0] else [0, 0xC5]):
                        ej.append((mobile, dhl, dlt, tcv, btp, pos, seqs_q if pos == poss[0] and tcv in (0,) else [7]))
    # default lifetimes around the multiplier limits of every LT base (the 6-bit multiplier must not spill into the reserved octet)
    for dlt in (1, 2, 3, 4, 5, 6, 31, 59, 61, 62, 63, 64, 65, 66, 69, 70, 71, 100, 599, 600, 629, 630, 631, 639, 640, 650, 699, 700):
        ej.append((1, 10, dlt, 0, "B", poss[0], [7]))
    if thorough:
        jobs.append((sn_sweep_job, 65600))
    jobs += [(emit_job, e) for e in ej]
    total = 0
    distinct = 0
    per = {}
    with mp.Pool(16) as pool:
        for name, (n, bad, d) in pool.imap_unordered(_run_job, jobs, chunksize=1):
            total += n
            distinct += d
            per[name] = per.get(name, 0) + n
            for rec in bad:
                ctx.violation(rec, replay=rec)
    for k, v in per.items():
        ctx.parts[k] = dict(evaluations=v)
    ctx.coverage.update(
        evaluations=total, distinct_nontrivial=distinct,
        rule=("decoders: reference-encoded headers for every value of each field <=16 bits (neighbour fields all-zero and all-one) and the "
              "bit-pattern classes of 32/48-bit fields; encoders: objects built from the same lattice; emitted packets: every origination "
              "(beacon, SHB, GBC/GAC x3 shapes, GUC, LS request, LS reply) x BTP-A/B x mobility x traffic classes x MIB defaults x ego "
              "positions in all four hemispheres x sequence numbers incl. wrap, compared octet for octet with the reference assembly. "
              "distinct = distinct input tuples (each is compared with the reference, none is trivial)"),
        samples=[dict(header="lpv", lat=-1, expect="ff ff ff ff two's complement"), dict(packet="gbc1", btp="B", pos=list(poss[4])),
                 dict(header="common", pl=65535, mhl=255)],
        exhaustive=True,
    )
    ctx.assumptions += ["reference codec mc/ref/gn_codec.py written from EN 302 636-4-1 clause 9 / EN 302 636-5-1 clause 7",
                        "interiors of 32/48-bit fields are covered by bit-pattern classes only (stated in DESIGN 2.4)",
                        "the ego position vector in force is read from the router's public attribute ego_position_vector"]


def replay(path):
    import json
    rec = json.load(open(path))
    print(json.dumps(rec["violation"], indent=1))
    return 1
