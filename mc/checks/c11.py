"""C11 - facility messages (CAM, VAM, DENM) faithfully encode the sensor input they were built from (E3, exploration).

Complete enumeration of declared finite lattices of report fields through the *real* message builders and
transmission managements (mc/worlds/facilities.py); the produced octets are decoded with the repository's own
coder (asn1tools is trusted) and compared field by field with the independent mapping oracle mc/ref/cdd_map.py;
re-encoding the decoded value must reproduce the octets; generation must neither raise nor be skipped.

Lattices
  dense     (thorough) complete one-field sweeps at the resolution of the data element: speed 0..200 m/s in 0.01, track
            0..360 in 0.05, altitude -1100..8100 m in 0.25, epx/epy 0..45 m in 0.01, epd 0..13 in 0.01, epv 0..210 in 0.05,
            lat/lon over the whole range in 0.01 deg
  values    per-field threshold lattices (every rule threshold of the data element +-1 resolution step, domain
            boundaries, sign boundaries) swept one field at a time against two base reports (northern/eastern and
            southern/western hemisphere), plus every pair of fields over their lattices
  subsets   every subset of the 10 optional report fields (time lat lon altHAE epx epy epv track speed epd)
  stations  station types 0..15 x vehicle roles 0..15 (CAM), station types 0..15 (VAM)
  cluster   every clustering phase of the VRU service (leader, joining [whole notification window in 50 ms steps],
            waiting, cancelled / failed join, passive, leaving, breaking up, idle) for the VAM cluster containers
  path      CAM path history: sequences of three positions 1 s apart (start, first step, jump), jump over
            {0, +-1, 1000, +-131071, +-131072, +-131073, +-200000, 5000000} x the same set (1e-7 deg, both axes), every CAM
            of the run judged against the positions of the CAMs sent before it
  wrap      stationary VAM / CAM report sequences (periods 100 / 1000 ms) started {50 .. 5000} ms before a multiple of
            65 536 ms and continued 8 s past it: generationDeltaTime of every message, no stall after the wrap
  denm      EmergencyVehicleApproachingService reports over hemispheres / altitude lattice, DEN requests over
            heading / confidence / speed
  gdt       generationDeltaTime reconstruction for every age 0..65 535 ms x receive instants around the wrap
"""
from __future__ import annotations

import itertools
import json
import multiprocessing as mp
import random

from mc import env  # noqa: F401
from mc.ref import cdd_map as M
from mc.worlds import facilities as F

LEVEL = "exploration"

FIELDS = ["time", "lat", "lon", "altHAE", "epx", "epy", "epv", "track", "speed", "epd"]
T0 = F.BASE_MS + 123          # report time of the value lattices

BASES = {
    "ne": dict(lat=41.3851234, lon=2.1734567, altHAE=120.5, epx=2.5, epy=3.5, epv=4.0, track=123.4, speed=13.89, epd=1.5),
    "sw": dict(lat=-33.8567891, lon=-70.6482345, altHAE=-50.25, epx=12.0, epy=7.0, epv=0.5, track=0.0, speed=0.0, epd=0.2),
}

EPV_BOUNDS = [0.01, 0.02, 0.05, 0.1, 0.2, 0.5, 1.0, 2.0, 5.0, 10.0, 20.0, 50.0, 100.0, 200.0]


def lattice(field, thorough=False):
    if field == "lat":
        v = [-90.0, -89.9999999, -45.00000005, -1e-7, -0.00000005, 0.0, 0.00000005, 1e-7, 41.1234567, 89.9999999, 90.0]
        if thorough:
            v += [-89.99999995, -0.00000015, 0.00000015, 12.3456789, 66.5, 89.99999995]
    elif field == "lon":
        v = [-180.0, -179.9999999, -90.0, -0.00000005, 0.0, 1e-7, 2.1734567, 179.9999999, 180.0]
        if thorough:
            v += [-179.99999995, -1e-7, 0.00000005, 90.0, 179.99999995]
    elif field == "altHAE":
        v = [-9000.0, -8000.01, -8000.0, -5000.0, -1000.01, -1000.0, -999.99, -0.01, 0.0, 0.004, 0.005, 0.01, 6129.99, 6130.0,
             6130.01, 7000.0, 7999.98, 7999.99, 8000.0, 8000.01, 10000.0]
        if thorough:
            v += [-1000.005, -999.995, -500.0, 6131.0, 7999.985, 7999.995, 9000.0]
    elif field == "speed":
        v = [0.0, 0.004, 0.005, 0.01, 13.89, 163.8, 163.81, 163.815, 163.82, 163.83, 163.84, 200.0]
        if thorough:
            v += [0.015, 163.805, 163.825, 163.835, 170.0]
    elif field == "track":
        v = [0.0, 0.04, 0.05, 0.1, 123.45, 359.9, 359.94, 359.95, 359.99, 360.0]
        if thorough:
            v += [0.09, 180.0, 359.949, 359.96]
    elif field in ("epx", "epy"):
        v = [0.0, 0.004, 0.005, 0.01, 2.5, 4.09, 4.093, 4.1, 40.92, 40.93, 40.94, 40.95, 40.96, 100.0, 500.0, 700.0]
        if thorough:
            v += [0.015, 4.0935, 40.925, 40.935, 40.945, 41.0, 655.35, 655.36]
    elif field == "epv":
        v = [0.0, 250.0, 1000.0]
        for b in EPV_BOUNDS:
            v += [round(b * 0.99, 6), b, round(b * 1.01, 6)]
    elif field == "epd":
        v = [0.0, 0.04, 0.05, 0.09, 0.1, 0.11, 1.5, 12.49, 12.5, 12.51, 12.6, 45.0, 360.0]
        if thorough:
            v += [0.15, 12.45, 12.55, 13.0]
    else:
        raise KeyError(field)
    return v


def mk_report(base, over=None, drop=(), t_ms=T0):
    tpv = dict(BASES[base])
    tpv["time"] = F.iso_ms(t_ms)
    tpv.update(over or {})
    for f in drop:
        tpv.pop(f, None)
    out = {"class": "TPV", "mode": 3}
    out.update(tpv)
    return out


# ------------------------------------------------------------------------------------------------------
# generation through the real services
# ------------------------------------------------------------------------------------------------------
def gen_cam(tpv, t_ms=T0, station_type=5, role=0):
    """start -> report -> first expiry of T_CheckCamGen.  Returns (list of Sent, exception or None)."""
    w = F.FacWorld(start_ms=t_ms)
    try:
        w.add_cam(station_type=station_type, vehicle_role=role)
        w.start_cam(0)
        w.report(w.cam_tm, tpv)
        w.fire_next()
    except Exception as e:  # noqa: BLE001
        return list(w.sent), e
    return list(w.sent), None


def gen_vam(tpv, t_ms=T0, station_type=1, second=False, gap_ms=1000):
    """First report (or a plain first report followed ``gap_ms`` later by ``tpv``).  Returns (list of Sent, exception)."""
    w = F.FacWorld(start_ms=t_ms - (gap_ms if second else 0))
    try:
        w.add_vam(station_type=station_type)
        if second:
            w.report(w.vam_tm, mk_report("ne", t_ms=t_ms - gap_ms))
            w.set_ms(t_ms)
            del w.sent[:]
        w.report(w.vam_tm, tpv)
    except Exception as e:  # noqa: BLE001
        return list(w.sent), e
    return list(w.sent), None


# ------------------------------------------------------------------------------------------------------
# judges
# ------------------------------------------------------------------------------------------------------
def _cmp(out, msg, field, got, allowed, src, val):
    if got not in allowed:
        exp = sorted(allowed, key=repr)
        out.append(dict(kind="value_mismatch", msg=msg, field=field, got=got, expected=exp[:4], source=src,
                        input=val if val is not None else "absent"))


def judge_position(out, msg, pos, tpv):
    _cmp(out, msg, "latitude", pos["latitude"], M.latitude(tpv.get("lat")), "lat", tpv.get("lat"))
    _cmp(out, msg, "longitude", pos["longitude"], M.longitude(tpv.get("lon")), "lon", tpv.get("lon"))
    _cmp(out, msg, "altitudeValue", pos["altitude"]["altitudeValue"], M.altitude(tpv.get("altHAE")), "altHAE", tpv.get("altHAE"))
    _cmp(out, msg, "altitudeConfidence", pos["altitude"]["altitudeConfidence"], M.altitude_confidence(tpv.get("epv")), "epv", tpv.get("epv"))
    ell = pos["positionConfidenceEllipse"]
    want = M.ellipse(tpv.get("epx"), tpv.get("epy"))
    ma, mi, ori = ell["semiMajorAxisLength"], ell["semiMinorAxisLength"], ell["semiMajorAxisOrientation"]
    epx, epy = tpv.get("epx"), tpv.get("epy")
    if want["unavailable"]:
        _cmp(out, msg, "semiMajorAxisLength", ma, want["major"], "epx/epy", "absent")
        _cmp(out, msg, "semiMinorAxisLength", mi, want["minor"], "epx/epy", "absent")
    else:
        big_src, small_src = ("epx", "epy") if epx >= epy else ("epy", "epx")
        big, small = max(epx, epy), min(epx, epy)
        s_big, s_small = M.semi_axis(big), M.semi_axis(small)
        err_straight = (ma not in s_big) + (mi not in s_small)
        err_swapped = (ma not in s_small) + (mi not in s_big)
        if err_swapped < err_straight:
            # the larger estimate sits in the *minor* axis: by definition the major axis is the longer one
            if ma < mi:
                out.append(dict(kind="ellipse_axes_swapped", msg=msg, field="positionConfidenceEllipse", got=[ma, mi],
                                source="epx/epy", input=[epx, epy]))
            assign = [(small_src, small, ma, s_small), (big_src, big, mi, s_big)]
        else:
            assign = [(big_src, big, ma, s_big), (small_src, small, mi, s_small)]
        for src, val, got, allowed in assign:
            _cmp(out, msg, "semiAxisLength", got, allowed, src, val)
    if not (0 <= ori <= 3601) or ori == 3600:
        out.append(dict(kind="value_mismatch", msg=msg, field="semiMajorAxisOrientation", got=ori, expected=["0..3599", 3601],
                        source="epx/epy", input="n/a"))


def judge_common(out, msg, decoded, data, tpv, coder, t_ms):
    body = decoded[msg]
    if "time" in tpv:
        want = M.generation_delta_time(t_ms)
        if body["generationDeltaTime"] != want:
            out.append(dict(kind="value_mismatch", msg=msg, field="generationDeltaTime", got=body["generationDeltaTime"],
                            expected=[want], source="time", input=tpv["time"]))
    try:
        again = coder.encode(decoded)
    except Exception as e:  # noqa: BLE001
        out.append(dict(kind="reencode_raises", msg=msg, exc=type(e).__name__))
        again = data
    if again != data:
        out.append(dict(kind="reencode_differs", msg=msg, len_got=len(again), len_sent=len(data)))


def judge_cam(sent, exc, tpv, t_ms=T0, station_type=5, role=0, station_id=4711):
    out = []
    if exc is not None:
        return [dict(kind="generation_raises", msg="cam", exc=type(exc).__name__, detail=str(exc)[:80])]
    if len(sent) != 1:
        return [dict(kind="not_generated" if not sent else "generated_many", msg="cam", count=len(sent))]
    s = sent[0]
    if s.port != 2001:
        out.append(dict(kind="wrong_port", msg="cam", port=s.port))
    try:
        d = F.coder("cam").decode(s.data)
    except Exception as e:  # noqa: BLE001
        return out + [dict(kind="undecodable", msg="cam", exc=type(e).__name__)]
    judge_common(out, "cam", d, s.data, tpv, F.coder("cam"), t_ms)
    h = d["header"]
    if (h["protocolVersion"], h["messageId"], h["stationId"]) != (2, 2, station_id):
        out.append(dict(kind="value_mismatch", msg="cam", field="header", got=[h["protocolVersion"], h["messageId"], h["stationId"]],
                        expected=[2, 2, station_id], source="config", input="n/a"))
    p = d["cam"]["camParameters"]
    bc = p["basicContainer"]
    _cmp(out, "cam", "stationType", bc["stationType"], {station_type}, "config", station_type)
    judge_position(out, "cam", bc["referencePosition"], tpv)
    hf = p["highFrequencyContainer"][1]
    _cmp(out, "cam", "headingValue", hf["heading"]["headingValue"], M.heading(tpv.get("track")), "track", tpv.get("track"))
    _cmp(out, "cam", "headingConfidence", hf["heading"]["headingConfidence"], M.angle_confidence(tpv.get("epd")), "epd", tpv.get("epd"))
    _cmp(out, "cam", "speedValue", hf["speed"]["speedValue"], M.speed(tpv.get("speed")), "speed", tpv.get("speed"))
    lf = p.get("lowFrequencyContainer")
    if lf is None:
        out.append(dict(kind="value_mismatch", msg="cam", field="lowFrequencyContainer", got="absent", expected=["present"],
                        source="config", input="first CAM"))
    else:
        _cmp(out, "cam", "vehicleRole", lf[1]["vehicleRole"], {M.VEHICLE_ROLE[role]}, "config", role)
    return out


def judge_vam(sent, exc, tpv, t_ms=T0, station_type=1, station_id=4712, optional=False):
    out = []
    if exc is not None:
        return [dict(kind="generation_raises", msg="vam", exc=type(exc).__name__, detail=str(exc)[:80])]
    if len(sent) != 1:
        if not sent and optional:
            return out
        return [dict(kind="not_generated" if not sent else "generated_many", msg="vam", count=len(sent))]
    s = sent[0]
    if s.port != 2018:
        out.append(dict(kind="wrong_port", msg="vam", port=s.port))
    try:
        d = F.coder("vam").decode(s.data)
    except Exception as e:  # noqa: BLE001
        return out + [dict(kind="undecodable", msg="vam", exc=type(e).__name__)]
    judge_common(out, "vam", d, s.data, tpv, F.coder("vam"), t_ms)
    h = d["header"]
    if (h["protocolVersion"], h["messageId"], h["stationId"]) != (3, 16, station_id):
        out.append(dict(kind="value_mismatch", msg="vam", field="header", got=[h["protocolVersion"], h["messageId"], h["stationId"]],
                        expected=[3, 16, station_id], source="config", input="n/a"))
    p = d["vam"]["vamParameters"]
    bc = p["basicContainer"]
    _cmp(out, "vam", "stationType", bc["stationType"], {station_type}, "config", station_type)
    judge_position(out, "vam", bc["referencePosition"], tpv)
    hf = p["vruHighFrequencyContainer"]
    _cmp(out, "vam", "headingValue", hf["heading"]["value"], M.heading(tpv.get("track")), "track", tpv.get("track"))
    _cmp(out, "vam", "headingConfidence", hf["heading"]["confidence"], M.angle_confidence(tpv.get("epd")), "epd", tpv.get("epd"))
    _cmp(out, "vam", "speedValue", hf["speed"]["speedValue"], M.speed(tpv.get("speed")), "speed", tpv.get("speed"))
    return out


# ------------------------------------------------------------------------------------------------------
# lattice jobs
# ------------------------------------------------------------------------------------------------------
def _gen_judge(variant, tpv):
    if variant == "cam":
        sent, exc = gen_cam(tpv)
        return sent, judge_cam(sent, exc, tpv)
    # vam1: first report; vam2: report 1 s after a VAM (always due); vam3: report 50 ms after a VAM (not due: the
    # dynamics conditions are evaluated, a VAM is optional)
    sent, exc = gen_vam(tpv, second=variant != "vam1", gap_ms=50 if variant == "vam3" else 1000)
    return sent, judge_vam(sent, exc, tpv, optional=variant == "vam3")


_BASE_SIG: dict = {}


def sig(recs):
    return {(r["kind"], r.get("field")) for r in recs}


def base_sig(variant, base):
    """(kind, field) signature of the violations of the unmodified base report (reported once, by the single sweeps, with
    cause_field 'base'); a lattice element is only blamed for what its base report does not already show."""
    k = (variant, base)
    if k not in _BASE_SIG:
        _BASE_SIG[k] = sig(_gen_judge(variant, mk_report(base))[1])
    return _BASE_SIG[k]


def _value_job(args):
    """One (msg, base, field[, field2]) cell: sweep the lattice(s).

    Single sweeps: every violation found in a message (beyond what the base report shows) is attributed to the swept
    field (``cause_field`` / ``cause_input``), including collateral damage in *other* fields - an out-of-constraint
    integer is emitted with too many bits and shifts its neighbours.
    Pair sweeps look for *interactions*: a pair message is judged only if both of its single-field messages are clean;
    otherwise it is counted as tainted (its defects are reported by the single sweeps) - the loss of coverage behind known
    single-field defects is visible in the evidence and disappears once they are repaired."""
    msg, base, f1, f2, thorough = args
    n = 0
    bad = []
    distinct = set()
    tainted = 0
    l1 = lattice(f1, thorough) if f1 != "base" else []
    l2 = lattice(f2, thorough) if f2 else [None]
    variants = ("cam",) if msg == "cam" else ("vam1", "vam2", "vam3")
    single_cache = {}

    def single_clean(variant, f, v):
        k = (variant, f, v)
        if k not in single_cache:
            _s, recs = _gen_judge(variant, mk_report(base, {f: v}))
            single_cache[k] = not (sig(recs) - base_sig(variant, base))
        return single_cache[k]

    if f1 == "base":
        for variant in variants:
            n += 1
            sent, recs = _gen_judge(variant, mk_report(base))
            for r in recs:
                r.update(base=base, variant=variant, cause_field="base", cause_input=base)
                bad.append((r, dict(call="value", msg=msg, base=base, over={}, variant=variant)))
        return n, bad, 0, 0
    for v1 in l1:
        for v2 in l2:
            over = {f1: v1}
            if f2:
                over[f2] = v2
            tpv = mk_report(base, over)
            for variant in variants:
                n += 1
                if f2 and not (single_clean(variant, f1, v1) and single_clean(variant, f2, v2)):
                    tainted += 1
                    continue
                sent, recs = _gen_judge(variant, tpv)
                for s in sent:
                    distinct.add(s.data)
                recs = [r for r in recs if (r["kind"], r.get("field")) not in base_sig(variant, base)]
                for r in recs:
                    r.update(base=base, variant=variant, cause_field=f1 if not f2 else f1 + "+" + f2,
                             cause_input=v1 if not f2 else [v1, v2], interaction=bool(f2))
                    bad.append((r, dict(call="value", msg=msg, base=base, over=over, variant=variant)))
    return n, bad, len(distinct), tainted


DENSE = {   # thorough tier: complete 1-D sweeps at (or below) the resolution of the data element, (lo, hi, step)
    "speed": (0.0, 200.0, 0.01), "track": (0.0, 360.0, 0.05), "altHAE": (-1100.0, 8100.0, 0.25), "epx": (0.0, 45.0, 0.01),
    "epy": (0.0, 45.0, 0.01), "epd": (0.0, 13.0, 0.01), "epv": (0.0, 210.0, 0.05), "lat": (-90.0, 90.0, 0.01), "lon": (-180.0, 180.0, 0.01),
}


def _dense_job(args):
    """Complete sweep of one field in [i0, i1) steps of its dense lattice on the NE base (CAM and first VAM)."""
    field, i0, i1 = args
    lo, hi, step = DENSE[field]
    n = 0
    bad = []
    distinct = set()
    for i in range(i0, i1):
        v = round(lo + i * step, 6)
        if v > hi:
            break
        tpv = mk_report("ne", {field: v})
        for variant in ("cam", "vam1"):
            n += 1
            sent, recs = _gen_judge(variant, tpv)
            for s in sent:
                distinct.add(s.data)
            for r in recs:
                if (r["kind"], r.get("field")) in base_sig(variant, "ne"):
                    continue
                r.update(base="ne", variant=variant, cause_field=field, cause_input=v, interaction=False)
                bad.append((r, dict(call="value", msg=variant[:3], base="ne", over={field: v}, variant=variant)))
    return n, bad, len(distinct)


def _subset_job(args):
    msg, base, masks = args
    n = 0
    bad = []
    distinct = set()
    for mask in masks:
        drop = [f for i, f in enumerate(FIELDS) if not (mask >> i) & 1]
        tpv = mk_report(base, drop=drop)
        for variant in (("cam",) if msg == "cam" else ("vam1", "vam2", "vam3")):
            n += 1
            if variant == "cam":
                sent, exc = gen_cam(tpv)
                recs = judge_cam(sent, exc, tpv)
            else:
                sent, exc = gen_vam(tpv, second=variant != "vam1", gap_ms=50 if variant == "vam3" else 1000)
                # a report without time stamp or position is not a position report: a VAM is optional then
                # first report: a VAM is due whenever the report carries a position; later reports: only with a time stamp too
                need = ("lat", "lon") if variant == "vam1" else ("time", "lat", "lon")
                recs = judge_vam(sent, exc, tpv, optional=variant == "vam3" or not all(k in tpv for k in need))
            for s in sent:
                distinct.add(s.data)
            recs = [r for r in recs if (r["kind"], r.get("field")) not in base_sig(variant, base)]
            for r in recs:
                r.update(base=base, variant=variant, cause_field="absent:" + ("+".join(drop) or "none"), cause_input="absent",
                         missing=(r.get("detail", "").strip("'") if r.get("exc") == "KeyError" else ""))
                bad.append((r, dict(call="subset", msg=msg, base=base, drop=drop, variant=variant)))
    return n, bad, len(distinct)


def _station_job(args):
    msg, types, roles = args
    n = 0
    bad = []
    distinct = set()
    for st in types:
        for role in roles:
            n += 1
            tpv = mk_report("ne")
            if msg == "cam":
                sent, exc = gen_cam(tpv, station_type=st, role=role)
                recs = judge_cam(sent, exc, tpv, station_type=st, role=role)
            else:
                sent, exc = gen_vam(tpv, station_type=st)
                recs = judge_vam(sent, exc, tpv, station_type=st)
            for s in sent:
                distinct.add(s.data)
            recs = [r for r in recs if (r["kind"], r.get("field")) not in base_sig("cam" if msg == "cam" else "vam1", "ne")]
            for r in recs:
                r.update(station_type=st, role=role, cause_field="station_type/role", cause_input=[st, role])
                bad.append((r, dict(call="station", msg=msg, station_type=st, role=role)))
    return n, bad, len(distinct)


# ------------------------------------------------------------------------------------------------------
# VAM cluster containers per clustering phase
# ------------------------------------------------------------------------------------------------------
def _rx_vam(station_id, lat, lon, cluster_id=None, card=3):
    """A decoded-VAM shaped dict as VAMReceptionManagement hands it to the clustering manager."""
    v = {"header": {"protocolVersion": 3, "messageId": 16, "stationId": station_id},
         "vam": {"generationDeltaTime": 0, "vamParameters": {
             "basicContainer": {"stationType": 1, "referencePosition": {"latitude": int(lat * 1e7), "longitude": int(lon * 1e7)}},
             "vruHighFrequencyContainer": {"speed": {"speedValue": 100}, "heading": {"value": 100}}}}}
    if cluster_id is not None:
        v["vam"]["vamParameters"]["vruClusterInformationContainer"] = {
            "vruClusterInformation": {"clusterId": cluster_id, "clusterCardinalitySize": card}}
    return v


def _cluster_world(phase, t_ms, cluster_id=7, rand_id=1):
    """Drive the real VBSClusteringManager into ``phase`` through its public API; returns (world, expectation)."""
    from flexstack.facilities.vru_awareness_service.vru_clustering import ClusterLeaveReason, ClusterBreakupReason
    w = F.FacWorld(start_ms=t_ms)
    w.add_vam(clustering=True)
    c = w.cluster
    lat, lon = BASES["ne"]["lat"], BASES["ne"]["lon"]
    exp = dict(info=None, op=None, transmit=True)
    prev = env.ENV.rand_int
    env.ENV.rand_int = staticmethod(lambda a, b: rand_id)
    try:
        with w:
            if phase in ("leader", "breakup"):
                for sid in (11, 12, 13):
                    c.on_received_vam(_rx_vam(sid, lat + 1e-5, lon))
                if not c.try_create_cluster(lat, lon):
                    raise AssertionError("could not create cluster")
                exp["info"] = dict(clusterId=rand_id, radius_m=5.0, card=1, profiles=(b"\x80", 4))
                if phase == "breakup":
                    c.trigger_breakup_cluster(ClusterBreakupReason.CLUSTERING_PURPOSE_COMPLETED)
                    exp["op"] = ("breakup", "clusteringPurposeCompleted", 3.0)
            elif phase in ("joining", "cancelled", "waiting", "failed", "passive", "leaving"):
                c.on_received_vam(_rx_vam(21, lat, lon, cluster_id=cluster_id))
                if not c.initiate_join(cluster_id):
                    raise AssertionError("join refused")
                exp["op"] = ("join", cluster_id, 3.0)
                if phase == "cancelled":
                    c.cancel_join()
                    exp["op"] = ("leave", cluster_id, "cancelledJoin")
                if phase in ("waiting", "failed", "passive", "leaving"):
                    w.set_ms(w.ms + 3000)
                    c.update(lat, lon, 1.0, 10.0)            # notification over -> waiting for the leader
                    exp["op"] = None
                if phase == "failed":
                    w.set_ms(w.ms + 500)
                    c.update(lat, lon, 1.0, 10.0)
                    exp["op"] = ("leave", cluster_id, "failedJoin")
                if phase in ("passive", "leaving"):
                    c.on_received_vam(_rx_vam(21, lat, lon, cluster_id=cluster_id))
                    exp["transmit"] = False
                if phase == "leaving":
                    c.trigger_leave_cluster(ClusterLeaveReason.OUT_OF_CLUSTER_BOUNDING_BOX)
                    exp["op"] = ("leave", cluster_id, "outOfClusterBoundingBox")
                    exp["transmit"] = True
            elif phase == "idle":
                c.set_vru_role_off()
                exp["transmit"] = False
            elif phase != "standalone":
                raise KeyError(phase)
    finally:
        env.ENV.rand_int = prev
    return w, exp


def _cluster_job(args):
    phase, delays, ids = args
    n = 0
    bad = []
    distinct = set()
    for cid in ids:
        for dly in delays:
            n += 1
            try:
                w, exp = _cluster_world(phase, T0, cluster_id=cid, rand_id=cid if cid else 1)
            except Exception as e:  # noqa: BLE001
                bad.append((dict(kind="cluster_setup_raises", phase=phase, exc=type(e).__name__, detail=str(e)[:80]), dict(call="cluster", phase=phase)))
                continue
            w.set_ms(w.ms + dly)
            tpv = mk_report("ne", t_ms=w.ms)
            exc = None
            try:
                w.report(w.vam_tm, tpv)
            except Exception as e:  # noqa: BLE001
                exc = e
            rp = dict(call="cluster", phase=phase, delay_ms=dly, cluster_id=cid)
            base = dict(msg="vam", phase=phase, delay_ms=dly)
            if exc is not None:
                window = 3.0 if phase in ("joining", "breakup") else None
                bad.append((dict(kind="generation_raises", exc=type(exc).__name__, detail=str(exc)[:100],
                                 where=("clusterBoundingBoxShape" if "clusterBoundingBoxShape" in str(exc) else "other"),
                                 remaining_quarters=-1 if window is None else int(max(0.0, window - dly / 1000.0) / 0.25), **base), rp))
                continue
            if not exp["transmit"]:
                if w.sent:
                    bad.append((dict(kind="vam_while_suppressed", **base), rp))
                continue
            recs = judge_vam(w.sent, None, tpv, t_ms=w.ms)
            for r in recs:
                if (r["kind"], r.get("field")) in base_sig("vam1", "ne"):
                    continue
                r.update(base)
                bad.append((r, rp))
            if len(w.sent) != 1:
                continue
            distinct.add(w.sent[0].data)
            p = F.coder("vam").decode(w.sent[0].data)["vam"]["vamParameters"]
            info, op = p.get("vruClusterInformationContainer"), p.get("vruClusterOperationContainer")
            if (info is not None) != (exp["info"] is not None):
                bad.append((dict(kind="cluster_container", which="information", got=info is not None, **base), rp))
            elif info is not None:
                ci = info["vruClusterInformation"]
                e = exp["info"]
                if ci.get("clusterId") != e["clusterId"]:
                    bad.append((dict(kind="value_mismatch", field="clusterId", got=ci.get("clusterId"), expected=[e["clusterId"]], source="cluster", input=cid, **base), rp))
                shape = ci.get("clusterBoundingBoxShape")
                rad = shape[1].get("radius") if shape and shape[0] == "circular" else None
                if rad not in M.std_length_12b(e["radius_m"]):
                    bad.append((dict(kind="value_mismatch", field="clusterBoundingBoxShape.radius", got=rad,
                                     expected=sorted(M.std_length_12b(e["radius_m"])), source="cluster", input=e["radius_m"], **base), rp))
                if ci.get("clusterCardinalitySize") != e["card"]:
                    bad.append((dict(kind="value_mismatch", field="clusterCardinalitySize", got=ci.get("clusterCardinalitySize"), expected=[e["card"]], source="cluster", input=e["card"], **base), rp))
                if ci.get("clusterProfiles") != e["profiles"]:
                    bad.append((dict(kind="value_mismatch", field="clusterProfiles", got=repr(ci.get("clusterProfiles")), expected=[repr(e["profiles"])], source="cluster", input="pedestrian", **base), rp))
            want_op = exp["op"]
            if phase == "joining" and dly >= 3000:
                want_op = ("join", cid, 3.0)      # update() was not called: the manager still notifies (remaining time 0)
            if (op is not None) != (want_op is not None):
                bad.append((dict(kind="cluster_container", which="operation", got=op is not None, **base), rp))
            elif op is not None:
                if want_op[0] == "join":
                    ji = op.get("clusterJoinInfo") or {}
                    remaining = max(0.0, want_op[2] - dly / 1000.0)
                    if ji.get("clusterId") != cid or ji.get("joinTime") not in M.quarter_seconds(remaining):
                        bad.append((dict(kind="value_mismatch", field="clusterJoinInfo", got=[ji.get("clusterId"), ji.get("joinTime")],
                                         expected=[cid] + sorted(M.quarter_seconds(remaining)), source="cluster", input=remaining, **base), rp))
                elif want_op[0] == "leave":
                    li = op.get("clusterLeaveInfo") or {}
                    if (li.get("clusterId"), li.get("clusterLeaveReason")) != (cid, want_op[2]):
                        bad.append((dict(kind="value_mismatch", field="clusterLeaveInfo", got=[li.get("clusterId"), li.get("clusterLeaveReason")],
                                         expected=[cid, want_op[2]], source="cluster", input=want_op[2], **base), rp))
                else:
                    bi = op.get("clusterBreakupInfo") or {}
                    remaining = max(0.0, want_op[2] - dly / 1000.0)
                    if bi.get("clusterBreakupReason") != want_op[1] or bi.get("breakupTime") not in M.quarter_seconds(remaining):
                        bad.append((dict(kind="value_mismatch", field="clusterBreakupInfo", got=[bi.get("clusterBreakupReason"), bi.get("breakupTime")],
                                         expected=[want_op[1]] + sorted(M.quarter_seconds(remaining)), source="cluster", input=remaining, **base), rp))
    return n, bad, len(distinct)


# ------------------------------------------------------------------------------------------------------
# CAM path history: sequences of reports (a path point needs an earlier CAM)
# ------------------------------------------------------------------------------------------------------
PH_JUMPS = [0, 1, -1, 1000, 131071, 131072, 131073, -131071, -131072, -131073, 200000, -200000, 5000000]   # 1e-7 deg
PH_FIRST = [(0, 0), (1000, 0), (0, -1000), (131073, 0), (0, -131073), (60000, 60000)]


def judge_path(decoded, cur, earlier, now_ms):
    """pathHistory of one CAM against the positions of the CAMs sent before it (newest first).

    Every decoded point must be one of the earlier CAM positions (order preserved), its offsets within one unit of the
    true offset and its age within 10 ms.  An offset that does not fit DeltaLatitude / DeltaLongitude (-131071..131071)
    must either make the point disappear or be sent as 131072 ('unavailable', the element has no outOfRange code) - the
    code emits 131072 exactly when the true offset is +131072 units; 131072 for an offset that fits is a violation, and
    so is every wrapped value.  The newest earlier position must be present when it fits (no vacuous history)."""
    out = []
    lf = decoded["cam"]["camParameters"].get("lowFrequencyContainer")
    if lf is None:
        return out
    pts = lf[1]["pathHistory"]
    cand = [dict(dlat=(e["lat"] - cur["lat"]) * 1e7, dlon=(e["lon"] - cur["lon"]) * 1e7, age=(now_ms - e["ms"]) / 10.0, ulat=e["ulat"] - cur["ulat"],
                 ulon=e["ulon"] - cur["ulon"]) for e in reversed(earlier)]
    def axis_ok(got, d, u):
        fits = -131071 <= u <= 131071
        if got == 131072:                      # 'unavailable': the only code the element offers for an offset that does not fit
            return not fits
        return fits and abs(got - d) <= 1.0 + 1e-3

    i = 0
    for k, pt in enumerate(pts):
        pp = pt["pathPosition"]
        got = (pp["deltaLatitude"], pp["deltaLongitude"], pt.get("pathDeltaTime"))
        while i < len(cand):
            c = cand[i]
            i += 1
            if axis_ok(got[0], c["dlat"], c["ulat"]) and axis_ok(got[1], c["dlon"], c["ulon"]) and \
                    (got[2] is None or abs(got[2] - min(max(c["age"], 1.0), 65534.0)) <= 1.0 + 1e-6):
                break
        else:
            out.append(dict(kind="path_point_mismatch", index=k, got=list(got), points=len(pts), earlier_cams=len(cand)))
            break
    if cand and all(-131071 <= u <= 131071 for u in (cand[0]["ulat"], cand[0]["ulon"])) and not pts:
        out.append(dict(kind="path_history_empty", earlier_cams=len(cand)))
    return out


def _path_job(args):
    base, firsts, jumps = args
    n = 0
    bad = []
    distinct = set()
    b = BASES[base]
    ulat0, ulon0 = round(b["lat"] * 1e7), round(b["lon"] * 1e7)
    for first in firsts:
        for jump in jumps:
            n += 1
            w = F.FacWorld(start_ms=T0)
            w.add_cam()
            w.start_cam(0)
            earlier = []
            ulat, ulon = ulat0, ulon0
            rp = dict(call="path", base=base, first=list(first), jump=list(jump))
            recs = []
            for step in ((0, 0), first, jump):
                ulat, ulon = ulat + step[0], ulon + step[1]
                tpv = mk_report(base, dict(lat=ulat / 1e7, lon=ulon / 1e7), t_ms=w.ms)
                cur = dict(lat=tpv["lat"], lon=tpv["lon"], ulat=ulat, ulon=ulon)
                w.report(w.cam_tm, tpv)
                got_cam = 0
                end = w.ms + 1000
                while w.next_timer() is not None and w.timer_ms(w.next_timer()) <= end:
                    n0 = len(w.sent)
                    w.fire_next()
                    for s in w.sent[n0:]:
                        got_cam += 1
                        distinct.add(s.data)
                        try:
                            d = F.coder("cam").decode(s.data)
                        except Exception as e:  # noqa: BLE001
                            recs.append(dict(kind="undecodable", msg="cam", exc=type(e).__name__))
                            continue
                        if F.coder("cam").encode(d) != s.data:
                            recs.append(dict(kind="reencode_differs", msg="cam"))
                        pos = d["cam"]["camParameters"]["basicContainer"]["referencePosition"]
                        if abs(pos["latitude"] - ulat) > 1 or abs(pos["longitude"] - ulon) > 1:
                            recs.append(dict(kind="value_mismatch", msg="cam", field="referencePosition", got=[pos["latitude"], pos["longitude"]],
                                             expected=[ulat, ulon], source="lat/lon", input="n/a"))
                        recs += judge_path(d, cur, earlier, w.ms)
                        earlier.append(dict(cur, ms=w.ms))
                w.set_ms(end)
                if not got_cam:
                    recs.append(dict(kind="not_generated", msg="cam", count=0, window_ms=1000))
            seen = set()
            for r in recs:
                k = (r["kind"], r.get("index"))
                if k in seen:
                    continue
                seen.add(k)
                r.update(msg="cam", base=base, cause_field="jump", cause_input=list(jump), first_step=list(first))
                bad.append((r, rp))
    return n, bad, len(distinct)


# ------------------------------------------------------------------------------------------------------
# stationary report sequences across a generationDeltaTime wrap: generation must not stall
# ------------------------------------------------------------------------------------------------------
WRAP_OFFSETS = [50, 100, 101, 250, 999, 1000, 5000]      # the run starts this many ms before TimestampIts mod 65536 wraps
WRAP_AFTER_MS = 8000


def _wrap_job(args):
    """A station that does not move reports every ``period`` ms; the time stamps cross a multiple of 65 536 ms.  Every
    message must carry the generationDeltaTime of its report and the stream must continue after the wrap: a VAM at the
    latest T_GenVamMax + one report period, a CAM at the latest T_GenCamMax + one check period after the previous one
    (the fine timing rules are property C10's subject; here only "no stall")."""
    msg, off, period = args
    k = (F.BASE_MS - F.ITS_EPOCH_MS + F.LEAP_MS) // 65536 + 1
    wrap = F.ITS_EPOCH_MS - F.LEAP_MS + k * 65536
    start = wrap - off
    end = wrap + WRAP_AFTER_MS
    bound = (5000 + period) if msg == "vam" else (1000 + 100)
    w = F.FacWorld(start_ms=start)
    bad = []
    rp = dict(call="wrap", msg=msg, off=off, period=period)
    stamps = []
    src = []                     # src[i] = time stamp of the latest report delivered before w.sent[i] was generated
    distinct = set()
    try:
        if msg == "vam":
            w.add_vam()
        else:
            w.add_cam()
            w.start_cam(0)
        t = start
        last_report = None
        while t <= end:
            w.advance_to(t)                      # checks due at t fire before the report stamped t is delivered
            src += [last_report] * (len(w.sent) - len(src))
            tpv = mk_report("ne", t_ms=t)
            w.report(w.vam_tm if msg == "vam" else w.cam_tm, tpv)
            last_report = t
            src += [last_report] * (len(w.sent) - len(src))
            t += period
        w.advance_to(end)
        src += [last_report] * (len(w.sent) - len(src))
    except Exception as e:  # noqa: BLE001
        bad.append((dict(kind="generation_raises", msg=msg, exc=type(e).__name__, detail=str(e)[:80], cause_field="wrap", cause_input=off,
                         period_ms=period), rp))
    reports = list(range(start, end + 1, period))
    for i, s_ in enumerate(w.sent):
        distinct.add(s_.data)
        stamps.append(s_.ms)
        try:
            d = F.coder(msg).decode(s_.data)
        except Exception as e:  # noqa: BLE001
            bad.append((dict(kind="undecodable", msg=msg, exc=type(e).__name__, cause_field="wrap", cause_input=off, period_ms=period), rp))
            continue
        latest = src[i] if i < len(src) and src[i] is not None else start
        want = M.generation_delta_time(latest)
        if d[msg]["generationDeltaTime"] != want:
            bad.append((dict(kind="value_mismatch", msg=msg, field="generationDeltaTime", got=d[msg]["generationDeltaTime"], expected=[want],
                             source="time", input=latest, cause_field="wrap", cause_input=off, period_ms=period), rp))
    prev = start
    for t in stamps + [end]:
        if t - prev > bound:
            bad.append((dict(kind="generation_stalls", msg=msg, gap_ms=t - prev, bound_ms=bound, after_wrap=t > wrap, messages=len(stamps),
                             cause_field="wrap", cause_input=off, period_ms=period), rp))
            break
        prev = t
    if not any(t > wrap for t in stamps):
        bad.append((dict(kind="generation_stalls", msg=msg, gap_ms=end - prev, bound_ms=bound, after_wrap=True, messages=len(stamps),
                         cause_field="wrap", cause_input=off, period_ms=period, none_after_wrap=True), rp))
    return len(reports), bad, len(distinct)


# ------------------------------------------------------------------------------------------------------
# DENM
# ------------------------------------------------------------------------------------------------------
class _DenService:
    """The EmergencyVehicleApproachingService only dereferences ``den_service.denm_transmission_management``."""

    def __init__(self, tm):
        self.denm_transmission_management = tm


def gen_denm_eva(tpv, t_ms=T0, station_type=10):
    from flexstack.applications.road_hazard_signalling_service.emergency_vehicle_approaching_service import (
        EmergencyVehicleApproachingService)
    w = F.FacWorld(start_ms=t_ms)
    try:
        tm = w.add_denm(station_type=station_type)
        with w:
            svc = EmergencyVehicleApproachingService(_DenService(tm), duration=1000)
            svc.trigger_denm_sending(tpv)
            for th in list(w.threads):
                th.run_now()
    except Exception as e:  # noqa: BLE001
        return list(w.sent), e, w
    return list(w.sent), None, w


def judge_denm_eva(sent, exc, tpv, t_ms, station_type=10, station_id=4713):
    out = []
    if exc is not None:
        return [dict(kind="generation_raises", msg="denm", exc=type(exc).__name__, detail=str(exc)[:80])]
    if len(sent) != 1:
        return [dict(kind="not_generated" if not sent else "generated_many", msg="denm", count=len(sent))]
    s = sent[0]
    if s.port != 2002:
        out.append(dict(kind="wrong_port", msg="denm", port=s.port))
    try:
        d = F.coder("denm").decode(s.data)
    except Exception as e:  # noqa: BLE001
        return out + [dict(kind="undecodable", msg="denm", exc=type(e).__name__)]
    try:
        again = F.coder("denm").encode(d)
    except Exception as e:  # noqa: BLE001
        out.append(dict(kind="reencode_raises", msg="denm", exc=type(e).__name__))
        again = s.data
    if again != s.data:
        out.append(dict(kind="reencode_differs", msg="denm", len_got=len(again), len_sent=len(s.data)))
    mg = d["denm"]["management"]
    pos = mg["eventPosition"]
    _cmp(out, "denm", "latitude", pos["latitude"], M.latitude(tpv.get("lat")), "lat", tpv.get("lat"))
    _cmp(out, "denm", "longitude", pos["longitude"], M.longitude(tpv.get("lon")), "lon", tpv.get("lon"))
    _cmp(out, "denm", "altitudeValue", pos["altitude"]["altitudeValue"], M.altitude(tpv.get("altHAE")), "altHAE", tpv.get("altHAE"))
    ref = F.its_ms(t_ms)
    if abs(mg["referenceTime"] - ref) > 1:
        out.append(dict(kind="value_mismatch", msg="denm", field="referenceTime", got=mg["referenceTime"], expected=[ref], source="clock", input=t_ms))
    if d["header"]["stationId"] != station_id or mg["actionId"]["originatingStationId"] != station_id:
        out.append(dict(kind="value_mismatch", msg="denm", field="stationId", got=d["header"]["stationId"], expected=[station_id], source="config", input=station_id))
    if s.req.gn_area.latitude != pos["latitude"] or s.req.gn_area.longitude != pos["longitude"]:
        out.append(dict(kind="value_mismatch", msg="denm", field="gn_area", got=[s.req.gn_area.latitude, s.req.gn_area.longitude],
                        expected=[pos["latitude"], pos["longitude"]], source="lat/lon", input="n/a"))
    return out


def _denm_job(args):
    kind, items = args
    n = 0
    bad = []
    distinct = set()
    if kind == "eva":
        for base, over, drop in items:
            n += 1
            tpv = mk_report(base, over, drop)
            sent, exc, _w = gen_denm_eva(tpv, T0)
            for s in sent:
                distinct.add(s.data)
            for r in judge_denm_eva(sent, exc, tpv, T0):
                r.update(base=base, variant="eva", cause_field="+".join(sorted(over)) or "absent:" + "+".join(drop),
                         cause_input=list(over.values())[0] if over else "absent")
                bad.append((r, dict(call="denm_eva", base=base, over=over, drop=list(drop))))
    else:
        from flexstack.applications.road_hazard_signalling_service.service_access_point import DENRequest
        pos_ok = {"latitude": 413851234, "longitude": 21734567,
                  "positionConfidenceEllipse": {"semiMajorConfidence": 350, "semiMinorConfidence": 250, "semiMajorOrientation": 0},
                  "altitude": {"altitudeValue": 12050, "altitudeConfidence": "alt-005-00"}}
        for heading, conf, speed in items:
            n += 1
            w = F.FacWorld(start_ms=T0)
            rec_in = dict(heading=heading, confidence=conf, speed=speed)
            try:
                tm = w.add_denm(station_type=10)
                req = DENRequest(denm_interval=1000, detection_time=F.its_ms(T0) - 100, time_period=1000, quality=7,
                                 event_position=dict(pos_ok), heading=heading, confidence=conf,
                                 relevance_distance="lessThan200m", relevance_traffic_direction="upstreamTraffic",
                                 rhs_cause_code="emergencyVehicleApproaching95", rhs_subcause_code=1, rhs_event_speed=speed,
                                 rhs_vehicle_type=10)
                with w:
                    tm.request_denm_sending(req)
                    for th in list(w.threads):
                        th.run_now()
            except Exception as e:  # noqa: BLE001
                bad.append((dict(kind="generation_raises", msg="denm", exc=type(e).__name__, detail=str(e)[:80], variant="request", **rec_in),
                            dict(call="denm_req", **rec_in)))
                continue
            if len(w.sent) != 1:
                bad.append((dict(kind="not_generated", msg="denm", count=len(w.sent), variant="request", **rec_in), dict(call="denm_req", **rec_in)))
                continue
            distinct.add(w.sent[0].data)
            try:
                d = F.coder("denm").decode(w.sent[0].data)
            except Exception as e:  # noqa: BLE001
                bad.append((dict(kind="undecodable", msg="denm", exc=type(e).__name__, variant="request", **rec_in), dict(call="denm_req", **rec_in)))
                continue
            if F.coder("denm").encode(d) != w.sent[0].data:
                bad.append((dict(kind="reencode_differs", msg="denm", variant="request", **rec_in), dict(call="denm_req", **rec_in)))
            loc = d["denm"].get("location", {})
            got = (loc.get("eventPositionHeading", {}).get("value"), loc.get("eventPositionHeading", {}).get("confidence"),
                   loc.get("eventSpeed", {}).get("speedValue"), loc.get("eventSpeed", {}).get("speedConfidence"))
            want_sc = M._near(conf / 2.0, 1, 127)
            if got[0] != heading or got[1] != conf or got[2] != speed or got[3] not in want_sc:
                bad.append((dict(kind="value_mismatch", msg="denm", field="location", got=list(got), expected=[heading, conf, speed, sorted(want_sc)],
                                 source="request", input=[heading, conf, speed], variant="request"), dict(call="denm_req", **rec_in)))
            if d["denm"]["management"]["eventPosition"] != pos_ok:
                bad.append((dict(kind="value_mismatch", msg="denm", field="eventPosition", got="differs", expected=["as requested"],
                                 source="request", input="n/a", variant="request"), dict(call="denm_req", **rec_in)))
    return n, bad, len(distinct)


# ------------------------------------------------------------------------------------------------------
# generationDeltaTime reconstruction
# ------------------------------------------------------------------------------------------------------
def _recon_job(args):
    """receive instant r (unix ms), every age in [a0, a1): message generated at r-age must be reconstructed exactly."""
    r_list, a0, a1 = args
    bad = []
    n = 0
    G = F.GenerationDeltaTime
    for r in r_list:
        for age in range(a0, a1):
            n += 1
            g = r - age
            gdt = M.generation_delta_time(g)
            got = G(msec=gdt).as_timestamp_in_certain_point(r)
            if got != g:
                bad.append(dict(kind="gdt_reconstruction", age_ms=age, receive_unix_ms=r, got=got, expected=g, error_ms=got - g))
                if len(bad) > 50:
                    return n, bad
    return n, bad


def _recon_rx_job(args):
    """Same through the real reception managements (decode -> utc_timestamp) for a sub-lattice of ages."""
    from flexstack.facilities.ca_basic_service.cam_reception_management import CAMReceptionManagement
    from flexstack.facilities.vru_awareness_service.vam_reception_management import VAMReceptionManagement
    from flexstack.btp.service_access_point import BTPDataIndication
    r_list, ages, fracs = args
    bad = []
    n = 0
    got_box = []

    class _Ldm:                       # stand-in for the LDM adapter: records what reception hands to the LDM
        def add_provider_data_to_ldm(self, msg):
            got_box.append(msg["utc_timestamp"])

    for r in r_list:
        for fr in fracs:
            w = F.FacWorld(start_ms=r, frac=fr)
            with w:
                rx = {"cam": CAMReceptionManagement(F.coder("cam"), w.btp, _Ldm()),
                      "vam": VAMReceptionManagement(F.coder("vam"), w.btp, _Ldm())}
            for age in ages:
                g = r - age
                for which in ("cam", "vam"):
                    n += 1
                    msg = F.CooperativeAwarenessMessage().cam if which == "cam" else F.VAMMessage().vam
                    msg[which]["generationDeltaTime"] = M.generation_delta_time(g)
                    data = F.coder(which).encode(msg)
                    del got_box[:]
                    try:
                        with w:
                            rx[which].reception_callback(BTPDataIndication(data=data, length=len(data)))
                        got = got_box[0]
                    except Exception as e:  # noqa: BLE001
                        bad.append(dict(kind="reception_raises", msg=which, exc=type(e).__name__, age_ms=age, receive_unix_ms=r))
                        continue
                    if got != g:
                        bad.append(dict(kind="gdt_reconstruction", msg=which, age_ms=age, receive_unix_ms=r, frac=fr, got=got, expected=g, error_ms=got - g))
    return n, bad


# ------------------------------------------------------------------------------------------------------
def run(ctx):
    thorough = ctx.tier == "thorough"
    for k in ("cam", "vam", "denm"):
        F.coder(k)
    rng = random.Random(ctx.seed)
    vf = [f for f in FIELDS if f != "time"]
    total = distinct = 0
    pool = mp.Pool(16)

    def drain(label, fn, jobs):
        nonlocal total, distinct
        rng.shuffle(jobs)
        n_all = d_all = v_all = t_all = 0
        for res in pool.imap_unordered(fn, jobs):
            n, bad = res[0], res[1]
            n_all += n
            d_all += res[2] if len(res) > 2 else n
            t_all += res[3] if len(res) > 3 else 0
            for item in bad:
                rec, rp = item if isinstance(item, tuple) else (item, item)
                rec.setdefault("part", label)
                v_all += 1
                ctx.violation(rec, replay=rp)
        ctx.parts[label] = dict(evaluations=n_all, distinct_messages=d_all, violating_cases=v_all)
        if t_all:
            ctx.parts[label]["not_judged_tainted_by_single_field_defect"] = t_all
        total += n_all
        distinct += d_all

    try:
        # ---- values: one-field sweeps and all pairs ------------------------------------------------------
        jobs = [(m, b, f, None, thorough) for m in ("cam", "vam") for b in BASES for f in ["base"] + vf]
        drain("values_single", _value_job, jobs)
        pairs = list(itertools.combinations(vf, 2))
        jobs = [(m, b, f1, f2, thorough) for m in ("cam", "vam") for b in (BASES if thorough else ["ne"]) for f1, f2 in pairs]
        drain("values_pairs", _value_job, jobs)
        if thorough:
            jobs = []
            for f, (lo, hi, step) in DENSE.items():
                steps = int(round((hi - lo) / step)) + 1
                jobs += [(f, i, min(i + 500, steps)) for i in range(0, steps, 500)]
            drain("values_dense", _dense_job, jobs)
        # ---- subsets of the optional fields -----------------------------------------------------------------
        masks = list(range(1 << len(FIELDS)))
        jobs = [(m, b, masks[i:i + 64]) for m in ("cam", "vam") for b in BASES for i in range(0, len(masks), 64)]
        drain("subsets", _subset_job, jobs)
        # ---- station types / roles --------------------------------------------------------------------------
        jobs = [("cam", [st], list(range(16))) for st in range(16)] + [("vam", list(range(16)), [0])]
        drain("stations", _station_job, jobs)
        # ---- clustering phases --------------------------------------------------------------------------------
        win = list(range(0, 3301, 50)) if not thorough else list(range(0, 3301, 10))
        ids = [7] if not thorough else [0, 1, 7, 255]
        jobs = [(ph, [0], ids) for ph in ("standalone", "leader", "cancelled", "waiting", "failed", "passive", "leaving", "idle")]
        jobs += [("joining", win[i:i + 12], ids) for i in range(0, len(win), 12)]
        jobs += [("breakup", win[i:i + 12], [7]) for i in range(0, len(win), 12)]
        drain("cluster_phases", _cluster_job, jobs)
        # ---- CAM path history over report sequences ----------------------------------------------------------
        jumps = [(a, o) for a in PH_JUMPS for o in PH_JUMPS]
        firsts = PH_FIRST if thorough else PH_FIRST[:4]
        jobs = [(b, [f], jumps[i:i + 60]) for b in BASES for f in firsts for i in range(0, len(jumps), 60)]
        drain("path_history", _path_job, jobs)
        # ---- stationary sequences across the generationDeltaTime wrap ----------------------------------------
        jobs = [(m, off, per) for m in ("vam", "cam") for off in WRAP_OFFSETS for per in ((100, 1000) if not thorough else (20, 100, 250, 1000))]
        drain("wrap_continuity", _wrap_job, jobs)
        # ---- DENM ---------------------------------------------------------------------------------------------
        eva = []
        for b in BASES:
            for f in ("lat", "lon", "altHAE"):
                eva += [(b, {f: v}, ()) for v in lattice(f, thorough)]
            for k in range(8):
                eva.append((b, {}, tuple(f for i, f in enumerate(("lat", "lon", "altHAE")) if not (k >> i) & 1)))
        jobs = [("eva", eva[i:i + 16]) for i in range(0, len(eva), 16)]
        req = [(h, c, s) for h in (0, 1, 900, 1800, 3599, 3601) for c in (1, 2, 3, 10, 100, 125, 126, 127) for s in (0, 1, 30, 16381, 16382, 16383)]
        jobs += [("req", req[i:i + 24]) for i in range(0, len(req), 24)]
        drain("denm", _denm_job, jobs)
        # ---- generationDeltaTime reconstruction -------------------------------------------------------------
        k0 = (F.BASE_MS - F.ITS_EPOCH_MS + F.LEAP_MS) // 65536
        wrap = F.ITS_EPOCH_MS - F.LEAP_MS + k0 * 65536
        offs = [-2, -1, 0, 1, 2, 100, 32767, 32768, 65534, 65535] if not thorough else \
            [-3, -2, -1, 0, 1, 2, 3, 100, 255, 256, 4999, 5000, 5001, 32767, 32768, 60000, 65533, 65534, 65535]
        inst = [wrap + o for o in offs] + [F.ITS_EPOCH_MS - F.LEAP_MS + (2 ** 25 - 1) * 65536 + o for o in (-1, 0, 1)]
        jobs = [([r], a, min(a + 16384, 65536)) for r in inst for a in range(0, 65536, 16384)]
        drain("gdt_reconstruction", _recon_job, jobs)
        ages = [0, 1, 2, 99, 100, 999, 1000, 4999, 5000, 32767, 32768, 60000, 64999, 65000, 65534, 65535]
        jobs = [([r], ages, [0.0, 0.5, 0.999]) for r in inst]
        drain("gdt_reception_path", _recon_rx_job, jobs)
    finally:
        pool.close()
        pool.join()

    ctx.coverage.update(
        evaluations=total, distinct_nontrivial=distinct, exhaustive=True,
        rule=("every element of the declared lattices (docstring of mc/checks/c11.py) is pushed through the real CAM / VAM / DENM "
              "generation path; 'distinct_nontrivial' counts distinct encoded messages actually produced and judged (for the "
              "generationDeltaTime reconstruction every (receive instant, age) pair is a distinct case); each is decoded with the "
              "repository coder, compared field by field with mc/ref/cdd_map.py and re-encoded"),
        samples=[dict(msg="cam", base="ne", altHAE=7000.0, expect_altitudeValue=sorted(M.altitude(7000.0))),
                 dict(msg="vam", base="sw", epx=12.0, epy=40.94, expect_major=sorted(M.semi_axis(40.94))),
                 dict(msg="cam", track=360.0, expect_headingValue=sorted(M.heading(360.0))),
                 dict(gdt_age_ms=65535, receive="wrap+1", expect="generation time reconstructed exactly")],
    )
    ctx.assumptions += [
        "mapping oracle mc/ref/cdd_map.py (value tables of TS 102 894-2 as quoted in the ASN.1 modules; two-way readings accepted as documented there)",
        "asn1tools decode of the emitted octets is trusted",
        "the orientation of the confidence ellipse is only checked for legality (gpsd epx/epy axis convention is not part of the statement)",
        "a VAM is optional for a first report that carries no position and for a later report that carries no time stamp or no position",
    ]


def replay(path):
    rec = json.load(open(path))
    print(json.dumps(rec["violation"], indent=1))
    rp = rec["replay"] or {}
    for k in ("cam", "vam", "denm"):
        F.coder(k)
    call = rp.get("call")
    bad = []
    if call == "value":
        tpv = mk_report(rp["base"], rp["over"])
        if rp["variant"] == "cam":
            bad = judge_cam(*gen_cam(tpv), tpv)
        else:
            bad = _gen_judge(rp["variant"], tpv)[1]
    elif call == "subset":
        tpv = mk_report(rp["base"], drop=rp["drop"])
        if rp["variant"] == "cam":
            bad = judge_cam(*gen_cam(tpv), tpv)
        else:
            bad = judge_vam(*gen_vam(tpv, second=rp["variant"] != "vam1", gap_ms=50 if rp["variant"] == "vam3" else 1000), tpv,
                            optional=rp["variant"] == "vam3" or not all(
                                k in tpv for k in (("lat", "lon") if rp["variant"] == "vam1" else ("time", "lat", "lon"))))
    elif call == "station":
        n, b, _ = _station_job((rp["msg"], [rp["station_type"]], [rp["role"]]))
        bad = [x[0] for x in b]
    elif call == "cluster":
        n, b, _ = _cluster_job((rp["phase"], [rp.get("delay_ms", 0)], [rp.get("cluster_id", 7)]))
        bad = [x[0] for x in b]
    elif call == "wrap":
        n, b, _ = _wrap_job((rp["msg"], rp["off"], rp["period"]))
        bad = [x[0] for x in b]
    elif call == "path":
        n, b, _ = _path_job((rp["base"], [tuple(rp["first"])], [tuple(rp["jump"])]))
        bad = [x[0] for x in b]
    elif call == "denm_eva":
        n, b, _ = _denm_job(("eva", [(rp["base"], rp["over"], tuple(rp["drop"]))]))
        bad = [x[0] for x in b]
    elif call == "denm_req":
        n, b, _ = _denm_job(("req", [(rp["heading"], rp["confidence"], rp["speed"])]))
        bad = [x[0] for x in b]
    elif rec["violation"].get("kind") in ("gdt_reconstruction", "reception_raises"):
        v = rec["violation"]
        n, bad = _recon_job(([v["receive_unix_ms"]], v["age_ms"], v["age_ms"] + 1))
    print(bad or "ok")
    return 1 if bad else 0
