"""C12 - the LDM behaves as a store of objects with registration gating and expiry (E1, lock-step reference map).

Every transition is ONE call into the real LDM (IF.LDM.3 / IF.LDM.4 request, `collect_trash`, or a virtual clock
advance).  After every transition the check observes the real LDM through
  * unfiltered IF.LDM.4 requests of a registered consumer for several type selections (and of consumers that are
    not registered: these must be refused),
  * `LDMMaintenance.get_provider_data(id)` for every identifier ever issued (the "map" view; skipped if absent),
  * the service's registry accessors (skipped if absent),
and compares with `mc.ref.ldm_model.RefStore`.  The oracle is three-valued per object: *must* be stored (valid,
inside the area of maintenance, not deleted), *may* be stored (validity lapsed but no explicit maintenance strictly
after the expiry second yet, or outside the area of maintenance), *gone* (delete acknowledged / swept by maintenance).
Any disagreement is reported and the branch is cut at that transition (`_cut`).
"""
from __future__ import annotations

import random
from collections import Counter

from mc import env  # noqa: F401
from mc.ref import ldm_model as R
from mc.worlds import ldm as L
from mc.worlds.ldm import APP, LdmWorld, ckey, is_exc

LEVEL = "model_checking"

MISSING_ID = 77
TYPESETS = ((2,), (1,), (16,), (1, 2, 14, 16))
OWN_PERM_MUST_REGISTER = {APP["CAM"], APP["DENM"], APP["VAM"], APP["CPM"]}


def _first_diff(a, b, path=""):
    """Dotted path of the first difference between two records (strict: tuple != list)."""
    if isinstance(a, dict) and isinstance(b, dict):
        for k in list(a.keys()) + [k for k in b if k not in a]:
            if k not in a or k not in b:
                return (path + "." + str(k)).lstrip(".")
            d = _first_diff(a[k], b[k], path + "." + str(k))
            if d:
                return d
        return None
    if type(a) is not type(b) or a != b:
        return path.lstrip(".") or "<root>"
    return None


class StoreModel:
    def __init__(self, name, setup, alphabet, max_objs, consumer, seed=0):
        self._pc, self._kc = {}, {}
        self.name, self.setup, self.max_objs, self.consumer = name, tuple(setup), max_objs, consumer
        self.alphabet = list(alphabet)
        random.Random(seed).shuffle(self.alphabet)

    # -- world ---------------------------------------------------------------------------------------------------
    def init(self):
        w = LdmWorld("Dictionary", probe_trash=True)
        w.ref = R.RefStore()
        w.ids = []            # identifiers in the order they were issued
        w.shared = []         # immutable message dictionaries (shared between snapshots)
        w.last = None
        w.setup_bad = []
        for ev in self.setup:
            self.apply(w, ev)
            w.setup_bad += self._compare(w, ev)
        return w

    def _msg(self, w, name, side="impl"):
        """One message object per (name, side) and world lineage; the implementation never sees the reference's copy."""
        for n, sd, m in w.shared:
            if n == name and sd == side:
                return m
        m = L.MSGS[name]()
        w.shared.append((name, side, m))
        return m

    def _loc(self, w, loc):
        for n, sd, m in w.shared:
            if n == loc and sd == "loc":
                return m
        spec = L.LOCS[loc]
        d = spec["d"]
        m = R.location_record(L.LDM_LAT + d[0], L.LDM_LON + d[1], L.LDM_ALT + d[2], ell=spec.get("ell", (0, 0, 0)))
        w.shared.append((loc, "loc", m))
        return m

    def enabled(self, w):
        out = []
        for ev in self.alphabet:
            if ev[0] == "add" and len(w.ids) >= self.max_objs:
                continue
            if ev[0] in ("upd", "del") and ev[2] != "x" and ev[2] >= len(w.ids):
                continue
            if ev[0] == "maint" and not w.can("maintenance"):
                continue
            out.append(ev)
        return out

    # -- canonical keys, cached (per reference record / per real record object within one transition) ---------------------
    def _okey(self, obj, fn=ckey):
        """Key of an object that is shared between snapshots and never mutated (reference-side messages/locations)."""
        hit = self._pc.get((id(obj), fn))
        if hit is None or hit[0] is not obj:
            hit = self._pc[(id(obj), fn)] = (obj, fn(obj))
        return hit[1]

    def _rkey(self, r):
        # same shape as ckey(r.record()), assembled from cached component keys
        return ("d", ("application_id", r.app), ("dataObject", self._okey(r.content)), ("location", self._okey(r.loc)),
                ("timeValidity", r.validity), ("timestamp", r.ts))

    def _ikey(self, rec):
        hit = self._kc.get(id(rec))
        if hit is None or hit[0] is not rec:
            hit = self._kc[id(rec)] = (rec, ckey(rec))
        return hit[1]

    def share(self, w):
        """Message dictionaries are never mutated in place (an update replaces them), so snapshots share them."""
        return [m for (_n, _s, m) in w.shared]

    # -- one transition: real call + reference step ------------------------------------------------------------------
    def apply(self, w, ev):
        self._kc = {}
        ref = w.ref
        op = ev[0]
        exp = dict(op=op)          # what the reference expects of the response
        got = None
        now = w.now
        if op in ("regp", "regp_bad"):
            app = ev[1]
            perms = (app,) if op == "regp" else (APP["CPM"] if app != APP["CPM"] else APP["CAM"],)
            got = w.reg_provider(app, perms)
            if not is_exc(got):
                ref.reg_provider(app, got == 0)
            exp.update(must_accept=(op == "regp" and app in OWN_PERM_MUST_REGISTER))
        elif op == "deregp":
            got = w.dereg_provider(ev[1])
            exp.update(ack=0 if ref.dereg_provider(ev[1]) else 1)
        elif op == "regc":
            got = w.reg_consumer(ev[1])
            if not is_exc(got):
                ref.reg_consumer(ev[1], got == 0)
            exp.update(must_accept=ev[1] in OWN_PERM_MUST_REGISTER)
        elif op == "deregc":
            got = w.dereg_consumer(ev[1])
            exp.update(ack=0 if ref.dereg_consumer(ev[1]) else 1)
        elif op == "add":
            _, app, mname, validity, loc = ev
            msg = self._msg(w, mname)
            got = w.add(app, msg, validity, loc)
            if w.reactive_collected:      # the reactive maintenance ran inside this add (seen by the probe): it counts as a maintenance run
                ref.maintenance(now)
            registered = app in ref.providers
            exp.update(registered=registered)
            if isinstance(got, int) and not isinstance(got, bool) and got != -1:
                exp.update(fresh=got not in ref.recs and got not in w.ids)
                if registered:
                    spec = L.LOCS[loc]
                    d = spec["d"]
                    locrec = self._loc(w, loc)
                    ref.add(got, app, L.its_ms(now), locrec, loc, self._msg(w, mname, "ref"), validity, now, spec["inside"])
                w.ids.append(got)
        elif op in ("upd", "del"):
            app, k = ev[1], ev[2]
            oid = MISSING_ID if k == "x" else w.ids[k]
            st = ref.status(oid, now)
            registered = app in ref.providers
            exp.update(registered=registered, target=st, oid=oid)
            if op == "upd":
                msg = self._msg(w, ev[3])
                rec = ref.recs.get(oid)
                same_type = rec is not None and R.msg_type(rec.content) == R.msg_type(msg)
                exp.update(same_type=same_type)
                got = w.update(app, oid, msg)
                if got == 0 and registered and st in ("must", "may"):
                    rec.set_content(self._msg(w, ev[3], "ref"))
            else:
                got = w.delete(app, oid)
                if got == 0 and registered and st in ("must", "may"):
                    ref.recs[oid].deleted = True
        elif op == "adv":
            w.advance(ev[1])
        elif op == "maint":
            runs = w.trash_probe.count if w.trash_probe else None
            got = w.maintenance()
            if runs is not None and w.trash_probe.count != runs + 1:
                raise RuntimeError("harness: maintenance probe did not see the explicit run")
            ref.maintenance(w.now)
        else:
            raise ValueError(ev)
        w.last = (exp, got)
        return got

    # -- oracle ------------------------------------------------------------------------------------------------------
    def check(self, w, ev, obs, hist):
        bad = self._compare(w, ev)
        if w.setup_bad:
            bad = [dict(kind="setup_failed", detail=str(w.setup_bad[0]))] + bad
        for b in bad:
            b["_cut"] = True
            b.setdefault("part", self.name)
        return bad

    def _compare(self, w, ev):
        exp, got = w.last
        ref, now, op = w.ref, w.now, ev[0]
        base = dict(op=op, ev=list(ev))
        out = []

        def v(kind, **kw):
            out.append(dict(kind=kind, **base, **kw))

        # (1) the response itself
        if is_exc(got):
            v("exception", exc=got[1], text=got[2])
        elif op in ("regp", "regp_bad", "regc"):
            if exp.get("must_accept") and got != 0:
                v("valid_registration_rejected", result=got)
        elif op in ("deregp", "deregc"):
            if got != exp["ack"]:
                v("deregistration_ack", got=got, expected=exp["ack"])
        elif op == "add":
            if not exp["registered"]:
                if got != -1:
                    v("unregistered_not_refused", result=got)
            elif not isinstance(got, int) or got == -1:
                v("add_refused", result=repr(got))
            elif not exp.get("fresh", True):
                v("identifier_reused", oid=got)
        elif op in ("upd", "del"):
            tgt = exp["target"]
            if not exp["registered"]:
                if got == 0:
                    v("unregistered_not_refused", result=got, target=tgt)
            elif tgt == "must":
                cross = op == "upd" and not exp["same_type"]
                if got != 0 and not (cross and got == 2):
                    v("update_refused" if op == "upd" else "delete_refused", result=got, target=tgt)
            elif tgt in ("gone", "never"):
                if got == 0:
                    v("unknown_identifier_accepted", result=got, target=tgt)
        res = dict(result=got if isinstance(got, int) else None, registered=exp.get("registered"))
        target = ref.recs.get(exp.get("oid")) if op == "del" else None

        def twin(r):     # is r an identical copy (content, timestamp, location, validity) of the object this delete named?
            return bool(target is not None and r is not target and self._rkey(r) == self._rkey(target))

        def has_twin(r):
            return any(o is not r and not o.must_absent() and self._rkey(o) == self._rkey(r) for o in ref.recs.values())

        # (2) the map view: every identifier ever issued
        id_view_ok = True
        for oid in w.ids:
            r = ref.recs.get(oid)
            have = w.get_by_id(oid)
            if have == "NOHOOK":
                id_view_ok = False
                break
            if is_exc(have):
                v("exception", exc=have[1], text=have[2], where="get_provider_data")
                continue
            if r is None:      # issued to an unregistered provider (already reported) - nothing must be stored
                if have is not None:
                    v("unregistered_request_had_effect", oid=oid)
                continue
            st = ref.status(oid, now)
            if have is None:
                if st == "must":
                    v("valid_object_missing", oid=oid, loc=r.locname, validity=r.validity, age=R.clock(now) - r.added, channel="id", twin=twin(r), **res)
            elif st == "gone":
                v("removed_object_kept", oid=oid, cause="delete_acknowledged" if r.deleted else "swept_by_maintenance", channel="id", twin=has_twin(r), **res)
            else:
                d = _first_diff(r.record(), have)
                if d:
                    v("record_mismatch", oid=oid, field=d, loc=r.locname, channel="id", target=exp.get("target"), **res)

        if not id_view_ok and op == "del" and got == 0 and target is not None and any(twin(r) and not r.must_absent() for r in ref.recs.values()):
            # without the by-id view it cannot be observed WHICH of several identical records a delete removed (deletion is by
            # record value, C12-K6): the reference cannot follow - prune this branch without a verdict
            out.append(dict(kind="ambiguous_twin_delete", **base))

        if not id_view_ok and self.consumer not in ref.consumers and op in ("add", "upd", "del", "maint"):
            # neither the by-id view nor a registered consumer: the effect of this transition on the store cannot be observed
            # now and would be attributed to a later transition - prune without a verdict
            out.append(dict(kind="unobservable_transition", **base))

        # (3) IF.LDM.4 requests
        recs_bad = any(o["kind"] in ("valid_object_missing", "removed_object_kept", "record_mismatch") for o in out)
        for app in (APP["CAM"], APP["DENM"], APP["BAD"]):
            for types in TYPESETS:
                if app != self.consumer and types != TYPESETS[0]:
                    continue
                q = w.request(app, types)
                if is_exc(q):
                    v("exception", exc=q[1], text=q[2], where="request_data_objects", types=list(types))
                    continue
                code, data = q
                if app not in ref.consumers:
                    if code == 0 or data:
                        v("unregistered_not_refused", where="request_data_objects", consumer=app, result=code)
                    continue
                if code != 0:
                    v("registered_consumer_refused", consumer=app, result=code)
                    continue
                if recs_bad and id_view_ok:
                    continue      # already attributed through the map view
                have = Counter(self._ikey(x) for x in data)
                must, may = Counter(), Counter()
                for r in ref.recs.values():
                    k = self._rkey(r)
                    if not r.must_absent():
                        may[k] += 1
                        if r.must_present(now) and R.msg_type(r.content) in types:
                            must[k] += 1
                lost = must - have
                extra = have - may
                if op == "upd" and (lost or extra) and not any(r.must_absent() and self._rkey(r) in extra for r in ref.recs.values()):
                    # (only without the by-id view) an update changed a record it should not have changed: same defect class
                    # as record_mismatch, the differing field cannot be named through the request channel
                    r = next((r for r in ref.recs.values() if self._rkey(r) in lost), None) or ref.recs.get(exp.get("oid"))
                    v("record_mismatch", oid=getattr(r, "oid", None), field="?", loc=getattr(r, "locname", None), channel="query",
                      target=exp.get("target"), **res)
                    recs_bad = True
                    continue
                if lost:
                    r = next(r for r in ref.recs.values() if self._rkey(r) in lost)
                    v("valid_object_missing", oid=r.oid, loc=r.locname, validity=r.validity, age=R.clock(now) - r.added, channel="query",
                      types=list(types), twin=twin(r), **res)
                if extra:
                    gone = [r for r in ref.recs.values() if r.must_absent() and self._rkey(r) in extra]
                    if gone:
                        v("removed_object_kept", oid=gone[0].oid, cause="delete_acknowledged" if gone[0].deleted else "swept_by_maintenance",
                          channel="query", twin=has_twin(gone[0]), **res)
                    else:
                        v("unexpected_object", channel="query", types=list(types), **res)
                    recs_bad = True
                if lost:
                    recs_bad = True

        # (4) registries
        regs = w.registries()
        if regs is not None:
            for name, have, want in (("provider", regs[0], ref.providers), ("consumer", regs[1], ref.consumers)):
                if set(have) != set(want):
                    lostr = sorted(set(want) - set(have))
                    v("registration_changed", registry=name, lost=lostr, gained=sorted(set(have) - set(want)),
                      lost_is_object_id=bool(op == "del" and lostr == [exp.get("oid")]), **res)
        return out

    # -- canonical state -------------------------------------------------------------------------------------------------
    def canon(self, w):
        """Projection through the PUBLIC interface only (no private attribute is named): the record stored under every
        identifier ever issued (get_provider_data) with its timestamp relative to the current clock second, the registries
        (service accessors), the time since the last reactive collection as observed by the probe (capped at the module's
        TRASH_COLLECTION_INTERVAL), the phase of `now` inside its second, plus the reference state and the identifiers issued.
        Two worlds with equal projections differ only by a shift of absolute time by whole seconds, which no LDM code path
        depends on; the identifier counter is a function of the issued identifiers / store, both part of the projection."""
        now = w.now
        frac = round(now - int(now), 3)
        base = L.its_ms(now)
        items = []
        for oid in w.ids:                       # the map view through LDMMaintenance.get_provider_data (public)
            rec = w.get_by_id(oid)
            if rec == "NOHOOK":
                items = None
                break
            if isinstance(rec, dict):
                k = self._ikey(rec)
                ts = rec.get("timestamp")
                items.append((oid, ts - base if isinstance(ts, int) else repr(ts),
                              tuple(x for x in k if not (isinstance(x, tuple) and x and x[0] == "timestamp"))))
            elif rec is not None:
                items.append((oid, "?", repr(L.bounded_digest(rec))))
        if items is None:                       # no by-id accessor: the multiset of stored records (public get_all_data_containers)
            allrecs = w.stored()
            items = ("multiset",) + tuple(sorted(repr(L.bounded_digest(r)) for r in allrecs)) if allrecs is not None else ("unobservable",)
        regs = w.registries()                   # public accessors of the service
        real = (tuple(items) if isinstance(items, list) else items,
                None if regs is None else (tuple(sorted(regs[0])), tuple(sorted(regs[1]))),
                # time since the last reactive collection as observed through the probe, capped at the collection interval
                min(round(now - w.last_reactive_trash, 3), L.TRASH_INTERVAL) if w.trash_probe else round(now - w.last_reactive_trash, 3))
        rc = list(w.ref.canon(now, digest=lambda c: self._okey(c, R._digest)))
        rc[2] = tuple(t if t[1] == "gone" else t[:4] + (max(t[4], -1),) + t[5:] for t in rc[2])
        return (real, frac, tuple(rc), tuple(w.ids))

    def outcome(self, w, obs):
        exp, got = w.last
        return (exp["op"], exp.get("target"), exp.get("registered"), got if isinstance(got, int) else type(got).__name__,
                tuple(sorted(Counter(w.ref.status(i, w.now) for i in w.ids).items())))


# ----------------------------------------------------------------------------------------------------------------
# parts
# ----------------------------------------------------------------------------------------------------------------
def parts(tier):
    th = tier == "thorough"
    A = APP
    gating = dict(
        name="gating", setup=(), max_objs=3, consumer=A["CAM"], depth=6 if th else 5,
        alphabet=[("regp", A["CAM"]), ("regp", A["DENM"]), ("regp", A["BAD"]), ("regp_bad", A["VAM"]), ("deregp", A["CAM"]), ("deregp", A["DENM"]),
                  ("regc", A["CAM"]), ("regc", A["BAD"]), ("deregc", A["CAM"]),
                  ("add", A["CAM"], "camA", 5, "near"), ("add", A["DENM"], "denmA", 5, "near"), ("add", A["VAM"], "vamA", 5, "near"),
                  ("upd", A["CAM"], 0, "camB"), ("upd", A["VAM"], 0, "camB"), ("del", A["CAM"], 0), ("del", A["DENM"], 1), ("del", A["VAM"], 0)])
    lifecycle = dict(
        name="lifecycle", setup=(("regp", A["CAM"]), ("regp", A["VAM"]), ("regc", A["CAM"])), max_objs=3, consumer=A["CAM"],
        depth=7 if th else 5,
        alphabet=[("add", A["CAM"], "camA", 0, "near"), ("add", A["CAM"], "camA", 1, "near"), ("add", A["CAM"], "camA", 5, "near"),
                  ("add", A["CAM"], "camC", 1, "own"), ("add", A["VAM"], "vamA", 1, "far"),
                  ("upd", A["CAM"], 0, "camB"), ("upd", A["CAM"], 1, "camB"), ("upd", A["CAM"], "x", "camB"),
                  ("del", A["CAM"], 0), ("del", A["CAM"], 1), ("del", A["CAM"], "x"),
                  ("adv", 0.4), ("adv", 1), ("adv", 5), ("maint",)])
    types = dict(
        name="types_locations", setup=(("regp", A["CAM"]), ("regp", A["DENM"]), ("regp", A["VAM"]), ("regp", A["CPM"]), ("regc", A["DENM"])),
        max_objs=4 if th else 3, consumer=A["DENM"], depth=6 if th else 5,
        alphabet=[("add", A["CAM"], "camL", 2, "ownell"), ("add", A["DENM"], "denmA", 2, "near"), ("add", A["VAM"], "vamA", 2, "far"),
                  ("add", A["CPM"], "cpmA", 2, "near"), ("add", A["DENM"], "denmB", 600, "far"),
                  ("upd", A["DENM"], 0, "denmB"), ("upd", A["CAM"], 1, "camA"), ("del", A["VAM"], 1), ("del", A["CPM"], 2),
                  ("adv", 1), ("adv", 2), ("maint",), ("deregp", A["DENM"]), ("deregc", A["DENM"]), ("regc", A["DENM"])])
    return [gating, lifecycle, types]


def _mk(name, setup, alphabet, max_objs, consumer, seed):
    return StoreModel(name, setup, alphabet, max_objs, consumer, seed)


def _model_for(part_name, tier="quick", seed=0):
    for p in parts(tier) + parts("thorough"):
        if p["name"] == part_name:
            return StoreModel(p["name"], p["setup"], p["alphabet"], p["max_objs"], p["consumer"], seed)
    raise KeyError(part_name)



# ----------------------------------------------------------------------------------------------------------------
# type sweep: every data-object type of the package's own public table, on both back-ends (small exhaustive lattice)
# ----------------------------------------------------------------------------------------------------------------
def type_table():
    """{type id: top-level key of a message of that type} from the package's public table (fallback: the four pool types)."""
    try:
        from flexstack.facilities.local_dynamic_map.ldm_constants import DATA_OBJECT_TYPE_ID
        return {int(k): str(v) for k, v in dict(DATA_OBJECT_TYPE_ID).items()}
    except Exception:  # noqa: BLE001
        return dict(L.TYPE_KEY)


def minimal_message(table, tid, station):
    return {"header": {"protocolVersion": 2, "messageId": tid, "stationId": station}, table[tid]: {"generationDeltaTime": station % 1000}}


def sweep_one(table, tid, backend, tmpdir=None):
    """One type on one back-end: register provider + consumer for it, add an object of the type (and a bystander of another
    type), unfiltered request for EVERY type of the table, update, requests again, delete, requests again.
    -> (real calls, observation digest rows, violation records)"""
    calls, rows, bad = 0, [], []
    other = next(t for t in sorted(table) if t != tid and t != 1)      # bystander type (never DENM: its provider needs no permission)
    w = LdmWorld(backend, db_dir=tmpdir, db_name=f"sweep_{tid}.json") if backend != "Dictionary" else LdmWorld("Dictionary")
    base = dict(type_id=tid, type_key=table[tid], backend=backend)

    def v(what, phase, **kw):
        bad.append(dict(kind="type_sweep", what=what, phase=phase, **base, **kw))

    def expected(content, other_content, ts, ts2):
        d = L.LOCS["near"]["d"]
        loc = R.location_record(L.LDM_LAT + d[0], L.LDM_LON + d[1], L.LDM_ALT + d[2])
        mine = None if content is None else {"application_id": tid, "timestamp": ts, "location": loc, "dataObject": content, "timeValidity": 60}
        by = {"application_id": other, "timestamp": ts2, "location": loc, "dataObject": other_content, "timeValidity": 60}
        return mine, by

    def requests(phase, mine, bystander):
        nonlocal calls
        for u in sorted(table):
            calls += 1
            q = w.request(tid, (u,))
            if is_exc(q):
                v("request_raises", phase, requested=u, exc=q[1], text=q[2])
                continue
            code, data = q
            have = Counter(ckey(x, strict=False) for x in data)
            want = Counter()
            if u == tid and mine is not None:
                want[ckey(mine, strict=False)] += 1
            if u == other:
                want[ckey(bystander, strict=False)] += 1
            rows.append((tid, backend, phase, u, code, len(data)))
            if code != 0:
                v("request_refused", phase, requested=u, result=code)
            elif have != want:
                if u == tid:
                    v("own_type_query_wrong", phase, requested=u, got_n=len(data), want_n=sum(want.values()), lost=bool(want - have), extra=bool(have - want))
                else:
                    v("other_type_query_wrong", phase, requested=u, got_n=len(data), want_n=sum(want.values()), lost=bool(want - have), extra=bool(have - want))

    try:
        for app in (tid, other):
            calls += 1
            if w.reg_provider(app) != 0:
                v("provider_registration_rejected", "setup", app=app)
        calls += 1
        if w.reg_consumer(tid, tuple(sorted(table))) != 0:
            v("consumer_registration_rejected", "setup")
        a, b, o = minimal_message(table, tid, 5000 + tid), minimal_message(table, tid, 6000 + tid), minimal_message(table, other, 7000 + other)
        ts = L.its_ms(w.now)
        calls += 2
        oid_o = w.add(other, minimal_message(table, other, 7000 + other), 60, "near")
        oid = w.add(tid, minimal_message(table, tid, 5000 + tid), 60, "near")
        if not (isinstance(oid, int) and oid >= 0 and isinstance(oid_o, int) and oid_o >= 0 and oid != oid_o):
            v("add_failed", "add", got=repr(oid), bystander=repr(oid_o))
            return calls, rows, bad
        requests("after_add", *expected(a, o, ts, ts))
        w.advance(1)
        calls += 1
        r = w.update(tid, oid, minimal_message(table, tid, 6000 + tid))
        if r != 0:
            v("update_refused", "update", result=repr(r))
            b = a
        requests("after_update", *expected(b, o, ts, ts))
        calls += 1
        r = w.delete(tid, oid)
        if r != 0:
            v("delete_refused", "delete", result=repr(r))
        else:
            requests("after_delete", *expected(None, o, ts, ts))
    finally:
        w.close()
    return calls, rows, bad


def type_sweep(ctx):
    import shutil
    import tempfile
    table = type_table()
    tmpdir = tempfile.mkdtemp(prefix="verif_c12_")
    calls, rows, n_bad = 0, [], 0
    try:
        for backend in ("Dictionary", "TinyDB"):
            for tid in sorted(table):
                c, r, bad = sweep_one(table, tid, backend, tmpdir)
                calls += c
                rows += r
                n_bad += len(bad)
                for rec in bad:
                    rec["part"] = "type_sweep"
                    ctx.violation(rec, replay=dict(part="type_sweep", type_id=tid, backend=backend))
    finally:
        shutil.rmtree(tmpdir, ignore_errors=True)
    import hashlib
    digest = hashlib.sha256(repr(rows).encode()).hexdigest()[:16]
    ctx.parts["type_sweep"] = dict(types=len(table), type_ids=sorted(table), backends=2, real_calls=calls, request_evaluations=len(rows),
                                   configurations=len(table) * 2 * 3, violations=n_bad, exhaustive=True)
    return calls, len(table) * 2 * 3, digest


def run(ctx):
    states = trans = xchecks = pruned = ambiguous = 0
    digests, samples, caps = [], [], []
    outcomes = set()
    complete = True
    plist = parts(ctx.tier)
    jobs = [dict(name=p["name"], depth=p["depth"], fargs=(p["name"], p["setup"], p["alphabet"], p["max_objs"], p["consumer"], ctx.seed))
            for p in plist]
    results = L.explore_parts(_mk, jobs, 2 if ctx.tier == "quick" else 3, max_violations=10**6)
    for p in plist:
        r = results[p["name"]]
        states += r.states
        trans += r.transitions
        xchecks += r.xchecks
        pruned += r.pruned
        digests.append((p["name"], r.digest()))
        samples.extend(r.samples[:1])
        outcomes |= r.outcomes
        if not r.complete and not str(r.cap_hit).startswith("depth"):
            complete = False
        if r.cap_hit:
            caps.append((p["name"], r.cap_hit))
        seen = set()
        for rec, hist in r.violations:
            rec.setdefault("part", p["name"])
            sig = (rec["kind"], rec.get("op"), rec.get("channel"), rec.get("loc"), rec.get("field"), rec.get("cause"), rec.get("result"),
                   rec.get("target"), rec.get("registry"), tuple(hist))
            if sig in seen:
                continue
            seen.add(sig)
            if rec["kind"] in ("ambiguous_twin_delete", "unobservable_transition"):      # not a verdict: coverage lost because the by-id accessor is unavailable
                ambiguous += 1
                continue
            ctx.violation(rec, replay=dict(part=p["name"], tier=ctx.tier, history=hist))
        ctx.parts[p["name"]] = dict(states=r.states, transitions=r.transitions, max_depth=r.max_depth, depth_bound=p["depth"],
                                    alphabet=len(p["alphabet"]), pruned_successors=r.pruned, xchecks=r.xchecks, outcomes=len(r.outcomes),
                                    graph_closed=r.complete, states_per_depth=r.depth_hist)
    sweep_calls, sweep_states, sweep_digest = type_sweep(ctx)
    states += sweep_states
    trans += sweep_calls
    digests.append(("type_sweep", sweep_digest))
    ctx.coverage.update(
        states=states, transitions=trans, traces_validated_against_impl=trans, replay_crosschecks=xchecks,
        pruned_successors_behind_findings=pruned, pruned_ambiguous_without_by_id_view=ambiguous, distinct_outcomes=len(outcomes), exhaustive=complete, caps=caps, state_digests=digests,
        samples=samples[:4] or [[["regp", 2], ["add", 2, "camA", 5, "near"]]],
        explanation=("every transition is one call into the real LDM facility built by LDMFactory (Dictionary back-end, reactive maintenance and "
                     "service) or a virtual clock advance; after every transition unfiltered IF.LDM.4 requests, get_provider_data(id) for every "
                     "issued identifier and the registries are compared with the reference map; states are canonical projections of the real "
                     "store/registries with relative times"),
    )
    ctx.assumptions += [
        "type sweep: the set of data-object types is the package's public table ldm_constants.DATA_OBJECT_TYPE_ID; a minimal message of a type is "
        "{header, <type key>: {...}}; the sweep also demands that a request for type u returns no object of another type",
        "reference map mc/ref/ldm_model.py:RefStore; validity lapses at added+validity seconds; an object MAY be missing from the lapse on and MUST "
        "be missing once an explicit maintenance ran in a later clock second (one-second clock resolution of the LDM)",
        "objects outside the area of maintenance (55 km away) may be dropped at any time; objects at the LDM position or 100 m away must be kept",
        "which registrations are acceptable is not part of the statement: the observed outcome of a registration is an input of the model "
        "(only 'own id in own permissions' must be accepted, to avoid vacuity)",
        "requests for type T may also return stored objects of other types here (type-exactness is C13's subject)",
    ]


def replay(path):
    import json
    rec = json.load(open(path))
    print(json.dumps(rec["violation"], indent=1))
    rp = rec["replay"]
    if rp["part"] == "type_sweep":
        import shutil
        import tempfile
        tmpdir = tempfile.mkdtemp(prefix="verif_c12_")
        try:
            _c, rows, bad = sweep_one(type_table(), rp["type_id"], rp["backend"], tmpdir)
        finally:
            shutil.rmtree(tmpdir, ignore_errors=True)
        for b in bad:
            print(json.dumps(b))
        return 1 if bad else 0
    m = _model_for(rp["part"], rp.get("tier", "quick"))
    w = m.init()
    bad = []
    for i, ev in enumerate(rp["history"]):
        ev = tuple(ev)
        obs = m.apply(w, ev)
        b = m._compare(w, ev)
        print(i, ev, "->", obs, [x["kind"] for x in b] or "ok")
        bad += b
    return 1 if bad else 0
