"""C17 - DEN service repeats an event's DENM on schedule with a stable, unique identity (E2 on a virtual clock + E3)."""
from __future__ import annotations

import math
import multiprocessing as mp

from mc import env  # noqa: F401
from mc import sched as SC
from mc.worlds import fullstack as F      # coder cache
from mc.worlds import stations as S

from flexstack.facilities.decentralized_environmental_notification_service.den_service import DecentralizedEnvironmentalNotificationService
from flexstack.facilities.ca_basic_service.cam_transmission_management import VehicleData
from flexstack.applications.road_hazard_signalling_service.emergency_vehicle_approaching_service import EmergencyVehicleApproachingService
from flexstack.applications.road_hazard_signalling_service.service_access_point import DENRequest
from flexstack.geonet.service_access_point import HeaderType, GeoBroadcastHST
from flexstack.btp.service_access_point import BTPDataIndication
from flexstack.facilities.local_dynamic_map.factory import LDMFactory
from flexstack.facilities.local_dynamic_map.ldm_classes import Location
from flexstack.facilities.local_dynamic_map import ldm_classes as LC

LEVEL = "model_checking"

# exact zeros included (equator / prime meridian: 0.0 is a coordinate, not "missing")
POSITIONS = [(41.386931, 2.112104), (0.0, 0.0), (-33.8688, 151.2093), (40.7128, -74.006), (-22.9068, -43.1729), (0.0000001, -0.0000001),
             (0.0, 2.5), (41.5, 0.0), (89.9, 179.9)]


class StubBTP:
    def __init__(self, sched):
        self.sched = sched
        self.requests = []       # (virtual time, controlled-thread id, request)
        self.callbacks = {}

    def btp_data_request(self, request):
        me = self.sched.me()
        self.requests.append((self.sched.now, me.id if me else -1, request))

    def register_indication_callback_btp(self, port, callback):
        self.callbacks[port] = callback


class DenHarness:
    def __init__(self, interval, duration, offsets, pos_idx, kind="eva", shared_service=True):
        self.interval, self.duration, self.offsets, self.pos_idx, self.kind, self.shared = interval, duration, offsets, pos_idx, kind, shared_service

    def setup(self, s):
        self.s = s
        self.btp = StubBTP(s)
        vd = VehicleData(station_id=7007, station_type=5)
        self.den = DecentralizedEnvironmentalNotificationService(btp_router=self.btp, vehicle_data=vd, ldm=None)
        self.svcs = []
        n = len(self.offsets)
        for k in range(n if not self.shared else 1):
            sv = EmergencyVehicleApproachingService(den_service=self.den, duration=self.duration)
            sv.denm_interval = self.interval
            self.svcs.append(sv)
        self.t0 = s.now
        self.trigger_times = []
        self.event_threads = []

    def _app(self):
        s = self.s
        for k, off in enumerate(self.offsets):
            wait = self.t0 + off / 1000.0 - s.now
            if wait > 0:
                s.sleep(wait)
            lat, lon = POSITIONS[(self.pos_idx + k) % len(POSITIONS)]
            before = len(s.threads)
            self.trigger_times.append(s.now)
            kind = self.kind if self.kind != "mix" else ("crw", "eva", "crw")[k % 3]
            n0 = len(self.btp.requests)
            if kind == "eva":
                sv = self.svcs[0 if self.shared else k]
                sv.trigger_denm_sending({"lat": lat, "lon": lon, "altHAE": 12.0 + 10.0 * k})
                self.event_threads.append(("eva", [t.id for t in s.threads[before:]]))
            else:
                # collision-risk warning: a single DENM sent synchronously by the application thread
                pos = LC.ReferencePosition(latitude=int(lat * 10000000), longitude=int(lon * 10000000),
                                           position_confidence_ellipse=LC.PositionConfidenceEllipse(4095, 4095, 3601),
                                           altitude=LC.Altitude(1200, "unavailable"))
                req = DENRequest.with_collision_risk_warning(LC.TimestampIts(int((s.now - 1072915200 + 5) * 1000)), pos)
                self.den.denm_transmission_management.send_collision_risk_warning_denm(req)
                me = s.me().id
                self.event_threads.append(("crw", [i for i in range(n0, len(self.btp.requests)) if self.btp.requests[i][1] == me]))

    def actors(self):
        return [("app", self._app)]

    def decoded(self):
        cod = F.coders()["denm"]
        out = []
        for t, tid, req in self.btp.requests:
            out.append((t, tid, req, cod.decode(req.data)))
        return out

    def outcome(self, s):
        return tuple((round(t - self.t0, 6), tid, len(req.data)) for t, tid, req in self.btp.requests)

    def check(self, s):
        bad = []
        base = dict(interval=self.interval, duration=self.duration, offsets=list(self.offsets), n_events=len(self.offsets))
        try:
            dec = self.decoded()
        except Exception as e:  # noqa: BLE001
            return [dict(kind="undecodable_denm", exc=repr(e)[:100], **base)]
        expect_n = math.ceil(self.duration / self.interval) if self.duration > 0 else 0
        action_ids = {}
        for k, (ekind, tids) in enumerate(self.event_threads):
            if ekind == "crw":
                mine = [(t, req, d) for i, (t, tid, req, d) in enumerate(dec) if i in tids]
                if len(mine) != 1:
                    bad.append(dict(kind="repetition_count", event=k, got=len(mine), expected=1, event_kind="crw", **base))
                for t, req, d in mine:
                    m = d["denm"]["management"]
                    lat, lon = POSITIONS[(self.pos_idx + k) % len(POSITIONS)]
                    if (m["eventPosition"]["latitude"], m["eventPosition"]["longitude"]) != (int(lat * 10000000), int(lon * 10000000)) or \
                            (req.gn_area.latitude, req.gn_area.longitude) != (int(lat * 10000000), int(lon * 10000000)) or req.destination_port != 2002:
                        bad.append(dict(kind="transport_request", event=k, index=0, event_kind="crw", port=req.destination_port,
                                        area=[req.gn_area.latitude, req.gn_area.longitude, req.gn_area.a], **base))
                    action_ids[k] = {(m["actionId"]["originatingStationId"], m["actionId"]["sequenceNumber"], d["header"]["stationId"])}
                continue
            mine = [(t, req, d) for t, tid, req, d in dec if tid in tids]
            lat, lon = POSITIONS[(self.pos_idx + k) % len(POSITIONS)]
            elat, elon = int(lat * 10000000), int(lon * 10000000)
            if len(mine) != expect_n:
                bad.append(dict(kind="repetition_count", event=k, got=len(mine), expected=expect_n, **base))
            tt = self.trigger_times[k]
            ids, refs = set(), []
            for j, (t, req, d) in enumerate(mine):
                if abs((t - tt) - j * self.interval / 1000.0) > 1e-6:
                    bad.append(dict(kind="repetition_time", event=k, index=j, got_ms=round((t - tt) * 1000, 3), expected_ms=j * self.interval, **base))
                    break
            for j, (t, req, d) in enumerate(mine):
                m = d["denm"]["management"]
                ids.add((m["actionId"]["originatingStationId"], m["actionId"]["sequenceNumber"], d["header"]["stationId"]))
                refs.append(m["referenceTime"])
                ep = m["eventPosition"]
                if ekind == "eva" and ep["altitude"]["altitudeValue"] != int((12.0 + 10.0 * k) * 100):
                    bad.append(dict(kind="event_position_changed", event=k, index=j, field="altitude", got=[ep["altitude"]["altitudeValue"]],
                                    expected=[int((12.0 + 10.0 * k) * 100)], later_event_triggered=any(x > tt for x in self.trigger_times), **base))
                    break
                if (ep["latitude"], ep["longitude"]) != (elat, elon):
                    bad.append(dict(kind="event_position_changed", event=k, index=j, got=[ep["latitude"], ep["longitude"]],
                                    expected=[elat, elon], later_event_triggered=any(x > tt for x in self.trigger_times), **base))
                    break
                ptt = req.gn_packet_transport_type
                if (req.destination_port != 2002 or ptt.header_type != HeaderType.GEOBROADCAST
                        or ptt.header_subtype != GeoBroadcastHST.GEOBROADCAST_CIRCLE
                        or (req.gn_area.latitude, req.gn_area.longitude) != (ep["latitude"], ep["longitude"]) or req.gn_area.a <= 0):
                    bad.append(dict(kind="transport_request", event=k, index=j, port=req.destination_port,
                                    area=[req.gn_area.latitude, req.gn_area.longitude, req.gn_area.a], **base))
                    break
            if len(ids) > 1:
                bad.append(dict(kind="action_id_not_stable", event=k, ids=sorted(ids), **base))
            if any(b < a for a, b in zip(refs, refs[1:])):
                bad.append(dict(kind="reference_time_decreases", event=k, **base))
            if ids and 7007 not in {i[0] for i in ids}:
                bad.append(dict(kind="wrong_station_id", event=k, **base))
            action_ids[k] = ids
        ks = [k for k in action_ids if action_ids[k]]
        for a in ks:
            for b in ks:
                if a < b and action_ids[a] & action_ids[b]:
                    bad.append(dict(kind="action_id_shared_between_events", events=[a, b], ids=sorted(action_ids[a] & action_ids[b]), **base))
        return bad


def mk(interval, duration, offsets, pos_idx, shared, kind="eva"):
    return DenHarness(interval, duration, tuple(offsets), pos_idx, kind, shared)


DEV = 2


def lattice_job(args):
    out = []
    n = 0
    outcomes = set()
    sched_points = 0
    capped_cfgs = []
    for cfg in args:
        interval, duration, offsets, pos_idx, shared = cfg[:5]
        kind = cfg[5] if len(cfg) > 5 else "eva"
        st = SC._new_stats()
        SC.ALL_DEVIATIONS = True     # equal wake-up times: every order with at most DEV departures from the default order
        SC.explore_subtree(lambda: mk(interval, duration, offsets, pos_idx, shared, kind), [], DEV, dict(scope=()), st, max_schedules=20000)
        SC.ALL_DEVIATIONS = False
        n += st["schedules"]
        sched_points = max(sched_points, st["max_points"])
        outcomes |= {hash(o) for o in st["outcomes"]}
        for rec, ch in st["violations"]:
            out.append((rec, dict(interval=interval, duration=duration, offsets=list(offsets), pos_idx=pos_idx, shared=shared, kind=kind, choices=ch)))
        if st["capped"]:
            capped_cfgs.append(list(cfg[:5]))
    return n, out, len(outcomes), sched_points, capped_cfgs


def race_job(args):
    """bytecode-level interleavings of two overlapping events inside the DEN transmission management (bound 1/2)"""
    bound = args
    SC.ALL_DEVIATIONS = False
    st = SC._new_stats()
    SC.explore_subtree(lambda: mk(100, 250, (0, 0), 0, False), [], bound,
                       dict(scope=("denm_transmission_management.py",)), st, max_schedules=60000)
    return st["schedules"], [(r, dict(interval=100, duration=250, offsets=[0, 0], pos_idx=0, shared=False, choices=c, scope="denm_tm"))
                             for r, c in st["violations"]], len(st["outcomes"]), st["max_points"]


def reception_part(ctx):
    """received DENMs over presence patterns of optional management fields -> stored in the LDM at the event position"""
    from itertools import product
    from flexstack.facilities.decentralized_environmental_notification_service.denm_transmission_management import \
        DecentralizedEnvironmentalNotificationMessage
    from mc.env import World
    cod = F.coders()["denm"]
    n = 0
    optional = ["termination", "relevanceDistance", "relevanceTrafficDirection", "TransmissionInterval", "validityDuration"]
    for lat, lon in POSITIONS + [(-89.9, -179.9)]:
        for mask in range(1 << len(optional)):
            w = World()
            with w:
                loc = Location.initializer(latitude=int(lat * 1e7), longitude=int(lon * 1e7))
                ldm = LDMFactory().create_ldm(loc, ldm_maintenance_type="Reactive", ldm_service_type="Reactive", ldm_database_type="Dictionary")
                stub = StubBTP(None)
                den = DecentralizedEnvironmentalNotificationService(btp_router=stub, vehicle_data=VehicleData(station_id=1), ldm=ldm)
                msg = DecentralizedEnvironmentalNotificationMessage()
                msg.fullfill_with_vehicle_data(VehicleData(station_id=4242, station_type=5))
                d = msg.denm
                m = d["denm"]["management"]
                m["eventPosition"]["latitude"], m["eventPosition"]["longitude"] = int(lat * 1e7), int(lon * 1e7)
                m["eventPosition"]["altitude"]["altitudeValue"] = 1200
                m["referenceTime"] = 650000000000
                m["detectionTime"] = 650000000000
                for i, name in enumerate(optional):
                    if not (mask >> i) & 1:
                        m.pop(name, None)
                n += 1
                rec = dict(lat=lat, lon=lon, present=[o for i, o in enumerate(optional) if (mask >> i) & 1])
                try:
                    data = cod.encode(d)
                except Exception as e:  # noqa: BLE001
                    ctx.violation(dict(kind="harness_encode_failed", exc=repr(e)[:80], **rec))
                    continue
                try:
                    stub.callbacks[2002](BTPDataIndication(destination_port=2002, data=data, length=len(data)))
                except Exception as e:  # noqa: BLE001
                    ctx.violation(dict(kind="reception_exception", exc=f"{type(e).__name__}: {str(e)[:80]}", n_present=len(rec["present"]), **rec), replay=rec)
                    continue
                found = _ldm_objects(ldm)
                ok = [o for o in found if _is_denm_at(o, int(lat * 1e7), int(lon * 1e7), 4242)]
                if len(ok) != 1:
                    ctx.violation(dict(kind="denm_not_in_ldm_at_event_position", stored=len(found), matching=len(ok), **rec), replay=rec)
    return n


def _ldm_objects(ldm):
    from flexstack.facilities.local_dynamic_map.ldm_classes import RequestDataObjectsReq, RegisterDataConsumerReq, AccessPermission, GeometricArea, Circle
    from flexstack.facilities.local_dynamic_map.ldm_constants import DENM
    try:
        ldm.if_ldm_4.register_data_consumer(RegisterDataConsumerReq(application_id=DENM, access_permisions=(AccessPermission.DENM,),
                                                                   area_of_interest=GeometricArea(circle=Circle(radius=5000), rectangle=None, ellipse=None)))
        resp = ldm.if_ldm_4.request_data_objects(RequestDataObjectsReq(application_id=DENM, data_object_type=(DENM,), priority=None,
                                                                       order=None, filter=None))
        return list(resp.data_objects)
    except Exception as e:  # noqa: BLE001
        return [("EXC", repr(e))]


def _is_denm_at(o, lat, lon, station):
    try:
        d = o["dataObject"] if isinstance(o, dict) and "dataObject" in o else o
        m = d["denm"]["management"]
        locok = True
        if isinstance(o, dict) and "location" in o:
            ref = o["location"].get("referencePosition", {}) if isinstance(o["location"], dict) else {}
            if ref:
                locok = (ref.get("latitude"), ref.get("longitude")) == (lat, lon)
        return d["header"]["stationId"] == station and (m["eventPosition"]["latitude"], m["eventPosition"]["longitude"]) == (lat, lon) and locok
    except Exception:  # noqa: BLE001
        return False


def run(ctx):
    thorough = ctx.tier == "thorough"
    intervals = [100, 150, 1000, 10000]
    durations = [0, 1, 99, 100, 101, 250, 1000, 60000] if thorough else [0, 1, 100, 101, 250, 1000]
    cfgs = []
    for i in intervals:
        for T in durations:
            if T / i > 700:
                continue
            for pos in range(len(POSITIONS) if thorough else 2):
                cfgs.append((i, T, (0,), pos, True))
            for offs in ((0, i // 2), (0, i), (0, 0), (0, i // 2, i), (0, i, 2 * i)):
                if T / i > 70:
                    continue        # long events are run alone (above): overlap orders are covered with the shorter durations
                if not thorough and (len(offs) > 2 and T / i > 3 or offs == (0, 0) and T / i > 5):
                    continue
                cfgs.append((i, T, offs, 0, True))
                cfgs.append((i, T, offs, 1, False))
    # emergency-vehicle and collision-risk events mixed (crw, eva, crw): identities must stay distinct
    for i in intervals:
        for T in ([100, 250, 1000] if not thorough else durations):
            if T / i > 70:
                continue
            for offs in ((0, i // 2, i), (0, 0, 0), (0, i, i)):
                cfgs.append((i, T, offs, 2, True, "mix"))
    F.coders()
    total = points = 0
    outcomes = 0
    jobs = [cfgs[k::64] for k in range(64)]
    with mp.Pool(16) as pool:
        capped = []
        for n, out, oc, sp, cc in pool.imap_unordered(lattice_job, jobs):
            capped += cc
            total += n
            outcomes += oc
            points = max(points, sp)
            for rec, rp in out:
                ctx.violation(rec, replay=rp)
        rb = [1] if not thorough else [1, 2]
        for n, out, oc, sp in pool.imap_unordered(race_job, rb):
            total += n
            outcomes += oc
            ctx.parts[f"race_two_events"] = dict(schedules=n, points=sp, bound=max(rb))
            for rec, rp in out:
                ctx.violation(rec, replay=rp)
    ctx.parts["lattice"] = dict(configurations=len(cfgs), schedules=total, max_decision_points=points, configurations_capped=capped)
    nrec = reception_part(ctx)
    ctx.parts["reception"] = dict(evaluations=nrec)
    ctx.coverage.update(
        states=outcomes, transitions=total + nrec, traces_validated_against_impl=total + nrec, exhaustive=not capped,
        samples=[dict(interval=100, duration=250, offsets=[0, 50], expect="3 DENMs per event at 0/100/200 ms after its trigger"),
                 dict(interval=1000, duration=1000, offsets=[0, 1000, 2000])],
        explanation=("every configuration of the interval x duration x overlap lattice is executed under the controlled scheduler on a "
                     "virtual clock (repetition threads are controlled threads, time.sleep is a scheduling point, equal wake-up times are "
                     "enumerated in every order); BTPDataRequests are recorded with virtual time stamps and decoded with the DENM coder; "
                     "plus bytecode-level interleavings of two overlapping events inside the transmission management, plus reception of "
                     "DENMs with every presence pattern of the optional management fields into a real LDM"))
    ctx.assumptions += ["events are attributed to their repetition thread", "DENM coder (asn1tools) trusted for decoding the emitted payloads"]


def replay(path):
    import json
    rec = json.load(open(path))
    print(json.dumps(rec["violation"], indent=1))
    rp = rec["replay"]
    if "interval" not in rp:
        return 1
    s, h, bad = SC.execute(lambda: mk(rp["interval"], rp["duration"], rp["offsets"], rp["pos_idx"], rp["shared"], rp.get("kind", "eva")), rp.get("choices", []),
                           dict(scope=("denm_transmission_management.py",) if rp.get("scope") else ()))
    for t, tid, req, d in h.decoded():
        m = d["denm"]["management"]
        print(round(t - h.t0, 3), tid, m["actionId"], m["eventPosition"]["latitude"], m["eventPosition"]["longitude"])
    print(bad or "ok")
    return 1 if bad else 0
