"""C20 - packet lifetime and hop budget on the wire honour the request (E3, exhaustive)."""
from __future__ import annotations

import multiprocessing as mp

from mc import env  # noqa: F401
from mc.ref import lifetime as RL
from mc.ref import gn_codec as G
from mc.worlds.stations import (Net, GNDataRequest, Area, PacketTransportType, HeaderType, TopoBroadcastHST,
                                GeoBroadcastHST, GeoAnycastHST, CommonNH, ResultCode)
from flexstack.geonet.service_access_point import HeaderSubType
from flexstack.geonet.basic_header import LT, BasicHeader, LTbase
from flexstack.geonet.mib import MIB, AreaForwardingAlgorithm

LEVEL = "exploration"


def _quant_chunk(args):
    lo, hi = args
    bad = []
    n = 0
    lt0 = LT()
    for v in range(lo, hi):
        n += 1
        try:
            lt = lt0.set_value_in_millis(v)
            got = lt.get_value_in_millis()
            code = lt.encode_to_int()
            wire = RL.decode(code) if 0 <= code <= 255 and 0 <= lt.multiplier <= 63 else -1
        except Exception as e:  # noqa: BLE001
            bad.append((v, "exception", repr(e), None))
            continue
        exp = RL.best(v)
        if wire != got:
            bad.append((v, "self_inconsistent", got, wire))
        elif got > v:
            bad.append((v, "exceeds", got, exp))
        elif v >= 50 and got == 0:
            bad.append((v, "zero", got, exp))
        elif got != exp:
            bad.append((v, "not_largest", got, exp))
    return n, bad


def _mk_req(kind, hop, life, dest=None):
    area = Area(latitude=410000000, longitude=20000000, a=100, b=50, angle=0)
    if kind == "shb":
        ptt = PacketTransportType(HeaderType.TSB, TopoBroadcastHST.SINGLE_HOP)
    elif kind.startswith("gbc"):
        ptt = PacketTransportType(HeaderType.GEOBROADCAST, GeoBroadcastHST(int(kind[-1])))
    elif kind.startswith("gac"):
        ptt = PacketTransportType(HeaderType.GEOANYCAST, GeoAnycastHST(int(kind[-1])))
    else:
        ptt = PacketTransportType(HeaderType.GEOUNICAST, HeaderSubType.UNSPECIFIED)
    kw = dict(upper_protocol_entity=CommonNH.BTP_B, packet_transport_type=ptt, data=b"\x07\xd1\x00\x00hi", length=6,
              area=area, max_hop_limit=hop, destination=dest)
    if life is not None:
        kw["max_packet_lifetime"] = life
    return GNDataRequest(**kw)


KINDS = ["shb", "gbc0", "gbc1", "gbc2", "gac0", "gac1", "gac2", "guc", "guc_ls"]


def _packet_chunk(args):
    """Emit real packets for (kind, default_hop, default_life) x hops x lifetimes; parse with reference."""
    kind, dhl, dlt, hops, lifes = args
    out = []
    n = 0
    distinct = set()
    for hop in hops:
        for life in lifes:
            net = Net()
            mk = dict(itsGnDefaultHopLimit=dhl, itsGnDefaultPacketLifetime=dlt,
                      itsGnAreaForwardingAlgorithm=AreaForwardingAlgorithm.SIMPLE, itsGnMaxGeoAreaSize=10)
            a = net.add("A", b"\x00\x00\x00\x00\x00\x0a", lat=41.0, lon=2.0, mib_kw=mk)
            b = net.add("B", b"\x00\x00\x00\x00\x00\x0b", lat=41.0001, lon=2.0001, mib_kw=mk)
            net.connect_all()
            dest = None
            if kind in ("guc", "guc_ls"):
                dest = b.addr
            if kind == "guc":
                # make B known at A through a beacon
                net.call(b.gn.gn_data_request_beacon)
                net.quiesce()
                net.sent.clear()
            n += 1
            req = _mk_req(kind, hop, life, dest)
            try:
                conf = net.call(a.gn.gn_data_request, req)
            except Exception as e:  # noqa: BLE001
                out.append(dict(kind="request_exception", transport=kind, hop=hop, life=life, dhl=dhl, dlt=dlt, exc=repr(e)[:200]))
                continue
            if conf.result_code != ResultCode.ACCEPTED:
                out.append(dict(kind="request_refused", transport=kind, hop=hop, life=life, code=str(conf.result_code)))
                continue
            try:
                net.quiesce(fire_timers=False)
            except Exception as e:  # noqa: BLE001
                out.append(dict(kind="delivery_exception", transport=kind, hop=hop, life=life, dhl=dhl, dlt=dlt, exc=repr(e)[:200]))
                continue
            frames = [f for (s, f) in net.sent if s == "A"]
            want = {"shb": "shb", "guc": "guc", "guc_ls": "guc"}.get(kind, kind[:3])
            mine = [G.parse(f) for f in frames]
            data = [p for p in mine if p.get("kind") == want]
            lsq = [p for p in mine if p.get("kind") == "ls_request"]
            if len(data) != 1:
                out.append(dict(kind="not_emitted_once", transport=kind, hop=hop, life=life, count=len(data)))
                continue
            req_ms = int(life * 1000) if life is not None else dlt * 1000
            for p, role in [(data[0], "data")] + [(q, "ls_request") for q in lsq]:
                bh, ch = p["basic"], p["common"]
                r_ms = req_ms if role == "data" else dlt * 1000
                exp_lt = RL.best(r_ms)
                distinct.add((kind, role, bh["lt"], bh["rhl"], ch["mhl"]))
                if bh["lt_ms"] != exp_lt:
                    cls = ("lt_exceeds" if bh["lt_ms"] > r_ms else "lt_zero" if (bh["lt_ms"] == 0 and r_ms >= 50)
                           else "lt_not_largest")
                    out.append(dict(kind=cls, transport=kind, role=role, requested_ms=r_ms, wire_ms=bh["lt_ms"], expected_ms=exp_lt))
                if role == "data" and kind == "shb":
                    exp_h = 1
                elif role == "data":
                    exp_h = hop if hop > 1 else dhl
                else:
                    exp_h = dhl
                if bh["rhl"] != exp_h or ch["mhl"] != exp_h:
                    out.append(dict(kind="hop_limit", transport=kind, role=role, requested_hop=hop, default_hop=dhl,
                                    rhl=bh["rhl"], mhl=ch["mhl"], expected=exp_h))
            # receiver side: remaining lifetime reported never exceeds the encoded one
            for ind in b.gn_indications:
                rpl = ind.remaining_packet_lifetime
                if rpl is not None and rpl * 1000 > data[0]["basic"]["lt_ms"] + 1e-9:
                    out.append(dict(kind="remaining_lifetime_exceeds", transport=kind, wire_ms=data[0]["basic"]["lt_ms"], reported_s=rpl))
                if ind.remaining_hop_limit is not None and ind.remaining_hop_limit > data[0]["basic"]["rhl"]:
                    out.append(dict(kind="remaining_hop_exceeds", transport=kind))
    return n, out, len(distinct)


from flexstack.geonet.gn_address import GNAddress as _GNA, M as _M, ST as _ST, MID as _MID
SRC_ADDR = _GNA(m=_M.GN_UNICAST, st=_ST.PASSENGER_CAR, mid=_MID(b"\x00\x00\x00\x00\x00\x0c"))


def _rhl_mhl_chunk(args):
    """All (RHL, MHL) pairs received for one packet kind: RHL>MHL must be discarded, else processed."""
    kind, rhls = args
    out = []
    n = 0
    delivered = 0
    so = b"\x14\x00" + b"\x00\x00\x00\x00\x00\x0c"
    for rhl in rhls:
        for mhl in range(256):
            net = Net()
            b = net.add("B", b"\x00\x00\x00\x00\x00\x0b", lat=41.0, lon=2.0,
                        mib_kw=dict(itsGnAreaForwardingAlgorithm=AreaForwardingAlgorithm.SIMPLE))
            tst = int((net.now - 1072915200 + 5) * 1000) % 2**32
            baddr = G.addr_encode(0, 5, b"\x00\x00\x00\x00\x00\x0b")
            extra = {}
            if kind in ("guc", "ls_reply"):
                extra["de"] = dict(addr=baddr, tst=tst, lat=410000000, lon=20000000)
            if kind == "ls_request":
                extra["req_addr"] = baddr
            pkt = G.build(kind, so_addr=so, so=dict(tst=tst, lat=410000000, lon=20000000, pai=1), sn=5, rhl=rhl, mhl=mhl,
                          nh=G.CNH_BTPB if kind not in ("beacon", "ls_request", "ls_reply") else G.CNH_ANY,
                          payload=b"\x07\xd1\x00\x00x" if kind not in ("beacon", "ls_request", "ls_reply") else b"",
                          area=dict(lat=410000000, lon=20000000, a=500, b=500, angle=0, shape=0), **extra)
            n += 1
            exc = None
            try:
                net.inject("B", pkt)
            except Exception as e:  # noqa: BLE001
                exc = e
            got = len(b.gn_indications)
            fw = len(net.sent)
            delivered += got
            learnt = b.gn.location_table.get_entry(SRC_ADDR) is not None     # any processing enters the source in the table
            if rhl > mhl:
                if got or fw or learnt:
                    out.append(dict(kind="rhl_gt_mhl_processed", transport=kind, rhl=rhl, mhl=mhl, delivered=got, forwarded=fw, learnt=learnt))
            else:
                if exc is not None:
                    out.append(dict(kind="valid_rhl_raises", transport=kind, rhl=rhl, mhl=mhl, exc=repr(exc)[:120]))
                elif kind in ("beacon", "ls_reply"):
                    if not learnt:
                        out.append(dict(kind="valid_rhl_not_processed", transport=kind, rhl=rhl, mhl=mhl))
                elif kind == "ls_request":
                    if fw != 1:
                        out.append(dict(kind="valid_rhl_not_processed", transport=kind, rhl=rhl, mhl=mhl, replies=fw))
                elif got != 1:
                    out.append(dict(kind="valid_rhl_not_delivered", transport=kind, rhl=rhl, mhl=mhl))
    return n, out, delivered


def run(ctx):
    thorough = ctx.tier == "thorough"
    top = 7_000_001 if thorough else 1_200_001
    pool = mp.Pool(16)
    try:
        # ---- part 1: quantiser, every requested lifetime --------------------------------
        step = 50_000
        chunks = [(lo, min(lo + step, top)) for lo in range(0, top, step)]
        if not thorough:
            extra = sorted({v for d in (1_000_000, 2_000_000, 6_300_000, 6_400_000, 7_000_000) for v in range(d - 2, d + 3)} |
                           set(range(1_200_000, 7_000_001, 9973)))
            chunks.append(None)
        total = 0
        bad_all = []
        for res in pool.imap_unordered(_quant_chunk, [c for c in chunks if c]):
            total += res[0]
            bad_all.extend(res[1])
        if not thorough:
            lt0 = LT()
            for v in extra:
                r = _quant_chunk((v, v + 1))
                total += r[0]
                bad_all.extend(r[1])
        for v, cls, got, exp in bad_all:
            ctx.violation(dict(kind="quantiser_" + cls, requested_ms=v, got_ms=got, expected_ms=exp),
                          replay=dict(call="LT().set_value_in_millis", arg=v))
        ctx.parts["quantiser"] = dict(evaluations=total, range=[0, top - 1], mismatches=len(bad_all), exhaustive=True)

        # ---- part 2: all 256 LT codes decode to the value their sender encoded -----------
        codes = 0
        for code in range(256):
            for rhl in (0, 1, 255):
                raw = G.basic_encode(1, 1, 0, code, rhl)
                codes += 1
                try:
                    bh = BasicHeader.decode_from_bytes(raw)
                    ms = bh.lt.get_value_in_millis()
                    back = bh.encode_to_bytes()
                except Exception as e:  # noqa: BLE001
                    ctx.violation(dict(kind="lt_decode_exception", code=code, exc=repr(e)))
                    continue
                if ms != RL.decode(code):
                    ctx.violation(dict(kind="lt_decode_value", code=code, got_ms=ms, expected_ms=RL.decode(code)))
                if back != raw:
                    ctx.violation(dict(kind="lt_reencode", code=code, got=back.hex(), expected=raw.hex()))
        ctx.parts["lt_codes"] = dict(evaluations=codes)

        # ---- part 3: MIB default lifetimes through every basic-header initialiser ----------
        mibn = 0
        for dlt in range(1, 601 if thorough else 601):
            mib = MIB(itsGnDefaultPacketLifetime=dlt)
            for name, bh in (("mib_and_rhl", BasicHeader.initialize_with_mib_and_rhl(mib, 1)),
                             ("mib_request_and_rhl", BasicHeader.initialize_with_mib_request_and_rhl(mib, None, 3)),
                             ("mib", BasicHeader.initialize_with_mib(mib))):
                mibn += 1
                ms = RL.decode(bh.encode_to_bytes()[2])
                if ms != RL.best(dlt * 1000):
                    cls = "exceeds" if ms > dlt * 1000 else "zero" if ms == 0 else "not_largest"
                    ctx.violation(dict(kind="mib_default_" + cls, init=name, requested_ms=dlt * 1000, got_ms=ms, expected_ms=RL.best(dlt * 1000)))
        ctx.parts["mib_defaults"] = dict(evaluations=mibn)

        # ---- part 4: really emitted packets -----------------------------------------------
        hops = [0, 1, 2, 3, 9, 10, 11, 254, 255] if not thorough else list(range(256))
        lifes = [None, 0.0, 0.049, 0.05, 0.1, 0.45, 0.5, 0.999, 1.0, 1.5, 3.2, 9.9, 10.0, 63.0, 64.0, 60.0, 100.0, 599.0,
                 600.0, 630.0, 640.0, 1000.0, 6300.0, 7000.0]
        defaults = [(10, 60), (1, 1), (3, 7)] if not thorough else [(10, 60), (1, 1), (3, 7), (2, 600), (255, 33)]
        jobs = []
        for kind in KINDS:
            for (dhl, dlt) in defaults:
                for i in range(0, len(hops), 8):
                    jobs.append((kind, dhl, dlt, hops[i:i + 8], lifes))
        pn = 0
        dist = 0
        for n, out, d in pool.imap_unordered(_packet_chunk, jobs):
            pn += n
            dist += d
            for rec in out:
                ctx.violation(rec, replay=rec)
        ctx.parts["emitted_packets"] = dict(evaluations=pn, transports=KINDS, hops=len(hops), lifetimes=len(lifes), mib_defaults=defaults)

        # ---- part 5: all RHL x MHL pairs at the receiver ---------------------------------
        kinds5 = ["shb", "tsb", "gbc", "beacon", "guc", "ls_request"] if not thorough else ["shb", "tsb", "gbc", "gac", "beacon", "guc", "ls_request", "ls_reply"]
        jobs = [(k, list(range(r, min(r + 16, 256)))) for k in kinds5 for r in range(0, 256, 16)]
        rn = 0
        dl = 0
        for n, out, d in pool.imap_unordered(_rhl_mhl_chunk, jobs):
            rn += n
            dl += d
            for rec in out:
                ctx.violation(rec, replay=rec)
        ctx.parts["rhl_mhl_pairs"] = dict(evaluations=rn, delivered=dl, kinds=kinds5)
    finally:
        pool.close()
        pool.join()

    ctx.coverage.update(
        evaluations=total + codes + mibn + pn + rn,
        distinct_nontrivial=total + codes + mibn + dist + rn,
        rule=("every integer lifetime request in the stated range through LT.set_value_in_millis, all 256 LT codes, "
              "every MIB default 1..600 s, emitted packets of every transport type x hop limits x lifetimes parsed by the "
              "reference codec, all 256x256 (RHL,MHL) pairs per kind; a case is distinct by its input tuple, all are non-trivial "
              "(each is compared against the reference quantiser / reference parser)"),
        samples=[dict(requested_ms=3200, expected_ms=RL.best(3200)), dict(requested_ms=999, expected_ms=RL.best(999)),
                 dict(transport="gbc0", hop=3, life=1.5), dict(kind="tsb", rhl=5, mhl=4, expect="discard")],
        exhaustive=True,
    )
    ctx.assumptions += ["reference quantiser mc/ref/lifetime.py (max over the 256 codes)", "reference parser mc/ref/gn_codec.py"]


def replay(path):
    import json
    rec = json.load(open(path))
    print(json.dumps(rec, indent=1))
    r = rec.get("replay") or {}
    if r.get("call") == "LT().set_value_in_millis":
        lt = LT().set_value_in_millis(r["arg"])
        print("real code ->", lt.get_value_in_millis(), "expected", RL.best(r["arg"]))
        return 0 if lt.get_value_in_millis() == RL.best(r["arg"]) else 1
    return 0
