"""C18 - VRU clustering state machine stays consistent and never silences a VRU for good (E1, model checking).

World A  explicit-state BFS over event histories of ONE real VBSClusteringManager (alphabet of the property's
         quantifier, 50 ms clock lattice).  Oracles, each exactly as strong as the statement:
           I1  leader  <=> owns a cluster, and an owned cluster has id 1..255 and cardinality >= 1
           I2  passive <=> joined to a cluster; a joined cluster has a known leader and an armed leader-lost timer
           I3  should_transmit_vam() is False only in PASSIVE / IDLE
           N   join / leave / break-up notification containers, once shown, stay for their specified duration
               (timeClusterJoinNotification / LeaveNotification / BreakupWarning) and are gone after the first
               update() at or after its end; only role-off (all), cancel/leave commands (join) and a newer leave
               notification (leave) may end one early
           J   while a join is waiting for its acknowledgement, a received cluster VAM advertising the target id
               completes it (hand-built dict AND real encode->decode output)
           W   a VAM that went through the real coder drives the manager exactly like the hand-built dict of the
               unit tests carrying the same content (differential on a copy of the pre-state)
           P1  probe on a COPY of every reachable passive state: leader silent for timeClusterContinuity (with and
               without VAMs of other stations in between), then update() => stand-alone and transmitting
           P2  probe: break-up announcement of the leader (every reason, dict and real-coder form), then update()
               => stand-alone and transmitting
World B  controlled-schedule BFS (every delivery order) over two and three COMPLETE VRUAwarenessService objects on an
         in-memory BTP loop, real VAMs only:  every location callback in a transmitting state emits exactly one VAM
         that the real coder decodes and that carries the manager's containers; none while passive/idle; a cluster VAM
         delivered to a peer is reflected in the peer's manager; a join towards the advertised cluster completes;
         members return to stand-alone and transmit again after break-up / leader loss.  Plus the complete 50 ms
         lattice of emission instants inside each notification window.

A violation behind which model and implementation have diverged cuts that branch (``_cut``); pruned successors are
counted in the evidence.
"""
from __future__ import annotations

import collections
import json
import multiprocessing as mp
import random

from mc import env  # noqa: F401
from mc import explore as X
from mc.worlds import vru as V
from mc.worlds.vru import VC, VBSState, ClusterLeaveReason, ClusterBreakupReason, ticks

LEVEL = "model_checking"

OWN, LDR, OTH = 10, 50, 60
GHOSTS = (71, 72, 73)
ADV, UNK = 7, 9
WHO = {"L": LDR, "O": OTH}

D_JOIN = ticks(VC.TIME_CLUSTER_JOIN_NOTIFICATION)
D_WAIT = ticks(VC.TIME_CLUSTER_JOIN_SUCCESS)
D_LEAVE = ticks(VC.TIME_CLUSTER_LEAVE_NOTIFICATION)
D_BREAK = ticks(VC.TIME_CLUSTER_BREAKUP_WARNING)
D_CONT = ticks(VC.TIME_CLUSTER_CONTINUITY)
D_NEAR = ticks(VC.T_GENVAMMAX / 1000.0)
D_UNIQ = ticks(VC.TIME_CLUSTER_UNIQUENESS_THRESHOLD)
DUR = {"join": D_JOIN, "leave": D_LEAVE, "breakup": D_BREAK}
# Durations are the values of vam_constants.py (Table 15 of TS 103 300-3 as cited there: 3 s / 0.5 s / 1 s / 3 s / 2 s).
# The standard could not be consulted offline; the code's values are pinned and the oracle follows them.

CPM = ClusterBreakupReason.RECEPTION_OF_CPM_CONTAINING_CLUSTER.value
BK_NORMAL = ClusterBreakupReason.CLUSTERING_PURPOSE_COMPLETED.value
ALL_BREAKUP_REASONS = [r.value for r in ClusterBreakupReason]

STEPS = (1, 10, 20, 40, 60)     # 0.05, 0.5, 1, 2, 3 s

# received-VAM kinds: single containers and COMBINED ones (what real stations emit: a leader's break-up VAM is a
# cluster VAM, i.e. information + operation container; a leader can carry the join/leave info of its own other
# procedures; a member leaving one cluster to join another carries join + leave info in one operation container)
RX_KINDS = ("plain", "info", "info0", "joinreq", "leavereq", "joinleave", "bkop",        # plain (+ operation container)
            "bk", "bkcpm", "bk0", "info+join", "info+leave")                             # cluster info + operation container
RX_WITH_INFO = ("info", "info0", "bk", "bkcpm", "bk0", "info+join", "info+leave")
RX_WITH_BREAKUP = ("bkop", "bk", "bkcpm", "bk0")
RX_ONLY_OTHER = ("info0", "bk0")      # cluster id 0 is advertised by O only


def alphabet():
    a = [("role", "on"), ("role", "off"),
         ("create", "absent")] + [("create", "present", c) for c in V.DRAW_MENU] + [      # id draw resolved against the requested bounds
         ("join", "adv"), ("join", 0), ("join", "unk"),
         ("cancel",),
         ("leave", ClusterLeaveReason.NOT_PROVIDED.value), ("leave", ClusterLeaveReason.SAFETY_CONDITION.value),
         ("breakup", ClusterBreakupReason.NOT_PROVIDED.value), ("breakup", CPM),
         ("update",)]
    a += [("tick", n) for n in STEPS]
    for kind in RX_KINDS:
        for who in ("L", "O"):
            if kind in RX_ONLY_OTHER and who == "L":
                continue
            for form in ("dict", "wire"):
                a.append(("rx", kind, who, form))
    return a


class HarnessError(RuntimeError):
    pass


# ------------------------------------------------------------------------------------------------
# observation of the real manager (public API + the anchored state of vru_clustering.py:315-346)
# ------------------------------------------------------------------------------------------------
def op_parts(op):
    """(kind -> identity) of the notifications shown by a VruClusterOperationContainer dict."""
    out = {}
    if not op:
        return out
    if op.get("clusterJoinInfo") is not None:
        out["join"] = (op["clusterJoinInfo"].get("clusterId"),)
    if op.get("clusterLeaveInfo") is not None:
        out["leave"] = (op["clusterLeaveInfo"].get("clusterId"), op["clusterLeaveInfo"].get("clusterLeaveReason"))
    if op.get("clusterBreakupInfo") is not None:
        out["breakup"] = (op["clusterBreakupInfo"].get("clusterBreakupReason"),)
    return out


def observe(w, mgr=None):
    """Everything the check knows about a manager comes from here: the PUBLIC API of VBSClusteringManager."""
    m = mgr if mgr is not None else w.mgr
    with w:
        st = m.state
        tx = m.should_transmit_vam()
        op = m.get_cluster_operation_container()
        info = m.get_cluster_information_container()
        cid = m.get_cluster_id()
        nv = m.get_nearby_vru_count()
        nc = m.get_nearby_cluster_count()
    return dict(state=st.name, tx=bool(tx), op=op, info=info, cid=cid, notif=op_parts(op), near_vrus=nv, near_clusters=nc)


def info_summary(info):
    if info is None:
        return None
    vci = info.get("vruClusterInformation", {})
    return (vci.get("clusterId"), vci.get("clusterCardinalitySize"))


def time_fields(op):
    op = op or {}
    return ((op.get("clusterJoinInfo") or {}).get("joinTime"), (op.get("clusterBreakupInfo") or {}).get("breakupTime"))


def public_view(ob):
    """Hashable digest of one public observation."""
    return (ob["state"], ob["tx"], tuple(sorted(ob["notif"].items())), time_fields(ob["op"]), info_summary(ob["info"]),
            ob["cid"], ob["near_vrus"], ob["near_clusters"])


PUBLIC_FIELDS = ("state", "should_transmit", "operation_container", "time_field", "information_container", "cluster_id",
                 "nearby_vru_count", "nearby_cluster_count")


def view_diff(a, b):
    return ",".join(PUBLIC_FIELDS[i] for i in range(len(a)) if a[i] != b[i])


# -- optional view of the anchored private state, found by EXPERIMENT, not by name ------------------------------------
# The statement names internal state (own cluster, joined cluster / leader / last leader VAM time).  Attribute names are
# not part of any contract, so they are never spelled here.  Once per process a calibration run on a fresh manager
# (join a cluster with a distinctive id via a distinctive leader, then role-off; create a cluster, then role-off) looks
# at the manager's OWN instance dictionary (one level, no graph walk) and keeps an attribute for a role only if exactly
# one attribute shows that role's value pattern.  Roles that cannot be identified are simply not checked (the public
# oracles and the liveness probes remain); nothing ever fails because of a rename.
_ROLES = None
_CAL_CLUSTER, _CAL_LEADER, _CAL_OWN_CLUSTER = 201, 54321, 203


def discover_roles():
    global _ROLES
    if _ROLES is not None:
        return _ROLES
    roles = {}
    try:
        lat, lon = V.pos_of(OWN)
        w = V.ManagerWorld(OWN)
        m = w.mgr
        s0 = dict(vars(m))
        with w:
            m.initiate_join(_CAL_CLUSTER)
        s1 = dict(vars(m))
        w.step(D_JOIN)
        with w:
            m.update(lat, lon, 1.0, 90.0)
            m.on_received_vam(V.test_style_vam(_CAL_LEADER, info=V.cluster_info(_CAL_CLUSTER, shape="dict")))
        t_join = w.now
        s2 = dict(vars(m))
        passive = m.state is VBSState.VRU_PASSIVE
        with w:
            m.set_vru_role_off()
        s3 = dict(vars(m))

        def unique(pred):
            c = [n for n in s0 if n in s1 and n in s2 and n in s3 and pred(s0[n], s1[n], s2[n], s3[n])]
            return c[0] if len(c) == 1 else None

        def is_val(x, v):
            return type(x) is type(v) and x == v
        if passive:
            roles["joined"] = unique(lambda a, b, c, d: a is None and b is None and is_val(c, _CAL_CLUSTER) and d is None)
            roles["leader"] = unique(lambda a, b, c, d: a is None and b is None and is_val(c, _CAL_LEADER) and d is None)
            roles["timer"] = unique(lambda a, b, c, d: a is None and b is None and is_val(c, t_join) and d is None)
        w = V.ManagerWorld(OWN)
        m = w.mgr
        c0 = dict(vars(m))
        with V.Draws(_CAL_OWN_CLUSTER):
            with w:
                for g in GHOSTS:
                    m.on_received_vam(V.test_style_vam(g))
                m.try_create_cluster(lat, lon)
        c1 = dict(vars(m))
        leader = m.state is VBSState.VRU_ACTIVE_CLUSTER_LEADER
        with w:
            m.set_vru_role_off()
        c2 = dict(vars(m))
        if leader:
            cand = [n for n in c0 if c0[n] is None and c2.get(n) is None and c1.get(n) is not None
                    and not isinstance(c1[n], (bool, int, float, str, bytes))]
            roles["cluster"] = cand[0] if len(cand) == 1 else None
    except Exception:  # noqa: BLE001 - calibration is an optimisation, never a reason to fail
        roles = {}
    _ROLES = {k: v for k, v in roles.items() if v}
    return _ROLES


_MISSING = object()


def invariants(m, ob):
    """I1-I3 on one state: public API, plus the discovered anchored attributes where available."""
    out = []
    st = ob["state"]
    is_leader = st == "VRU_ACTIVE_CLUSTER_LEADER"
    is_passive = st == "VRU_PASSIVE"
    # I1
    info = ob["info"]
    if is_leader != (info is not None):
        out.append(dict(kind="inv_leader_iff_info_container", state=st, has_info=info is not None))
    if info is not None:
        cid, card = info_summary(info)
        if not (isinstance(cid, int) and not isinstance(cid, bool) and 1 <= cid <= 255):
            # nothing behind such a state is meaningful (the harness cannot even address the cluster on the air)
            out.append(dict(kind="inv_cluster_id_range", state=st, cluster_id=cid, where="container", _cut=True))
        if not (isinstance(card, int) and not isinstance(card, bool) and card >= 1):
            out.append(dict(kind="inv_cardinality", state=st, cardinality=card, where="container"))
        if is_leader and ob["cid"] != cid:
            out.append(dict(kind="inv_info_container_mismatch", state=st, api=ob["cid"], container=cid))
    if is_leader and ob["cid"] is None:
        out.append(dict(kind="inv_leader_iff_owns_cluster", state=st, owns=False))
    # I2
    if is_passive and ob["cid"] is None:
        out.append(dict(kind="inv_passive_iff_joined", state=st, joined=None, where="api"))
    if not (is_passive or is_leader) and ob["cid"] is not None:
        out.append(dict(kind="inv_cluster_id_outside_cluster", state=st, api=ob["cid"]))
    # I3
    if not ob["tx"] and st not in ("VRU_PASSIVE", "VRU_IDLE"):
        out.append(dict(kind="inv_suppressed_outside_passive_idle", state=st))
    # anchored state (only for the roles the calibration could identify)
    roles = discover_roles()
    if roles:
        d = vars(m)
        cl = d.get(roles.get("cluster"), _MISSING)
        if cl is not _MISSING and is_leader != (cl is not None):
            out.append(dict(kind="inv_leader_iff_owns_cluster", state=st, owns=cl is not None))
        joined = d.get(roles.get("joined"), _MISSING)
        if joined is not _MISSING:
            if is_passive != (joined is not None):
                out.append(dict(kind="inv_passive_iff_joined", state=st, joined=joined))
            if is_passive and ob["cid"] != joined:
                out.append(dict(kind="inv_passive_cluster_id_api", state=st, api=ob["cid"], joined=joined))
            member = is_passive or joined is not None
            if member and d.get(roles.get("leader"), _MISSING) is None:
                out.append(dict(kind="inv_passive_without_leader", state=st))
            if member and d.get(roles.get("timer"), _MISSING) is None:
                out.append(dict(kind="inv_passive_without_timer", state=st))
    return out


# ------------------------------------------------------------------------------------------------
# canonical state = public observation + what the HARNESS knows about the history (no private attribute)
# ------------------------------------------------------------------------------------------------
def canon_a(w, horizon_ticks):
    """Canonical state of World A.

    Part 1, the public observation: VBS state, transmit gate, operation container (identities and the quarter-second
    time fields), information container (cluster id, cardinality), cluster id.
    Part 2, harness knowledge of the history, all as ages on the 50 ms lattice saturated at the one duration each is
    compared with: running notifications (kind, identity, age), join procedure (phase, target, age), station on record
    as leader and its silence, members that announced themselves to the own cluster, age of the block of three ghost
    VRUs, recently delivered cluster ids (ages only if the longest history can reach timeClusterUniquenessThreshold).

    Why merged states have equal futures (for an implementation whose hidden state is a function of its inputs, which
    is what any canonical projection assumes): the manager's hidden state consists of time stamps of exactly those
    events, which it reads only through `now - t >= duration` / max(0, duration - (now - t)); the sets of pending members
    and seen ids; and tables that no decision reads (nearby clusters) or that cannot tip a decision in this world
    (nearby-VRU entries of L and O: 2 < NUM_CREATE_CLUSTER, the ghosts come and age as a block of 3).  The public
    nearby counts are therefore NOT part of the key.  If an implementation has more hidden state than that, merging
    only reduces what is explored below the merged state; it can never produce an alarm."""
    ob = w.obs
    pub = (ob["state"], ob["tx"], tuple(sorted(ob["notif"].items())), time_fields(ob["op"]), info_summary(ob["info"]), ob["cid"])
    return (pub, mon_key(w, horizon_ticks),
            None if w.ghost_k is None else min(w.k - w.ghost_k, D_NEAR), w.members)


def mon_key(w, horizon_ticks):
    return (tuple(sorted((k, v[0], min(w.k - v[1], DUR[k])) for k, v in w.open.items())),
            None if w.joinphase is None else (w.joinphase[0], w.joinphase[1],
                                              min(w.k - w.joinphase[2], D_JOIN if w.joinphase[0] == "notify" else D_WAIT)),
            w.leader, None if w.leader_rx_k is None else min(w.k - w.leader_rx_k, D_CONT),
            tuple(sorted((c, min(w.k - k0, D_UNIQ) if horizon_ticks >= D_UNIQ else 0) for c, k0 in w.seen.items())))


# ------------------------------------------------------------------------------------------------
# World A model
# ------------------------------------------------------------------------------------------------
def rx_containers(kind, own_cluster_id, shape):
    """(info, op) of the received VAM of an rx event."""
    target = own_cluster_id if own_cluster_id is not None else ADV
    if kind == "plain":
        return None, None
    if kind == "info":
        return V.cluster_info(ADV, shape=shape), None
    if kind == "info0":
        return V.cluster_info(0, shape=shape), None
    if kind == "joinreq":
        return None, V.op_join(target)
    if kind == "leavereq":
        return None, V.op_leave(target)
    if kind == "bk":       # a leader's break-up VAM is a cluster VAM: information + operation container
        return V.cluster_info(ADV, shape=shape), V.op_breakup(BK_NORMAL)
    if kind == "bkcpm":
        return V.cluster_info(ADV, shape=shape), V.op_breakup(CPM)
    if kind == "bk0":
        return V.cluster_info(0, shape=shape), V.op_breakup(BK_NORMAL)
    if kind == "bkop":     # break-up indication without information container (as the unit tests build it)
        return None, V.op_breakup(BK_NORMAL)
    if kind == "joinleave":
        return None, dict(V.op_join(target), **V.op_leave(target, "joiningAnotherCluster"))
    if kind == "info+join":
        return V.cluster_info(ADV, shape=shape), V.op_join(target)
    if kind == "info+leave":
        return V.cluster_info(ADV, shape=shape), V.op_leave(target)
    raise ValueError(kind)


_RX_CACHE: dict = {}


def make_rx(kind, own_cluster_id, sender, form):
    """The received VAM of an rx event: hand-built dict as in the unit tests, or REAL coder output (encode then decode).
    Decoded dicts are cached per process: the manager only reads them."""
    key = (kind, own_cluster_id, sender, form)
    hit = _RX_CACHE.get(key)
    if hit is None:
        if form == "dict":
            info, op = rx_containers(kind, own_cluster_id, "dict")
            vam = V.test_style_vam(sender, info=info, op=op)
        else:
            info, op = rx_containers(kind, own_cluster_id, "tuple")
            vam = V.through_coder(V.full_vam(sender, info=info, op=op))
        info_id = info["vruClusterInformation"]["clusterId"] if info else None
        hit = _RX_CACHE[key] = (vam, info_id)
    return hit


def sig_of(rec):
    return json.dumps(rec, sort_keys=True, default=repr)


class Aggregator:
    """Violations are aggregated per distinct record (count + shortest history) inside each process; the explorer only
    gets a ``_cut`` marker, so a defect that shows at every state cannot crowd other violations out of the lists."""

    def __init__(self):
        self.agg = {}

    def take(self, recs, hist):
        cut = False
        for rec in recs:
            if rec.pop("_cut", False):
                cut = True
            s = sig_of(rec)
            a = self.agg.get(s)
            if a is None:
                self.agg[s] = [1, rec, [list(e) for e in hist]]
            else:
                a[0] += 1
        return [dict(kind="cut", _cut=True)] if cut else []

    @staticmethod
    def merge(into, other):
        for s, (n, rec, hist) in other.items():
            a = into.get(s)
            if a is None:
                into[s] = [n, rec, hist]
            else:
                a[0] += n
                if len(hist) < len(a[2]):
                    a[2] = hist


class ManagerModel:
    """World A."""

    def __init__(self, seed=0, horizon_ticks=10**9, probes=True):
        self.alpha = alphabet()
        random.Random(seed).shuffle(self.alpha)       # VERIF_SEED only permutes the enumeration order
        self.stats = collections.Counter()
        self.probed = set()
        self.probes = probes
        self.horizon = horizon_ticks                  # longest history of this exploration, in ticks
        self.viol = Aggregator()

    # -- model protocol -----------------------------------------------------------------------
    def init(self):
        V.coder()
        w = V.ManagerWorld(OWN)
        w.open = {}            # notification kind -> (identity, start tick)
        w.joinphase = None     # ("notify"|"waiting", target id, since tick)
        w.leader = None        # station whose cluster VAM completed the join (harness knowledge)
        w.leader_rx_k = None   # tick of the last VAM delivered from that station
        w.seen = {}            # cluster ids delivered in information containers -> tick
        w.ghost_k = None       # tick at which the block of three ghost VRUs last announced itself
        w.members = ()         # stations that announced a join to the own cluster (while leading)
        w.bad = []
        w.flat_dicts = ("open", "seen")
        w.obs = observe(w)
        w.last = None
        return w

    def enabled(self, w):
        return self.alpha

    def canon(self, w):
        return canon_a(w, self.horizon)

    def outcome(self, w, obs):
        return obs

    # -- one event = real calls --------------------------------------------------------------------
    def _rx(self, w, m, kind, who, form):
        sender = WHO[who]
        own_id = w.obs["cid"] if w.obs["state"] == "VRU_ACTIVE_CLUSTER_LEADER" else None
        vam, info_id = make_rx(kind, own_id, sender, form)
        with w:
            m.on_received_vam(vam)
        return sender, info_id

    def apply(self, w, ev):
        m = w.mgr
        pre = w.obs
        pre_joinphase = w.joinphase
        pre_silent = None if w.leader_rx_k is None else w.k - w.leader_rx_k
        ret = None
        asked = None
        exc = None
        info_id = None
        sender = None
        w.bad = []
        kind = ev[0]
        diff_expect = None
        try:
            if kind == "tick":
                w.step(ev[1])
            elif kind == "role":
                with w:
                    (m.set_vru_role_on if ev[1] == "on" else m.set_vru_role_off)()
            elif kind == "create":
                if ev[1] == "present":
                    for g in GHOSTS:      # three VRUs close by announce themselves (real coder output)
                        with w:
                            m.on_received_vam(make_rx("plain", None, g, "wire")[0])
                    w.ghost_k = w.k
                lat, lon = V.pos_of(OWN)
                choice = ev[2] if len(ev) > 2 else "lo"
                with V.Draws(choice, in_use=sorted(w.seen)) as d:      # cluster-id draw = harness choice
                    with w:
                        ret = m.try_create_cluster(lat, lon)
                asked = tuple(sorted({(q[1], q[2]) for q in d.asked}))
            elif kind == "join":
                cid = {"adv": ADV, "unk": UNK}.get(ev[1], ev[1])
                with w:
                    ret = m.initiate_join(cid)
                if ret:
                    w.joinphase = ("notify", cid, w.k)
            elif kind == "cancel":
                with w:
                    m.cancel_join()
            elif kind == "leave":
                with w:
                    m.trigger_leave_cluster(ClusterLeaveReason(ev[1]))
            elif kind == "breakup":
                with w:
                    ret = m.trigger_breakup_cluster(ClusterBreakupReason(ev[1]))
            elif kind == "update":
                lat, lon = V.pos_of(OWN)
                with w:
                    m.update(lat, lon, 1.0, 90.0)
            elif kind == "rx":
                if ev[3] == "wire":
                    # W: the hand-built dict with the same content, applied to a copy of the pre-state
                    w2 = V.snapshot(w)
                    self._rx(w2, w2.mgr, ev[1], ev[2], "dict")
                    diff_expect = w2
                sender, info_id = self._rx(w, m, ev[1], ev[2], ev[3])
            else:
                raise ValueError(ev)
        except HarnessError:
            raise
        except Exception as e:  # noqa: BLE001 - an exception escaping the manager's API is an observation
            exc = f"{type(e).__name__}:{str(e)[:120]}"
        post = observe(w)
        w.obs = post
        self._monitor(w, ev, pre, post, pre_joinphase, sender, info_id, exc)
        if diff_expect is not None:
            differs = self._wire_vs_dict(w, diff_expect, post, pre_silent)
            if differs:
                w.bad.append(dict(kind="wire_dict_divergence", rx=ev[1], who=ev[2], has_cluster_info=ev[1] in RX_WITH_INFO,
                                  state_before=pre["state"], differs=differs, _cut=True))
        w.last = dict(pre_state=pre["state"], ret=ret, exc=exc)
        return (kind if kind != "rx" else "rx:" + ev[1], pre["state"], post["state"], ret, tuple(sorted(post["notif"])), post["tx"], asked)

    def _wire_vs_dict(self, w, w_dict, post, pre_silent):
        """W: public observations after the real-coder form (w) and after the hand-built dict form (w_dict), now and -
        because a refreshed leader heartbeat is not visible at once - after the next update at the two instants where
        the leader-lost timer would expire with / without a refresh by this VAM."""
        a, b = public_view(post), public_view(observe(w_dict))
        if a != b:
            return view_diff(a, b)
        if post["state"] != "VRU_PASSIVE":
            return ""
        lat, lon = V.pos_of(OWN)
        offsets = {D_CONT}
        if pre_silent is not None and 0 < D_CONT - pre_silent < D_CONT:
            offsets.add(D_CONT - pre_silent)
        for off in sorted(offsets):
            views = []
            for src in (w, w_dict):
                c = V.snapshot(src)
                c.step(off)
                with c:
                    c.mgr.update(lat, lon, 1.0, 90.0)
                views.append(public_view(observe(c)))
            if views[0] != views[1]:
                return "after_%d_ticks:" % off + view_diff(views[0], views[1])
        return ""

    # -- harness-side monitors (N, J, leader bookkeeping) ---------------------------------------------
    def _monitor(self, w, ev, pre, post, pre_joinphase, sender, info_id, exc):
        kind = ev[0]
        if exc is not None:
            w.bad.append(dict(kind="exception", event=kind, detail=ev[1] if len(ev) > 1 else None, exc=exc,
                              state_before=pre["state"], _cut=True))
        # ---- N: notification windows
        present = post["notif"]
        for nk in list(w.open):
            ident, k0 = w.open[nk]
            age = w.k - k0
            still = present.get(nk) == ident
            if still:
                if kind == "update" and age >= DUR[nk]:
                    w.bad.append(dict(kind="notification_overstays", what=nk, age_ticks=age, duration_ticks=DUR[nk],
                                      state=post["state"], _cut=True))
                    del w.open[nk]
                continue
            del w.open[nk]
            legit = (kind == "update" and age >= DUR[nk]) or (kind == "role" and ev[1] == "off")
            if nk == "join" and kind in ("cancel", "leave"):
                legit = True
            if nk == "leave" and nk in present:      # superseded by a newer leave notification (one slot in the ASN.1)
                legit = True
            if not legit:
                w.bad.append(dict(kind="notification_cut_short", what=nk, by=kind, age_ticks=age, duration_ticks=DUR[nk],
                                  state_before=pre["state"], state=post["state"], _cut=True))
        for nk, ident in present.items():
            if nk not in w.open:
                w.open[nk] = (ident, w.k)
        # ---- J: join procedure (timeClusterJoinNotification, then timeClusterJoinSuccess to be acknowledged)
        jp = w.joinphase
        if jp is not None and jp is pre_joinphase:
            if (kind == "role" and ev[1] == "off") or kind in ("cancel", "leave"):
                jp = None
            elif kind == "update":
                if jp[0] == "notify" and w.k - jp[2] >= D_JOIN:
                    jp = ("waiting", jp[1], w.k)
                elif jp[0] == "waiting" and w.k - jp[2] >= D_WAIT:
                    jp = None          # not acknowledged in time: failed join (allowed)
            elif kind == "rx" and jp[0] == "waiting" and info_id == jp[1] and exc is None:
                if post["state"] != "VRU_PASSIVE" and ev[1] in RX_WITH_INFO and ev[1] not in RX_WITH_BREAKUP:
                    w.bad.append(dict(kind="join_not_completed", form=ev[3], rx=ev[1], who=ev[2], target=jp[1],
                                      state=post["state"], _cut=True))
                jp = None
            elif kind == "create" and post["state"] == "VRU_ACTIVE_CLUSTER_LEADER":
                jp = None
            w.joinphase = jp
        # ---- leader bookkeeping for the liveness probes
        if post["state"] == "VRU_PASSIVE":
            if pre["state"] != "VRU_PASSIVE":
                w.leader, w.leader_rx_k = sender, w.k
            elif kind == "rx" and sender == w.leader:
                w.leader_rx_k = w.k
        else:
            w.leader, w.leader_rx_k = None, None
        # ---- members of the own cluster (who announced a join / leave towards it while this station leads)
        if post["state"] == "VRU_ACTIVE_CLUSTER_LEADER":
            if pre["state"] != "VRU_ACTIVE_CLUSTER_LEADER":
                w.members = ()
            elif kind == "rx" and exc is None:
                mem = set(w.members)
                if ev[1] in ("joinreq", "info+join"):
                    mem.add(sender)
                elif ev[1] in ("leavereq", "info+leave", "joinleave"):
                    mem.discard(sender)
                w.members = tuple(sorted(mem))
        else:
            w.members = ()
        # ---- P3: the VAM just received announces break-up and comes from the station that is the member's leader
        # AFTER this VAM (so also when the same VAM completed the join): stand-alone and transmitting by the next
        # update, whatever else the VAM carried.  Evaluated on a copy.
        if kind == "rx" and ev[1] in RX_WITH_BREAKUP and exc is None and post["state"] == "VRU_PASSIVE" and sender == w.leader:
            c = V.snapshot(w)
            lat, lon = V.pos_of(OWN)
            with c:
                c.mgr.update(lat, lon, 1.0, 90.0)
            ob = observe(c)
            self.stats["probes"] += 1
            if ob["state"] != "VRU_ACTIVE_STANDALONE" or not ob["tx"]:
                w.bad.append(dict(kind="breakup_announced_not_standalone", rx=ev[1], who=ev[2], form=ev[3],
                                  state_before=pre["state"], joined_by_same_vam=pre["state"] != "VRU_PASSIVE",
                                  state_after_update=ob["state"], transmitting=ob["tx"], _cut=True))
        if kind == "rx" and info_id is not None:
            w.seen.setdefault(info_id, w.k)
        for c in [c for c, k0 in w.seen.items() if w.k - k0 >= D_UNIQ]:
            del w.seen[c]

    # -- verdicts --------------------------------------------------------------------------------
    def check(self, w, ev, obs, hist):
        if isinstance(obs, tuple) and obs and obs[0] == "EXC":
            if obs[1] == "HarnessError":
                raise HarnessError(obs[2])
            return self.viol.take([dict(kind="exception", event=ev[0], exc=obs[1] + ":" + obs[2], _cut=True)], hist)
        out = list(w.bad)
        w.bad = []
        out += invariants(w.mgr, w.obs)
        if self.probes and w.obs["state"] == "VRU_PASSIVE" and not any(r.get("_cut") for r in out):
            key = self.canon(w)
            if key not in self.probed:
                self.probed.add(key)
                out += self.probe_passive(w)
        self.stats["checked"] += 1
        return self.viol.take(out, hist)

    # -- P1 / P2: bounded liveness on a copy ------------------------------------------------------------
    def probe_passive(self, w):
        out = []
        if w.leader is None or w.leader_rx_k is None:
            return [dict(kind="probe_no_leader_on_record", state=w.obs["state"])]
        lat, lon = V.pos_of(OWN)
        other = OTH if w.leader != OTH else LDR
        joined = w.obs["cid"]

        def settle(c, label, **kw):
            with c:
                c.mgr.update(lat, lon, 1.0, 90.0)
            ob = observe(c)
            self.stats["probes"] += 1
            if ob["state"] != "VRU_ACTIVE_STANDALONE" or not ob["tx"]:
                out.append(dict(kind=label, state_after=ob["state"], transmitting=ob["tx"], joined_cluster=joined, **kw))

        silent = w.k - w.leader_rx_k
        need = max(0, D_CONT - silent)
        # P1a: nobody speaks
        c = V.snapshot(w)
        c.step(need)
        settle(c, "probe_leader_lost_not_standalone", others_speaking=False, silent_ticks=silent + need)
        # P1b: other stations keep speaking (plain VAMs), the leader stays silent
        c = V.snapshot(w)
        for part in (need // 2, need - need // 2):
            with c:
                c.mgr.on_received_vam(V.test_style_vam(other))
            c.step(part)
        with c:
            c.mgr.on_received_vam(make_rx("plain", None, other, "wire")[0])
        settle(c, "probe_leader_lost_not_standalone", others_speaking=True, silent_ticks=silent + need)
        # P2: break-up announcement by the leader, every reason, both forms, whatever else the VAM carries
        cid = joined if isinstance(joined, int) else ADV
        for reason in ALL_BREAKUP_REASONS:
            for carries in ("info+bk", "bk", "info+bk+leave"):
                op = V.op_breakup(reason)
                if carries == "info+bk+leave":
                    op = dict(op, **V.op_leave(ADV + 1, "joiningAnotherCluster"))
                failed_dict = False
                for form in ("dict", "wire"):
                    c = V.snapshot(w)
                    shape = "dict" if form == "dict" else "tuple"
                    info = V.cluster_info(cid, shape=shape) if carries != "bk" else None
                    if form == "dict":
                        vam = V.test_style_vam(w.leader, info=info, op=op)
                    else:
                        vam = V.through_coder(V.full_vam(w.leader, info=info, op=op))
                    with c:
                        c.mgr.on_received_vam(vam)
                    n0 = len(out)
                    settle(c, "probe_breakup_not_standalone", reason=reason, form=form, carries=carries)
                    if len(out) > n0:
                        if form == "dict":
                            failed_dict = True
                        elif failed_dict:
                            out.pop()       # not specific to the real-coder form: already reported for the dict form
        return out


# ------------------------------------------------------------------------------------------------
# World A driver: level-synchronous breadth-first search, states de-duplicated globally
# ------------------------------------------------------------------------------------------------
# mc.explore.parallel_bfs de-duplicates inside each worker only; for this world (47 events, heavily confluent) that
# repeats most of the work 5x and keeps whole levels of worlds in memory.  Same technique (explicit-state BFS over the
# real object, snapshots by deepcopy), different bookkeeping: the master keeps one HISTORY per distinct canonical state
# of the current level; workers rebuild each state by replaying its history on a fresh manager (which is at the same
# time the replay-versus-snapshot cross-check, for EVERY state: the hash must equal the one computed from the snapshot
# that discovered it), run the liveness probes if it is passive, and expand it with every event of the alphabet.
_MODEL_A = {}


def _model_a(seed, horizon):
    m = _MODEL_A.get((seed, horizon))
    if m is None:
        m = _MODEL_A[(seed, horizon)] = ManagerModel(seed, horizon, probes=False)
    return m


def _expand_chunk(args):
    seed, horizon, expand, items = args
    m = _model_a(seed, horizon)
    m.stats = collections.Counter()
    m.viol = Aggregator()
    succ = []
    outcomes = set()
    for idx, hist, expected in items:
        w = X.rebuild(m, list(hist))
        if expected is not None:
            m.stats["xchecks"] += 1
            if X._h(m.canon(w)) != expected:
                raise X.NondeterminismError(f"replay of {hist!r} does not reproduce the state found by snapshot+apply")
        if w.obs["state"] == "VRU_PASSIVE":
            m.stats["passive_states"] += 1
            m.viol.take(m.probe_passive(w), hist)
        if not expand:
            continue
        for ei, ev in enumerate(m.alpha):
            nxt = X.snapshot(m, w)
            obs = m.apply(nxt, ev)
            m.stats["transitions"] += 1
            if m.check(nxt, ev, obs, hist + (ev,)):
                m.stats["pruned"] += 1
                continue
            outcomes.add(obs)
            succ.append((idx, ei, X._h(m.canon(nxt))))
    return succ, outcomes, dict(m.stats), m.viol.agg


def level_bfs(pool, seed, depth, horizon, chunk=96, prefix=()):
    """All histories ``prefix + (up to depth further events)``."""
    m = _model_a(seed, horizon)
    alpha = m.alpha                                    # order permuted by the seed
    base = {ev: i for i, ev in enumerate(alphabet())}  # seed-independent rank of an event
    k0 = X._h(m.canon(X.rebuild(m, list(prefix))))
    seen = {k0}
    frontier = [(tuple(prefix), None)]
    stats = collections.Counter()
    agg = {}
    outcomes = set()
    per_depth = {0: 1}
    samples = []
    rank = lambda hist: tuple(base[e] for e in hist)   # noqa: E731
    for d in range(depth + 1):
        expand = d < depth
        items = [(i, h, k) for i, (h, k) in enumerate(frontier)]
        jobs = [(seed, horizon, expand, items[i:i + chunk]) for i in range(0, len(items), chunk)]
        best = {}
        for succ, outc, st, ag in pool.imap(_expand_chunk, jobs):
            stats.update(st)
            Aggregator.merge(agg, ag)
            outcomes |= outc
            for idx, ei, k in succ:
                if k in seen:
                    continue
                h = frontier[idx][0] + (alpha[ei],)
                # representative history of a new state = the smallest one in the seed-independent event order, so
                # that everything reported (histories, case counts) is independent of VERIF_SEED
                if k not in best or rank(h) < rank(best[k]):
                    best[k] = h
        if not expand:
            break
        seen.update(best)
        nxt = sorted(((h, k) for k, h in best.items()), key=lambda t: rank(t[0]))
        per_depth[d + 1] = len(nxt)
        if nxt and len(samples) < 3 and d + 1 >= 3:
            samples.append([list(e) for e in nxt[len(nxt) // 2][0]])
        frontier = nxt
        if not frontier:
            break
    r = X.Result()
    r.hashes = seen
    r.states = len(seen)
    r.transitions = stats["transitions"]
    r.pruned = stats["pruned"]
    r.xchecks = stats["xchecks"]
    r.max_depth = max(per_depth)
    r.depth_hist = per_depth
    r.outcomes = outcomes
    r.samples = samples
    r.complete = not frontier
    return r, stats, agg


# ------------------------------------------------------------------------------------------------
# World B: complete services in a closed loop
# ------------------------------------------------------------------------------------------------
T_GEN_TICKS = max(1, ticks(VC.T_GENVAMMIN / 1000.0))


def decode_payload(data):
    """Harness-side view of an emitted payload (real coder). Returns (vam | None, error | None)."""
    try:
        return V.coder().decode(data), None
    except Exception as e:  # noqa: BLE001
        return None, f"{type(e).__name__}:{str(e)[:100]}"


def vam_summary(vam):
    p = vam["vam"]["vamParameters"]
    info = p.get("vruClusterInformationContainer")
    vci = info["vruClusterInformation"] if info else None
    return dict(sid=vam["header"]["stationId"],
                info=None if vci is None else (vci.get("clusterId"), vci.get("clusterCardinalitySize")),
                notif=op_parts(p.get("vruClusterOperationContainer")))


def loop_script(names, variant):
    """Scripted backbone of one closed-loop scenario; inside every ("par", ...) stage the explorer enumerates all
    orders of the listed actions and of the resulting deliveries."""
    lead, joiners = names[0], tuple(names[1:])
    allgps = ("par", tuple(("gps", n) for n in names))
    upd_j = ("par", tuple(("update", n) for n in joiners))
    if variant == "lonely":
        j = joiners[0]
        return (allgps, ("do", ("tick", 10)), ("do", ("joinid", j, UNK)),
                ("do", ("tick", 10)), allgps, ("do", ("tick", 20)), allgps, ("do", ("tick", 20)), allgps,
                ("do", ("tick", 10)), ("do", ("update", j)), ("do", ("assert", "joinphase", j, "waiting")),
                ("do", ("tick", 4)), allgps,
                ("do", ("tick", 6)), ("do", ("update", j)), ("do", ("assert", "notif", j, "leave")),
                ("do", ("tick", 10)), allgps,
                ("do", ("tick", 10)), ("do", ("update", j)), ("do", ("assert", "notif", j, None)),
                ("do", ("tick", 10)), allgps)
    head = (("do", ("ghosts", lead)), allgps, ("do", ("tick", 10)), ("do", ("create", lead)), allgps,
            ("do", ("assert", "knows_cluster", joiners)))
    head += tuple(("do", ("join", j)) for j in joiners)
    if variant == "breakup_during_join":
        # the leader starts its break-up warning while the joiners are still announcing: the cluster VAM that
        # acknowledges the join (information container) also carries clusterBreakupInfo
        return head + (("do", ("tick", 10)), allgps, ("do", ("breakup", lead, BK_NORMAL)), ("do", ("tick", 50)), upd_j,
                       ("do", ("tick", 4)), allgps, upd_j,
                       ("do", ("assert", "standalone_tx", joiners, "breakup_during_join")),
                       ("do", ("tick", 4)), allgps, ("do", ("tick", 10)), ("do", ("update", lead)),
                       ("do", ("assert", "state", lead, "VRU_ACTIVE_STANDALONE")), ("do", ("tick", 4)), allgps)
    head += (("do", ("tick", 10)), allgps, ("do", ("tick", 50)), upd_j)
    if variant == "late":      # the acknowledgement does not arrive within timeClusterJoinSuccess: a failed join is allowed
        return head + (("do", ("tick", 10)), upd_j, ("do", ("assert", "notif", joiners, "leave")),
                       ("do", ("tick", 4)), allgps, ("do", ("tick", 16)), upd_j, ("do", ("assert", "notif", joiners, None)),
                       ("do", ("tick", 4)), allgps)
    body = head + (("do", ("tick", 4)), allgps, ("do", ("assert", "passive", joiners)),
                   ("do", ("tick", 10)), allgps, ("do", ("tick", 10)), upd_j, ("do", ("assert", "passive", joiners)))
    if variant in ("breakup", "breakup_cpm"):
        reason = BK_NORMAL if variant == "breakup" else CPM
        return body + (("do", ("breakup", lead, reason)), ("do", ("tick", 10)), allgps, upd_j,
                       ("do", ("assert", "standalone_tx", joiners, "breakup:" + reason)),
                       ("do", ("tick", 4)), allgps, ("do", ("tick", 46)), ("do", ("update", lead)),
                       ("do", ("assert", "state", lead, "VRU_ACTIVE_STANDALONE")), ("do", ("tick", 4)), allgps)
    if variant == "lost":
        return body + (("do", ("roleoff", lead)), ("do", ("tick", 20)), allgps, ("do", ("tick", 20)), upd_j,
                       ("do", ("assert", "standalone_tx", joiners, "leader_silent")), ("do", ("tick", 4)), allgps,
                       ("do", ("tick", 20)), upd_j, ("do", ("assert", "notif", joiners, None)))
    if variant == "leave":
        j = joiners[0]
        return body + (("do", ("leave", j)), ("do", ("assert", "standalone_tx", (j,), "leave_command")),
                       ("do", ("tick", 4)), allgps, ("do", ("tick", 16)), ("do", ("update", j)),
                       ("do", ("assert", "notif", j, None)), ("do", ("tick", 4)), allgps)
    raise ValueError(variant)


class LoopModel:
    """World B: controlled-schedule BFS over complete VRU services exchanging real VAMs."""

    def __init__(self, names, variant, seed=0, idchoice="mid"):
        self.names = tuple(names)
        self.variant = variant
        self.idchoice = idchoice        # how the leader's cluster-id draw is answered (V.draw_int menu; "mid" -> 7)
        self.script = loop_script(self.names, variant)
        self.rng_seed = seed
        self.stats = collections.Counter()
        self.viol = Aggregator()

    def share(self, w):
        return w.shared()

    def init(self):
        w = V.LoopWorld(self.names)
        w.pc = 0                 # index into the script
        w.done = ()              # actions of the current ("par", ...) stage already executed
        w.last_emit = {}         # station -> tick of its last emitted VAM
        w.members = {n: frozenset() for n in self.names}   # leader -> stations that announced a join to its cluster
        w.last_lf = {}           # station -> tick of its last emitted VAM that carried the low-frequency container
        w.join = {}              # station -> ("notify"|"waiting", cluster id, since tick)
        w.leader_of = {}         # passive station -> station (name) whose cluster VAM completed its join
        w.advertised = None      # cluster id seen on the air by the harness
        w.heard = {n: frozenset() for n in self.names}            # receiver -> station ids delivered so far (ever)
        w.heard_clusters = {n: frozenset() for n in self.names}   # receiver -> cluster ids delivered so far (ever)
        # receiver -> ((station or cluster id, tick of the last delivery), ...) since the receiver's last update() that
        # was more than T_GenVamMax later: distinguishes states whose public nearby counts will differ later
        w.recent = {n: () for n in self.names}
        w.recent_clusters = {n: () for n in self.names}
        w.bad = []
        return w

    # -- enabled: deterministic step, or all orders inside a parallel stage ---------------------------
    def enabled(self, w):
        if w.pc >= len(self.script):
            return [("deliver",) + l for l in w.pending()]
        item = self.script[w.pc]
        evs = [("deliver",) + l for l in w.pending()]
        if item[0] == "par":
            todo = [a for a in item[1] if a not in w.done]
            evs = todo + evs
            if not evs:
                evs = [("next",)]
        elif not evs:
            evs = [item[1]]
        r = random.Random(self.rng_seed)
        r.shuffle(evs)
        return evs

    def canon(self, w):
        """Public observation of every manager + the harness's own knowledge (script position, actions done in the
        stage, clock, queued payload bytes, last emission and last low-frequency container per station as seen on the
        air, join phases, stations/clusters heard).  Inside
        one stage all orders share the same clock, so hidden time stamps are functions of exactly these."""
        st = tuple((n, public_view(observe(w, w.mgr(n)))) for n in w.names)
        return (w.pc, tuple(sorted(w.done)), w.k, st, tuple((l, tuple(q)) for l, q in sorted(w.queues.items()) if q),
                tuple(sorted(w.last_emit.items())), tuple(sorted(w.last_lf.items())), tuple(sorted(w.join.items())),
                tuple(sorted(w.leader_of.items())), w.advertised,
                tuple(sorted((n, tuple(sorted(v))) for n, v in w.members.items() if w.mgr(n).state is VBSState.VRU_ACTIVE_CLUSTER_LEADER)),
                tuple(sorted((n, tuple(sorted(v))) for n, v in w.heard.items())),
                tuple(sorted((n, tuple(sorted(v))) for n, v in w.heard_clusters.items())),
                tuple(sorted(w.recent.items())), tuple(sorted(w.recent_clusters.items())))

    def outcome(self, w, obs):
        return obs

    # -- events --------------------------------------------------------------------------------
    def apply(self, w, ev):
        w.bad = []
        kind = ev[0]
        item = self.script[w.pc] if w.pc < len(self.script) else None
        in_par = item is not None and item[0] == "par"
        out = (kind,)
        if kind == "next":
            w.pc += 1
            w.done = ()
            return out
        if kind == "deliver":
            out = self._deliver(w, ev[1], ev[2])
        elif kind == "gps":
            out = self._gps(w, ev[1])
        elif kind == "update":
            self._update(w, ev[1])
        elif kind == "tick":
            w.step(ev[1])
        elif kind == "ghosts":
            for g in GHOSTS:
                self._guard(w, ev, lambda g=g: w.inject(ev[1], V.encode(V.full_vam(g))))
                w.recent[ev[1]] = tuple(sorted(dict(w.recent[ev[1]], **{str(g): w.k}).items()))
        elif kind == "create":
            lat, lon = V.pos_of(w.ids[ev[1]])
            with V.Draws(ADV if self.idchoice == "mid" else self.idchoice):
                with w:
                    ok = self._guard(w, ev, lambda: w.mgr(ev[1]).try_create_cluster(lat, lon))
            if not ok or w.mgr(ev[1]).state is not VBSState.VRU_ACTIVE_CLUSTER_LEADER:
                w.bad.append(dict(kind="loop_scenario_blocked", step="create", station=ev[1], _cut=True))
        elif kind in ("join", "joinid"):
            cid = ev[2] if kind == "joinid" else w.advertised
            with w:
                ok = self._guard(w, ev, lambda: w.mgr(ev[1]).initiate_join(cid))
            if not ok or cid is None:
                w.bad.append(dict(kind="loop_scenario_blocked", step="join", station=ev[1], advertised=cid, _cut=True))
            else:
                w.join[ev[1]] = ("notify", cid, w.k)
        elif kind == "breakup":
            with w:
                ok = self._guard(w, ev, lambda: w.mgr(ev[1]).trigger_breakup_cluster(ClusterBreakupReason(ev[2])))
            if not ok:
                w.bad.append(dict(kind="loop_scenario_blocked", step="breakup", station=ev[1], _cut=True))
        elif kind == "roleoff":
            with w:
                self._guard(w, ev, lambda: w.mgr(ev[1]).set_vru_role_off())
            w.join.pop(ev[1], None)
        elif kind == "leave":
            with w:
                self._guard(w, ev, lambda: w.mgr(ev[1]).trigger_leave_cluster(ClusterLeaveReason.SAFETY_CONDITION))
            w.leader_of.pop(ev[1], None)
        elif kind == "assert":
            self._assert(w, ev)
        else:
            raise ValueError(ev)
        if in_par and kind in ("gps", "update"):
            w.done = w.done + (ev,)
        elif kind != "deliver":
            w.pc += 1
            w.done = ()
        return out

    def _guard(self, w, ev, fn):
        try:
            return fn()
        except Exception as e:  # noqa: BLE001
            w.bad.append(dict(kind="exception", event=ev[0], station=ev[1] if len(ev) > 1 and isinstance(ev[1], str) else None,
                              exc=f"{type(e).__name__}:{str(e)[:120]}", _cut=True))
            return None

    def _gps(self, w, n):
        m = w.mgr(n)
        pre = observe(w, m)
        since = w.k - w.last_emit[n] if n in w.last_emit else None
        err = None
        try:
            emitted = w.gps(n)
        except Exception as e:  # noqa: BLE001
            emitted = []
            err = f"{type(e).__name__}:{str(e)[:110]}"
        self.stats["gps"] += 1
        base = dict(station=n, state=pre["state"], notif=",".join(sorted(pre["notif"])) or "none", has_info=pre["info"] is not None)
        remaining_q = self._remaining_quarters(pre)
        if remaining_q is not None:
            base["time_field"] = remaining_q
        if err is not None:
            w.bad.append(dict(kind="emit_failed", err=err, **base, _cut=True))
            return ("gps", pre["state"], "error")
        if not pre["tx"]:
            if emitted:
                w.bad.append(dict(kind="emitted_while_suppressed", n=len(emitted), **base))
            return ("gps", pre["state"], 0)
        if since is None or since >= T_GEN_TICKS:
            if len(emitted) != 1:
                w.bad.append(dict(kind="emit_count", n=len(emitted), **base, _cut=True))
        elif len(emitted) > 1:
            w.bad.append(dict(kind="emit_count", n=len(emitted), **base, _cut=True))
        for data in emitted:
            w.last_emit[n] = w.k
            self.stats["vams_emitted"] += 1
            vam, derr = decode_payload(data)
            if vam is None:
                w.bad.append(dict(kind="emitted_undecodable", err=derr, **base, _cut=True))
                continue
            sm = vam_summary(vam)
            if "vruLowFrequencyContainer" in vam["vam"]["vamParameters"]:
                w.last_lf[n] = w.k
            want_info = None
            if pre["info"] is not None:
                vci = pre["info"]["vruClusterInformation"]
                want_info = (vci.get("clusterId"), vci.get("clusterCardinalitySize"))
                w.advertised = vci.get("clusterId")
            if sm["sid"] != w.ids[n] or sm["info"] != want_info or sm["notif"] != pre["notif"]:
                w.bad.append(dict(kind="emitted_containers_mismatch", got=repr((sm["info"], sm["notif"])),
                                  want=repr((want_info, pre["notif"])), **base, _cut=True))
        return ("gps", pre["state"], len(emitted), tuple(sorted(pre["notif"])), pre["info"] is not None)

    @staticmethod
    def _remaining_quarters(pre):
        op = pre["op"] or {}
        if "clusterJoinInfo" in op:
            return op["clusterJoinInfo"].get("joinTime")
        if "clusterBreakupInfo" in op:
            return op["clusterBreakupInfo"].get("breakupTime")
        return None

    def _deliver(self, w, src, dst):
        data = w.queues[(src, dst)][0]
        vam, derr = decode_payload(data)
        m = w.mgr(dst)
        pre_state = m.state.name
        with w:
            pre_nv, pre_nc = m.get_nearby_vru_count(), m.get_nearby_cluster_count()
        jp = w.join.get(dst)
        try:
            w.deliver((src, dst))
        except Exception as e:  # noqa: BLE001
            w.bad.append(dict(kind="exception", event="deliver", station=dst, exc=f"{type(e).__name__}:{str(e)[:120]}", _cut=True))
            return ("deliver", "error")
        self.stats["delivered"] += 1
        if vam is None:
            return ("deliver", "undecodable")
        sm = vam_summary(vam)
        post_state = m.state.name
        # the received VAM is reflected in the peer's manager ("drives the peer's state machine"): public counters of
        # the nearby tables (a station / cluster heard for the first time adds one entry; nothing disappears on reception)
        with w:
            nv, nc = m.get_nearby_vru_count(), m.get_nearby_cluster_count()
        first = sm["sid"] not in w.heard[dst]
        if nv < 1 or nv < pre_nv or (first and nv != pre_nv + 1):
            w.bad.append(dict(kind="rx_not_reflected", what="nearby_vru", receiver=dst, has_info=sm["info"] is not None, _cut=True))
        w.heard[dst] = w.heard[dst] | {sm["sid"]}
        w.recent[dst] = tuple(sorted(dict(w.recent[dst], **{str(sm["sid"]): w.k}).items()))
        if sm["info"] is not None:
            first_c = sm["info"][0] not in w.heard_clusters[dst]
            if nc < 1 or nc < pre_nc or (first_c and nc != pre_nc + 1):
                w.bad.append(dict(kind="rx_not_reflected", what="nearby_cluster", receiver=dst, has_info=True, _cut=True))
            w.heard_clusters[dst] = w.heard_clusters[dst] | {sm["info"][0]}
            w.recent_clusters[dst] = tuple(sorted(dict(w.recent_clusters[dst], **{str(sm["info"][0]): w.k}).items()))
            if jp is not None and jp[0] == "waiting" and jp[1] == sm["info"][0] and "breakup" not in sm["notif"]:
                if post_state != "VRU_PASSIVE":
                    w.bad.append(dict(kind="join_not_completed", form="loop", receiver=dst, target=jp[1], state=post_state, _cut=True))
                w.join.pop(dst, None)
        if post_state == "VRU_ACTIVE_CLUSTER_LEADER":
            with w:
                own = m.get_cluster_id()
            mem = set(w.members[dst])
            if "join" in sm["notif"] and sm["notif"]["join"][0] == own:
                mem.add(sm["sid"])
            if "leave" in sm["notif"] and sm["notif"]["leave"][0] == own:
                mem.discard(sm["sid"])
            w.members[dst] = frozenset(mem)
        if post_state == "VRU_PASSIVE" and pre_state != "VRU_PASSIVE":
            w.leader_of[dst] = src
            w.join.pop(dst, None)
        if post_state != "VRU_PASSIVE":
            w.leader_of.pop(dst, None)
        return ("deliver", pre_state, post_state, sm["info"] is not None, tuple(sorted(sm["notif"])))

    def _update(self, w, n):
        lat, lon = V.pos_of(w.ids[n])
        with w:
            self._guard(w, ("update", n), lambda: w.mgr(n).update(lat, lon, 1.0, 90.0))
        w.recent[n] = tuple((i, k0) for i, k0 in w.recent[n] if w.k - k0 < D_NEAR)
        w.recent_clusters[n] = tuple((i, k0) for i, k0 in w.recent_clusters[n] if w.k - k0 < D_NEAR)
        jp = w.join.get(n)
        if jp is not None:
            if jp[0] == "notify" and w.k - jp[2] >= D_JOIN:
                w.join[n] = ("waiting", jp[1], w.k)
            elif jp[0] == "waiting" and w.k - jp[2] >= D_WAIT:
                del w.join[n]
        if w.mgr(n).state is not VBSState.VRU_PASSIVE:
            w.leader_of.pop(n, None)

    def _assert(self, w, ev):
        what = ev[1]
        who = ev[2] if isinstance(ev[2], tuple) else (ev[2],)
        for n in who:
            m = w.mgr(n)
            ob = observe(w, m)
            if what == "knows_cluster":
                if w.advertised is None or ob["near_clusters"] < 1:
                    w.bad.append(dict(kind="loop_scenario_blocked", step="knows_cluster", station=n, advertised=w.advertised, _cut=True))
            elif what == "passive":
                if ob["state"] != "VRU_PASSIVE" or ob["tx"]:
                    w.bad.append(dict(kind="loop_join_not_completed", station=n, state=ob["state"], _cut=True))
            elif what == "state":
                if ob["state"] != ev[3]:
                    w.bad.append(dict(kind="loop_state", station=n, state=ob["state"], want=ev[3], _cut=True))
            elif what == "joinphase":
                jp = w.join.get(n)
                if jp is None or jp[0] != ev[3]:
                    raise HarnessError(f"scenario out of step: {n} join phase {jp} != {ev[3]}")
            elif what == "notif":
                got = ob["notif"]
                if (ev[3] is None and got) or (ev[3] is not None and ev[3] not in got):
                    w.bad.append(dict(kind="loop_notification", station=n, want=str(ev[3]), got=",".join(sorted(got)) or "none", _cut=True))
            elif what == "standalone_tx":
                if ob["state"] != "VRU_ACTIVE_STANDALONE" or not ob["tx"]:
                    rec = dict(kind="loop_member_not_released", station=n, cause=ev[3], state=ob["state"], transmitting=ob["tx"], _cut=True)
                    rec["still_silent_after_s"] = self._for_good(w, n)
                    w.bad.append(rec)
            else:
                raise ValueError(ev)

    def _for_good(self, w, n, rounds=12):
        """Bounded demonstration of 'silenced for good' on a COPY: the ex-leader finishes its warning, returns to
        stand-alone and keeps sending ordinary VAMs once per second; the member is updated every round."""
        c = X.snapshot(self, w)
        lead = self.names[0]
        silent = 0
        for _ in range(rounds):
            c.step(20)
            try:
                lat, lon = V.pos_of(c.ids[lead])
                with c:
                    c.mgr(lead).update(lat, lon, 1.0, 90.0)
                c.gps(lead)
                while c.queues[(lead, n)]:
                    c.deliver((lead, n))
                lat, lon = V.pos_of(c.ids[n])
                with c:
                    c.mgr(n).update(lat, lon, 1.0, 90.0)
                if c.gps(n) or c.mgr(n).should_transmit_vam():
                    break
            except Exception:  # noqa: BLE001
                break
            silent += 1
        return silent

    def check(self, w, ev, obs, hist):
        if isinstance(obs, tuple) and obs and obs[0] == "EXC":
            if obs[1] == "HarnessError":
                raise HarnessError(obs[2])
            return self.viol.take([dict(kind="exception", event=ev[0], exc=obs[1] + ":" + obs[2], _cut=True)], hist)
        out = list(w.bad)
        w.bad = []
        for n in w.names:
            for rec in invariants(w.mgr(n), observe(w, w.mgr(n))):
                rec["station"] = n
                out.append(rec)
        return self.viol.take(out, hist)

    def terminal(self, w, hist):
        self.stats["complete_runs"] += 1
        if w.pc < len(self.script):
            return self.viol.take([dict(kind="loop_not_finished", pc=w.pc)], hist)
        return []


def _job_b(args):
    names, variant, seed = args[:3]
    idchoice = args[3] if len(args) > 3 else "mid"
    m = LoopModel(names, variant, seed, idchoice)
    r = X.bfs(m, 100_000, xcheck_every=499)
    r.violations = []
    return (names, variant if idchoice == "mid" else variant + "@id=" + idchoice), r, dict(m.stats), m.viol.agg


# ------------------------------------------------------------------------------------------------
# World B, part 2: complete lattice of emission instants inside every notification window
# ------------------------------------------------------------------------------------------------
SWEEPS = {"join": D_JOIN + 10, "cancelled_join_leave": D_LEAVE + 10, "breakup": D_BREAK + 10}


def sweep_case(what, offset):
    """Fresh two-station loop; start the notification; let ``offset`` ticks pass; one location callback.
    Returns (violation records, emitted?)."""
    m = LoopModel(("A", "B"), "lonely")
    w = m.init()
    st = "A" if what == "breakup" else "B"
    steps = [("ghosts", "A"), ("gps", "A"), ("gps", "B"), ("deliver", "A", "B"), ("deliver", "B", "A"), ("tick", 10)]
    if what == "join":
        steps += [("joinid", "B", UNK)]
    elif what == "cancelled_join_leave":
        steps += [("joinid", "B", UNK), ("tick", 10), ("cancel", "B")]
    else:
        steps += [("create", "A"), ("breakup", "A", ClusterBreakupReason.NOT_PROVIDED.value)]
    steps += [("tick", offset), ("gps", st)]
    bad = []
    for ev in steps:
        if ev[0] == "cancel":
            with w:
                w.mgr(ev[1]).cancel_join()
            continue
        w.pc = 0
        m.apply(w, ev)
        bad += w.bad
    want = {"join": "join", "cancelled_join_leave": "leave", "breakup": "breakup"}[what]
    ob = observe(w, w.mgr(st))
    if want not in ob["notif"]:
        bad.append(dict(kind="loop_notification", station=st, want=want, got=",".join(sorted(ob["notif"])) or "none"))
    for r in bad:
        r.pop("_cut", None)
        r["window"] = what
        r["offset_ticks"] = offset
    return bad


def _job_sweep(args):
    what, lo, hi = args
    out = []
    n = 0
    for off in range(lo, hi):
        n += 1
        for rec in sweep_case(what, off):
            out.append((rec, [what, off]))
    return n, out


# ------------------------------------------------------------------------------------------------
# driver
# ------------------------------------------------------------------------------------------------
def _report(ctx, agg, part):
    for s in sorted(agg):
        n, rec, hist = agg[s]
        rec = dict(rec)
        rec["part"] = part
        fid = ctx.classify(rec)
        if fid is not None:
            ctx.merge([], {fid: n}, {fid: rec})
        else:
            ctx.violation(rec, replay=dict(part=part, history=hist))
            k = str(rec.get("kind"))
            ctx.kind_counts[k] += n - 1
            ctx.total_new += n - 1


LOOP_VARIANTS = ("lonely", "late", "breakup", "breakup_cpm", "breakup_during_join", "lost", "leave")
PASSIVE_PREFIX = (("join", "adv"), ("tick", D_JOIN), ("update",), ("rx", "info", "L", "dict"))


def pool_size():
    """16 workers on a quiet box. The box is shared: when it is oversubscribed (measured: load average 45 on 16 cores)
    16 forked workers take 10x longer than 2 because of scheduler/steal overhead, so the pool shrinks with the load.
    Results do not depend on the pool size (ordered merge of the levels, independent loop jobs)."""
    import os
    try:
        load = os.getloadavg()[0]
    except OSError:
        load = 0.0
    return 16 if load < 6 else max(2, min(16, int(96 / load)))


def run(ctx):
    thorough = ctx.tier == "thorough"
    depth = 8 if thorough else 6
    extra = 6 if thorough else 5
    horizon = depth * max(STEPS)                                   # longest history of each exploration, in ticks
    horizon_p = (len(PASSIVE_PREFIX) + extra) * max(STEPS)
    durs = V.lattice_selfcheck()
    V.coder()                                   # compile once, inherited by the forked workers

    # determinism self-check: one recorded execution replayed twice gives identical observations
    probe_hist = [("join", "adv"), ("tick", 60), ("update",), ("rx", "info", "L", "dict"), ("tick", 40), ("update",)]
    runs = []
    for _ in range(2):
        m0 = ManagerModel(ctx.seed, horizon, probes=False)
        w0 = m0.init()
        runs.append([m0.apply(w0, e) for e in probe_hist] + [m0.canon(w0)])
    if runs[0] != runs[1]:
        raise HarnessError("replaying one history twice gave different observations")
    for h in (probe_hist[:4], [("create", "present", "lo"), ("rx", "joinreq", "O", "dict"), ("breakup", CPM), ("rx", "info0", "O", "dict")]):
        wx = X.rebuild(m0, h)
        V.fast_copy_selfcheck(wx.mgr, wx.now)

    jobs_b = [(names, v, ctx.seed) for names in (("A", "B"), ("A", "B", "C")) for v in LOOP_VARIANTS]
    # the closed loop also with the boundary cluster ids of the leader's draw (resolved against the requested bounds)
    jobs_b += [(("A", "B"), v, ctx.seed, c) for v in ("breakup", "breakup_during_join") for c in ("lo", "hi")]
    jobs_s = []
    for what, hi in SWEEPS.items():
        for lo in range(0, hi + 1, 8):
            jobs_s.append((what, lo, min(hi + 1, lo + 8)))
    digests = []
    samples = []
    b_states = b_trans = b_x = 0
    b_complete = True
    stats_b = collections.Counter()
    sweep_n = 0
    outcomes_b = set()
    procs = pool_size()
    with mp.Pool(procs) as pool:
        res_b = pool.imap_unordered(_job_b, jobs_b)
        res_s = pool.imap_unordered(_job_sweep, jobs_s)
        tot, stats, agg_a = level_bfs(pool, ctx.seed, depth, horizon)
        _report(ctx, agg_a, "A")
        # deeper below the first passive state (reached after 4 events): leave / leader-lost / re-join flows
        tot_p, stats_p, agg_p = level_bfs(pool, ctx.seed, extra, horizon_p, prefix=PASSIVE_PREFIX)
        _report(ctx, agg_p, "A")
        for (names, variant), r, st, agg in res_b:
            label = "B:%s:%s" % ("".join(names), variant)
            b_states += r.states
            b_trans += r.transitions
            b_x += r.xchecks
            outcomes_b |= r.outcomes
            stats_b.update(st)
            b_complete = b_complete and r.complete
            digests.append((label, r.digest()))
            ctx.parts[label] = dict(states=r.states, transitions=r.transitions, max_depth=r.max_depth, graph_closed=r.complete,
                                    pruned=r.pruned, complete_runs=st.get("complete_runs", 0), vams_emitted=st.get("vams_emitted", 0),
                                    delivered=st.get("delivered", 0), xchecks=r.xchecks)
            _report(ctx, agg, label)
        for n, out in res_s:
            sweep_n += n
            for rec, where in out:
                rec["part"] = "B:sweep"
                ctx.violation(rec, replay=dict(part="B:sweep", sweep=where))
    # one closed-loop history as sample: default schedule of the two-station break-up scenario (independent of the seed)
    ms = LoopModel(("A", "B"), "breakup", 0)
    ws = ms.init()
    sample_b = []
    while len(sample_b) < 40:
        evs = ms.enabled(ws)
        if not evs:
            break
        ms.apply(ws, evs[0])
        sample_b.append(list(evs[0]))
    samples.append(sample_b)
    digests.sort()
    digests.insert(0, ("A:passive+%d" % extra, tot_p.digest()))
    digests.insert(0, ("A", tot.digest()))
    ctx.parts["A:passive+%d" % extra] = dict(
        prefix=[list(e) for e in PASSIVE_PREFIX], states=tot_p.states, transitions=tot_p.transitions, depth_bound=extra,
        pruned=tot_p.pruned, xchecks=tot_p.xchecks, passive_states_probed=stats_p.get("passive_states", 0),
        probes=stats_p.get("probes", 0), states_per_depth={str(k): v for k, v in sorted(tot_p.depth_hist.items())})
    union = tot.hashes | tot_p.hashes
    n_alpha = len(alphabet())
    ctx.parts["A"] = dict(states=tot.states, transitions=tot.transitions, max_depth=tot.max_depth, depth_bound=depth,
                          pruned=tot.pruned, xchecks=tot.xchecks, passive_states_probed=stats.get("passive_states", 0),
                          probes=stats.get("probes", 0), outcomes=len(tot.outcomes), alphabet=n_alpha,
                          states_per_depth={str(k): v for k, v in sorted(tot.depth_hist.items())})
    ctx.parts["B:sweep"] = dict(evaluations=sweep_n, windows={k: v + 1 for k, v in SWEEPS.items()})
    a_trans = tot.transitions + tot_p.transitions
    ctx.coverage.update(
        states=len(union) + b_states, transitions=a_trans + b_trans + sweep_n,
        traces_validated_against_impl=a_trans + b_trans + sweep_n,
        replay_crosschecks=tot.xchecks + tot_p.xchecks + b_x, probes_executed=stats.get("probes", 0) + stats_p.get("probes", 0),
        pruned=tot.pruned + tot_p.pruned + sum(p.get("pruned", 0) for k, p in ctx.parts.items() if k.startswith("B:") and "pruned" in p),
        distinct_outcomes=len(tot.outcomes | tot_p.outcomes) + len(outcomes_b), exhaustive=bool(b_complete),
        caps=[("A", f"depth {depth}"), ("A:passive", f"prefix {len(PASSIVE_PREFIX)} + depth {extra}")], state_digests=digests,
        vams_emitted=stats_b.get("vams_emitted", 0), vams_delivered=stats_b.get("delivered", 0),
        complete_runs=stats_b.get("complete_runs", 0), emission_instants=sweep_n, worker_processes=procs,
        anchored_state_roles_identified=sorted(discover_roles()),
        samples=(tot.samples[:2] + samples[:1]) or [[list(e) for e in probe_hist]],
        explanation=("A: every transition is one call into the real VBSClusteringManager (command, update, on_received_vam "
                     "with a hand-built dict or with the output of the real VAM coder, or a clock step); all histories over "
                     f"the {n_alpha}-event alphabet up to depth {depth} from the initial state and up to depth {extra} below the first "
                     "passive state (join, 3 s, update, leader's cluster VAM), states merged by "
                     "a canonical projection (ages on the 50 ms lattice); probes are executed on copies of every distinct "
                     "passive state. B: every order of location callbacks and deliveries inside each stage of the scripted "
                     "scenarios over complete VRUAwarenessService objects; graphs closed (run to the end of the script)."),
    )
    ctx.assumptions += [
        "durations are the values of vam_constants.py (Table 15 of TS 103 300-3 as cited there); the standard was not available offline: %s" % durs,
        "VBSClusteringManager.update() is driven by the harness (the service never calls it; the statement speaks of 'the next update')",
        "canonical state = public observation + harness knowledge of the history (mc/checks/c18.py:canon_a) with the equal-futures argument given there; no private attribute of the manager is named anywhere",
        "World B explores scripted scenarios (all orders inside each stage), not free command sequences",
        "senders stand within MAX_CLUSTER_DISTANCE; positions and kinematics are constants",
    ]


# ------------------------------------------------------------------------------------------------
# replay (no explorer)
# ------------------------------------------------------------------------------------------------
def replay(path):
    rec = json.load(open(path))
    print(json.dumps(rec["violation"], indent=1))
    rp = rec["replay"]
    part = rp.get("part", "A")
    if part == "B:sweep":
        bad = sweep_case(*rp["sweep"])
        print(rp["sweep"], "->", bad or "ok")
        return 1 if bad else 0
    hist = [tuple(tuple(x) if isinstance(x, list) else x for x in e) for e in rp.get("history", [])]
    if part == "A":
        m = ManagerModel(0, 10**9)
    else:
        _, names, variant = part.split(":")
        variant, _, idchoice = variant.partition("@id=")
        m = LoopModel(tuple(names), variant, 0, idchoice or "mid")
    w = m.init()
    for i, ev in enumerate(hist):
        before = {s: a[0] for s, a in m.viol.agg.items()}
        obs = m.apply(w, ev)
        m.check(w, ev, obs, hist[:i + 1])
        new = [a[1] for s, a in m.viol.agg.items() if a[0] != before.get(s, 0)]
        print(i, ev, "->", obs, new or "ok")
    return 1 if m.viol.agg else 0
