"""C18 - VRU clustering state machine stays consistent and never silences a VRU for good (E1, model checking).

World A  explicit-state BFS over event histories of ONE real VBSClusteringManager (alphabet of the property's
         quantifier, 50 ms clock lattice).  Oracles, each exactly as strong as the statement:
           I1  leader  <=> owns a cluster, and an owned cluster has id 1..255 and cardinality >= 1
           I2  passive <=> joined to a cluster; a joined cluster has a known leader and an armed leader-lost timer
           I3  should_transmit_vam() is False only in PASSIVE / IDLE
           N   join / leave / break-up notification containers, once shown, stay for their specified duration
               (timeClusterJoinNotification / LeaveNotification / BreakupWarning) and are gone after the first
               update() at or after its end; only role-off (all), cancel/leave commands (join) and a newer leave
               notification (leave) may end one early
           J   while a join is waiting for its acknowledgement, a received cluster VAM advertising the target id
               completes it (hand-built dict AND real encode->decode output)
           W   a VAM that went through the real coder drives the manager exactly like the hand-built dict of the
               unit tests carrying the same content (differential on a copy of the pre-state)
           P1  probe on a COPY of every reachable passive state: leader silent for timeClusterContinuity (with and
               without VAMs of other stations in between), then update() => stand-alone and transmitting
           P2  probe: break-up announcement of the leader (every reason, dict and real-coder form), then update()
               => stand-alone and transmitting
World B  controlled-schedule BFS (every delivery order) over two and three COMPLETE VRUAwarenessService objects on an
         in-memory BTP loop, real VAMs only:  every location callback in a transmitting state emits exactly one VAM
         that the real coder decodes and that carries the manager's containers; none while passive/idle; a cluster VAM
         delivered to a peer is reflected in the peer's manager; a join towards the advertised cluster completes;
         members return to stand-alone and transmit again after break-up / leader loss.  Plus the complete 50 ms
         lattice of emission instants inside each notification window.

A violation behind which model and implementation have diverged cuts that branch (``_cut``); pruned successors are
counted in the evidence.
"""
from __future__ import annotations

import collections
import json
import multiprocessing as mp
import random

from mc import env  # noqa: F401
from mc.env import ENV
from mc import explore as X
from mc.worlds import vru as V
from mc.worlds.vru import VC, VBSState, ClusterLeaveReason, ClusterBreakupReason, ticks

LEVEL = "model_checking"

OWN, LDR, OTH = 10, 50, 60
GHOSTS = (71, 72, 73)
ADV, UNK = 7, 9
WHO = {"L": LDR, "O": OTH}

D_JOIN = ticks(VC.TIME_CLUSTER_JOIN_NOTIFICATION)
D_WAIT = ticks(VC.TIME_CLUSTER_JOIN_SUCCESS)
D_LEAVE = ticks(VC.TIME_CLUSTER_LEAVE_NOTIFICATION)
D_BREAK = ticks(VC.TIME_CLUSTER_BREAKUP_WARNING)
D_CONT = ticks(VC.TIME_CLUSTER_CONTINUITY)
D_NEAR = ticks(VC.T_GENVAMMAX / 1000.0)
D_UNIQ = ticks(VC.TIME_CLUSTER_UNIQUENESS_THRESHOLD)
DUR = {"join": D_JOIN, "leave": D_LEAVE, "breakup": D_BREAK}
# Durations are the values of vam_constants.py (Table 15 of TS 103 300-3 as cited there: 3 s / 0.5 s / 1 s / 3 s / 2 s).
# The standard could not be consulted offline; the code's values are pinned and the oracle follows them.

CPM = ClusterBreakupReason.RECEPTION_OF_CPM_CONTAINING_CLUSTER.value
BK_NORMAL = ClusterBreakupReason.CLUSTERING_PURPOSE_COMPLETED.value
ALL_BREAKUP_REASONS = [r.value for r in ClusterBreakupReason]

STEPS = (1, 10, 20, 40, 60)     # 0.05, 0.5, 1, 2, 3 s

RX_KINDS = ("plain", "info", "info0", "joinreq", "leavereq", "bk", "bkcpm")


def alphabet():
    a = [("role", "on"), ("role", "off"),
         ("create", "absent"), ("create", "present", 1), ("create", "present", 255), ("create", "present", "seen"),
         ("join", "adv"), ("join", 0), ("join", "unk"),
         ("cancel",),
         ("leave", ClusterLeaveReason.NOT_PROVIDED.value), ("leave", ClusterLeaveReason.SAFETY_CONDITION.value),
         ("breakup", ClusterBreakupReason.NOT_PROVIDED.value), ("breakup", CPM),
         ("update",)]
    a += [("tick", n) for n in STEPS]
    for kind in RX_KINDS:
        for who in ("L", "O"):
            if kind == "info0" and who == "L":
                continue
            for form in ("dict", "wire"):
                a.append(("rx", kind, who, form))
    return a


class HarnessError(RuntimeError):
    pass


# ------------------------------------------------------------------------------------------------
# observation of the real manager (public API + the anchored state of vru_clustering.py:315-346)
# ------------------------------------------------------------------------------------------------
def op_parts(op):
    """(kind -> identity) of the notifications shown by a VruClusterOperationContainer dict."""
    out = {}
    if not op:
        return out
    if op.get("clusterJoinInfo") is not None:
        out["join"] = (op["clusterJoinInfo"].get("clusterId"),)
    if op.get("clusterLeaveInfo") is not None:
        out["leave"] = (op["clusterLeaveInfo"].get("clusterId"), op["clusterLeaveInfo"].get("clusterLeaveReason"))
    if op.get("clusterBreakupInfo") is not None:
        out["breakup"] = (op["clusterBreakupInfo"].get("clusterBreakupReason"),)
    return out


def observe(w, mgr=None):
    m = mgr if mgr is not None else w.mgr
    with w:
        st = m.state
        tx = m.should_transmit_vam()
        op = m.get_cluster_operation_container()
        info = m.get_cluster_information_container()
        cid = m.get_cluster_id()
    return dict(state=st.name, tx=bool(tx), op=op, info=info, cid=cid, notif=op_parts(op))


def internal(m, name):
    try:
        return getattr(m, name)
    except AttributeError as e:   # the anchored state was renamed: the invariants cannot be evaluated
        raise HarnessError(f"VBSClusteringManager.{name} not found - anchored state renamed? ({e})")


def invariants(m, ob):
    """I1-I3 on one state. Returns violation records."""
    out = []
    st = ob["state"]
    cl = internal(m, "_cluster")
    joined = internal(m, "_joined_cluster_id")
    leader = internal(m, "_leader_station_id")
    timer = internal(m, "_last_leader_vam_time")
    is_leader = st == "VRU_ACTIVE_CLUSTER_LEADER"
    is_passive = st == "VRU_PASSIVE"
    # I1
    if is_leader != (cl is not None):
        out.append(dict(kind="inv_leader_iff_owns_cluster", state=st, owns=cl is not None))
    if cl is not None:
        cid, card = getattr(cl, "cluster_id", None), getattr(cl, "cardinality", None)
        if not (isinstance(cid, int) and 1 <= cid <= 255):
            out.append(dict(kind="inv_cluster_id_range", state=st, cluster_id=cid))
        if not (isinstance(card, int) and card >= 1):
            out.append(dict(kind="inv_cardinality", state=st, cardinality=card))
    info = ob["info"]
    if is_leader != (info is not None):
        out.append(dict(kind="inv_leader_iff_info_container", state=st, has_info=info is not None))
    if info is not None:
        vci = info.get("vruClusterInformation", {})
        if not (isinstance(vci.get("clusterId"), int) and 1 <= vci["clusterId"] <= 255):
            out.append(dict(kind="inv_cluster_id_range", state=st, cluster_id=vci.get("clusterId"), where="container"))
        if not (isinstance(vci.get("clusterCardinalitySize"), int) and vci["clusterCardinalitySize"] >= 1):
            out.append(dict(kind="inv_cardinality", state=st, cardinality=vci.get("clusterCardinalitySize"), where="container"))
        if cl is not None and (vci.get("clusterId") != cl.cluster_id or vci.get("clusterCardinalitySize") != cl.cardinality):
            out.append(dict(kind="inv_info_container_mismatch", state=st))
    # I2
    if is_passive != (joined is not None):
        out.append(dict(kind="inv_passive_iff_joined", state=st, joined=joined))
    if joined is not None or is_passive:
        if leader is None:
            out.append(dict(kind="inv_passive_without_leader", state=st))
        if timer is None:
            out.append(dict(kind="inv_passive_without_timer", state=st))
    if is_passive and ob["cid"] != joined:
        out.append(dict(kind="inv_passive_cluster_id_api", state=st, api=ob["cid"], joined=joined))
    # I3
    if not ob["tx"] and st not in ("VRU_PASSIVE", "VRU_IDLE"):
        out.append(dict(kind="inv_suppressed_outside_passive_idle", state=st))
    return out


# ------------------------------------------------------------------------------------------------
# canonical state
# ------------------------------------------------------------------------------------------------
def mgr_key(w, m=None):
    """Property-relevant projection of the real manager.

    Why merged states have equal futures: (1) the manager reads the clock only through differences to stored time
    stamps, so absolute time is replaced by ages on the 50 ms lattice; (2) every age is compared with one threshold
    only (>= duration) or enters a max(0, duration - age) expression, so ages are saturated at that threshold;
    (3) time stamps / reasons / target ids of a sub-procedure are read only while its sub-state is active
    (_join_started under NOTIFY/WAITING, _join_leave_* under CANCELLED/FAILED, _leave_* under leave NOTIFY), stale
    values are masked; (4) positions/kinematics of table entries are constants of the sender in this world.
    If the projection fails on a refactored tree the generic structural digest (finer) is used instead."""
    m = m if m is not None else w.mgr
    try:
        def sat(t, cap):
            return None if t is None else min(w.age(t), cap)
        js, ls = m._join_substate.name, m._leave_substate.name
        cl = None
        if m._cluster is not None:
            c = m._cluster
            cl = (c.cluster_id, c.cardinality, tuple(sorted(c.pending_members)), sat(c.breakup_started, D_BREAK),
                  c.breakup_reason.name if c.breakup_reason is not None else None, tuple(sorted(c.profiles)), c.radius)
        join = None
        if js in ("NOTIFY", "WAITING"):
            join = (m._join_target_cluster_id, sat(m._join_started, D_JOIN if js == "NOTIFY" else D_WAIT))
        elif js in ("CANCELLED", "FAILED"):
            join = (m._join_target_cluster_id, m._join_leave_reason.name if m._join_leave_reason else None,
                    sat(m._join_leave_started, D_LEAVE))
        leave = None
        if ls == "NOTIFY":
            leave = (m._leave_cluster_id, m._leave_reason.name if m._leave_reason else None, sat(m._leave_started, D_LEAVE))
        member = (m._joined_cluster_id, m._leader_station_id, sat(m._last_leader_vam_time, D_CONT))
        nv = tuple(sorted((sid, sat(v.last_seen, D_NEAR)) for sid, v in m._nearby_vrus.items()))
        nc = tuple(sorted((cid, c.leader_station_id, c.cardinality, c.bounding_box_radius, sat(c.last_seen, D_NEAR))
                          for cid, c in m._nearby_clusters.items()))
        seen = tuple(sorted((cid, sat(t, D_UNIQ)) for cid, t in m._seen_cluster_ids.items()))
        return ("P", m._state.name, js, ls, cl, join, leave, member, nv, nc, seen)
    except AttributeError:
        return ("G", V.struct(m, w.now))


def reduce_key(key, horizon_ticks):
    """Coarser key used for merging states of World A (the precise key is kept for the wire/dict differential).

    Dropped, with the reason why no future observation of this world can depend on it:
    * nearby-cluster table: the manager never reads it for a decision (only ``.get(0, default).cluster_id`` which is 0
      for the entry and for the default alike); it is bookkeeping for the application.
    * nearby-VRU entries of the two talking stations L and O: the table is read only by try_create_cluster, which
      needs NUM_CREATE_CLUSTER = 3 fresh entries; L and O are two, the ghosts arrive and age as a block of three, so
      the count reaches 3 exactly when the ghost block is fresh.  Only the (saturated) age of that block is kept.
    * ages of recently seen cluster ids: an id is forgotten after timeClusterUniquenessThreshold = 30 s; when the
      longest explored history is shorter than that (depth x 3 s) no age can reach the threshold, so only the set of
      ids matters.  (With a longer horizon the ages are kept.)
    The generic fallback key is never reduced."""
    if key[0] != "P" or VC.NUM_CREATE_CLUSTER != len(GHOSTS):
        return key
    nv = key[8]
    ghost_age = min([a for sid, a in nv if sid in GHOSTS] or [D_NEAR])
    seen = key[10]
    if horizon_ticks < D_UNIQ:
        seen = tuple(cid for cid, _a in seen)
    return key[:8] + (ghost_age, seen)


KEY_FIELDS = ("form", "state", "join_sub", "leave_sub", "own_cluster", "join", "leave", "membership", "nearby_vrus",
              "nearby_clusters", "seen_ids")


def key_diff(a, b):
    if len(a) != len(b) or a[0] != "P" or b[0] != "P":
        return "all"
    return ",".join(KEY_FIELDS[i] for i in range(len(a)) if a[i] != b[i])


def mon_key(w, horizon_ticks):
    return (tuple(sorted((k, v[0], min(w.k - v[1], DUR[k])) for k, v in w.open.items())),
            None if w.joinphase is None else (w.joinphase[0], w.joinphase[1],
                                              min(w.k - w.joinphase[2], D_JOIN if w.joinphase[0] == "notify" else D_WAIT)),
            w.leader, None if w.leader_rx_k is None else min(w.k - w.leader_rx_k, D_CONT),
            tuple(sorted((c, min(w.k - k0, D_UNIQ) if horizon_ticks >= D_UNIQ else 0) for c, k0 in w.seen.items())))


# ------------------------------------------------------------------------------------------------
# World A model
# ------------------------------------------------------------------------------------------------
def rx_containers(kind, own_cluster_id, shape):
    """(info, op) of the received VAM of an rx event."""
    target = own_cluster_id if own_cluster_id is not None else ADV
    if kind == "plain":
        return None, None
    if kind == "info":
        return V.cluster_info(ADV, shape=shape), None
    if kind == "info0":
        return V.cluster_info(0, shape=shape), None
    if kind == "joinreq":
        return None, V.op_join(target)
    if kind == "leavereq":
        return None, V.op_leave(target)
    if kind == "bk":       # a leader's break-up VAM is a cluster VAM: information + operation container
        return V.cluster_info(ADV, shape=shape), V.op_breakup(BK_NORMAL)
    if kind == "bkcpm":
        return V.cluster_info(ADV, shape=shape), V.op_breakup(CPM)
    raise ValueError(kind)


_RX_CACHE: dict = {}


def make_rx(kind, own_cluster_id, sender, form):
    """The received VAM of an rx event: hand-built dict as in the unit tests, or REAL coder output (encode then decode).
    Decoded dicts are cached per process: the manager only reads them."""
    key = (kind, own_cluster_id, sender, form)
    hit = _RX_CACHE.get(key)
    if hit is None:
        if form == "dict":
            info, op = rx_containers(kind, own_cluster_id, "dict")
            vam = V.test_style_vam(sender, info=info, op=op)
        else:
            info, op = rx_containers(kind, own_cluster_id, "tuple")
            vam = V.through_coder(V.full_vam(sender, info=info, op=op))
        info_id = info["vruClusterInformation"]["clusterId"] if info else None
        hit = _RX_CACHE[key] = (vam, info_id)
    return hit


def sig_of(rec):
    return json.dumps(rec, sort_keys=True, default=repr)


class Aggregator:
    """Violations are aggregated per distinct record (count + shortest history) inside each process; the explorer only
    gets a ``_cut`` marker, so a defect that shows at every state cannot crowd other violations out of the lists."""

    def __init__(self):
        self.agg = {}

    def take(self, recs, hist):
        cut = False
        for rec in recs:
            if rec.pop("_cut", False):
                cut = True
            s = sig_of(rec)
            a = self.agg.get(s)
            if a is None:
                self.agg[s] = [1, rec, [list(e) for e in hist]]
            else:
                a[0] += 1
        return [dict(kind="cut", _cut=True)] if cut else []

    @staticmethod
    def merge(into, other):
        for s, (n, rec, hist) in other.items():
            a = into.get(s)
            if a is None:
                into[s] = [n, rec, hist]
            else:
                a[0] += n
                if len(hist) < len(a[2]):
                    a[2] = hist


class ManagerModel:
    """World A."""

    def __init__(self, seed=0, horizon_ticks=10**9, probes=True):
        self.alpha = alphabet()
        random.Random(seed).shuffle(self.alpha)       # VERIF_SEED only permutes the enumeration order
        self.stats = collections.Counter()
        self.probed = set()
        self.probes = probes
        self.horizon = horizon_ticks                  # longest history of this exploration, in ticks
        self.viol = Aggregator()

    # -- model protocol -----------------------------------------------------------------------
    def init(self):
        V.coder()
        w = V.ManagerWorld(OWN)
        w.open = {}            # notification kind -> (identity, start tick)
        w.joinphase = None     # ("notify"|"waiting", target id, since tick)
        w.leader = None        # station whose cluster VAM completed the join (harness knowledge)
        w.leader_rx_k = None   # tick of the last VAM delivered from that station
        w.seen = {}            # cluster ids delivered in information containers -> tick
        w.bad = []
        w.flat_dicts = ("open", "seen")
        w.obs = observe(w)
        w.last = None
        return w

    def enabled(self, w):
        return self.alpha

    def canon(self, w):
        return (reduce_key(mgr_key(w), self.horizon), mon_key(w, self.horizon))

    def outcome(self, w, obs):
        return obs

    # -- one event = real calls --------------------------------------------------------------------
    def _rx(self, w, m, kind, who, form):
        sender = WHO[who]
        own = getattr(m, "_cluster", None)
        vam, info_id = make_rx(kind, own.cluster_id if own is not None else None, sender, form)
        with w:
            m.on_received_vam(vam)
        return sender, info_id

    def apply(self, w, ev):
        m = w.mgr
        pre = w.obs
        pre_joinphase = w.joinphase
        ret = None
        exc = None
        info_id = None
        sender = None
        w.bad = []
        kind = ev[0]
        diff_expect = None
        try:
            if kind == "tick":
                w.step(ev[1])
            elif kind == "role":
                with w:
                    (m.set_vru_role_on if ev[1] == "on" else m.set_vru_role_off)()
            elif kind == "create":
                if ev[1] == "present":
                    for g in GHOSTS:      # three VRUs close by announce themselves (real coder output)
                        with w:
                            m.on_received_vam(V.through_coder(V.full_vam(g)))
                lat, lon = V.pos_of(OWN)
                draws = []
                choice = ev[2] if len(ev) > 2 else 1

                def chooser(a, b, _c=choice, _d=draws, _seen=sorted(w.seen)):
                    if _c == "seen":
                        v = _seen[0] if (_seen and not _d) else 200 + len(_d) % 50
                        v = v if a <= v <= b else a    # a recently seen id 0 is outside randint(1, 255)
                    else:
                        v = _c
                    _d.append(v)
                    return v
                old = ENV.rand_int
                ENV.rand_int = staticmethod(chooser)      # cluster-id draw = harness choice
                try:
                    with w:
                        ret = m.try_create_cluster(lat, lon)
                finally:
                    ENV.rand_int = staticmethod(old)
            elif kind == "join":
                cid = {"adv": ADV, "unk": UNK}.get(ev[1], ev[1])
                with w:
                    ret = m.initiate_join(cid)
                if ret:
                    w.joinphase = ("notify", cid, w.k)
            elif kind == "cancel":
                with w:
                    m.cancel_join()
            elif kind == "leave":
                with w:
                    m.trigger_leave_cluster(ClusterLeaveReason(ev[1]))
            elif kind == "breakup":
                with w:
                    ret = m.trigger_breakup_cluster(ClusterBreakupReason(ev[1]))
            elif kind == "update":
                lat, lon = V.pos_of(OWN)
                with w:
                    m.update(lat, lon, 1.0, 90.0)
            elif kind == "rx":
                if ev[3] == "wire":
                    # W: the hand-built dict with the same content, applied to a copy of the pre-state
                    w2 = V.snapshot(w)
                    self._rx(w2, w2.mgr, ev[1], ev[2], "dict")
                    diff_expect = mgr_key(w2)
                sender, info_id = self._rx(w, m, ev[1], ev[2], ev[3])
            else:
                raise ValueError(ev)
        except HarnessError:
            raise
        except Exception as e:  # noqa: BLE001 - an exception escaping the manager's API is an observation
            exc = f"{type(e).__name__}:{str(e)[:120]}"
        post = observe(w)
        w.obs = post
        self._monitor(w, ev, pre, post, pre_joinphase, sender, info_id, exc)
        if diff_expect is not None:
            got = mgr_key(w)
            if got != diff_expect:
                has_info = ev[1] in ("info", "info0", "bk", "bkcpm")
                w.bad.append(dict(kind="wire_dict_divergence", rx=ev[1], who=ev[2], has_cluster_info=has_info,
                                  state_before=pre["state"], differs=key_diff(got, diff_expect), _cut=True))
        w.last = dict(pre_state=pre["state"], ret=ret, exc=exc)
        return (kind if kind != "rx" else "rx:" + ev[1], pre["state"], post["state"], ret, tuple(sorted(post["notif"])), post["tx"])

    # -- harness-side monitors (N, J, leader bookkeeping) ---------------------------------------------
    def _monitor(self, w, ev, pre, post, pre_joinphase, sender, info_id, exc):
        kind = ev[0]
        if exc is not None:
            w.bad.append(dict(kind="exception", event=kind, detail=ev[1] if len(ev) > 1 else None, exc=exc,
                              state_before=pre["state"], _cut=True))
        # ---- N: notification windows
        present = post["notif"]
        for nk in list(w.open):
            ident, k0 = w.open[nk]
            age = w.k - k0
            still = present.get(nk) == ident
            if still:
                if kind == "update" and age >= DUR[nk]:
                    w.bad.append(dict(kind="notification_overstays", what=nk, age_ticks=age, duration_ticks=DUR[nk],
                                      state=post["state"], _cut=True))
                    del w.open[nk]
                continue
            del w.open[nk]
            legit = (kind == "update" and age >= DUR[nk]) or (kind == "role" and ev[1] == "off")
            if nk == "join" and kind in ("cancel", "leave"):
                legit = True
            if nk == "leave" and nk in present:      # superseded by a newer leave notification (one slot in the ASN.1)
                legit = True
            if not legit:
                w.bad.append(dict(kind="notification_cut_short", what=nk, by=kind, age_ticks=age, duration_ticks=DUR[nk],
                                  state_before=pre["state"], state=post["state"], _cut=True))
        for nk, ident in present.items():
            if nk not in w.open:
                w.open[nk] = (ident, w.k)
        # ---- J: join procedure (timeClusterJoinNotification, then timeClusterJoinSuccess to be acknowledged)
        jp = w.joinphase
        if jp is not None and jp is pre_joinphase:
            if (kind == "role" and ev[1] == "off") or kind in ("cancel", "leave"):
                jp = None
            elif kind == "update":
                if jp[0] == "notify" and w.k - jp[2] >= D_JOIN:
                    jp = ("waiting", jp[1], w.k)
                elif jp[0] == "waiting" and w.k - jp[2] >= D_WAIT:
                    jp = None          # not acknowledged in time: failed join (allowed)
            elif kind == "rx" and jp[0] == "waiting" and info_id == jp[1] and exc is None:
                if post["state"] != "VRU_PASSIVE" and ev[1] in ("info", "info0"):
                    w.bad.append(dict(kind="join_not_completed", form=ev[3], rx=ev[1], who=ev[2], target=jp[1],
                                      state=post["state"], _cut=True))
                jp = None
            elif kind == "create" and post["state"] == "VRU_ACTIVE_CLUSTER_LEADER":
                jp = None
            w.joinphase = jp
        # ---- leader bookkeeping for the liveness probes
        if post["state"] == "VRU_PASSIVE":
            if pre["state"] != "VRU_PASSIVE":
                w.leader, w.leader_rx_k = sender, w.k
            elif kind == "rx" and sender == w.leader:
                w.leader_rx_k = w.k
        else:
            w.leader, w.leader_rx_k = None, None
        if kind == "rx" and info_id is not None:
            w.seen.setdefault(info_id, w.k)
        for c in [c for c, k0 in w.seen.items() if w.k - k0 >= D_UNIQ]:
            del w.seen[c]

    # -- verdicts --------------------------------------------------------------------------------
    def check(self, w, ev, obs, hist):
        if isinstance(obs, tuple) and obs and obs[0] == "EXC":
            if obs[1] == "HarnessError":
                raise HarnessError(obs[2])
            return self.viol.take([dict(kind="exception", event=ev[0], exc=obs[1] + ":" + obs[2], _cut=True)], hist)
        out = list(w.bad)
        w.bad = []
        out += invariants(w.mgr, w.obs)
        if self.probes and w.obs["state"] == "VRU_PASSIVE" and not any(r.get("_cut") for r in out):
            key = self.canon(w)
            if key not in self.probed:
                self.probed.add(key)
                out += self.probe_passive(w)
        self.stats["checked"] += 1
        return self.viol.take(out, hist)

    # -- P1 / P2: bounded liveness on a copy ------------------------------------------------------------
    def probe_passive(self, w):
        out = []
        if w.leader is None or w.leader_rx_k is None:
            return [dict(kind="probe_no_leader_on_record", state=w.obs["state"])]
        lat, lon = V.pos_of(OWN)
        other = OTH if w.leader != OTH else LDR
        joined = internal(w.mgr, "_joined_cluster_id")

        def settle(c, label, **kw):
            with c:
                c.mgr.update(lat, lon, 1.0, 90.0)
            ob = observe(c)
            self.stats["probes"] += 1
            if ob["state"] != "VRU_ACTIVE_STANDALONE" or not ob["tx"]:
                out.append(dict(kind=label, state_after=ob["state"], transmitting=ob["tx"], joined_cluster=joined, **kw))

        silent = w.k - w.leader_rx_k
        need = max(0, D_CONT - silent)
        # P1a: nobody speaks
        c = V.snapshot(w)
        c.step(need)
        settle(c, "probe_leader_lost_not_standalone", others_speaking=False, silent_ticks=silent + need)
        # P1b: other stations keep speaking (plain VAMs), the leader stays silent
        c = V.snapshot(w)
        for part in (need // 2, need - need // 2):
            with c:
                c.mgr.on_received_vam(V.test_style_vam(other))
            c.step(part)
        with c:
            c.mgr.on_received_vam(V.through_coder(V.full_vam(other)))
        settle(c, "probe_leader_lost_not_standalone", others_speaking=True, silent_ticks=silent + need)
        # P2: break-up announcement by the leader, every reason, both forms
        for reason in ALL_BREAKUP_REASONS:
            for form in ("dict", "wire"):
                c = V.snapshot(w)
                cid = joined if isinstance(joined, int) else ADV
                if form == "dict":
                    vam = V.test_style_vam(w.leader, info=V.cluster_info(cid, shape="dict"), op=V.op_breakup(reason))
                else:
                    vam = V.through_coder(V.full_vam(w.leader, info=V.cluster_info(cid, shape="tuple"), op=V.op_breakup(reason)))
                with c:
                    c.mgr.on_received_vam(vam)
                settle(c, "probe_breakup_not_standalone", reason=reason, form=form)
        return out


def _job_a(args):
    seed, prefix, depth, horizon = args
    m = ManagerModel(seed, horizon)
    r = X.bfs(m, depth, prefix=prefix, xcheck_every=997)
    r.violations = []
    return r, dict(m.stats), m.viol.agg
