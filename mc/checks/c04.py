"""C04 - no received frame can stop or derail the receive path (fault enumeration, differential oracle)."""
from __future__ import annotations

import copy
import multiprocessing as mp
import sys
import types

from mc import env  # noqa: F401
from mc import explore as X
from mc.ref import gn_codec as G
from mc.worlds import fullstack as F
from mc.worlds import stations as S

LEVEL = "fault_enumeration"

MAC_R = b"\x02\x00\x00\x00\x00\x0f"
MAC_A = b"\x02\x00\x00\x00\x00\x0a"
MAC_S = b"\x02\x00\x00\x00\x00\x01"
MAC_D = b"\x02\x00\x00\x00\x00\x0d"
ADDR_S = G.addr_encode(0, 5, MAC_S)
ADDR_D = G.addr_encode(0, 5, MAC_D)
ADDR_R = G.addr_encode(0, 5, MAC_R)
ITS_EPOCH = 1072915200
NOW = F.BASE_TIME
TST = int((NOW - ITS_EPOCH + 5) * 1000) % 2**32
LAT, LON = 410000000, 20000000

_T = {}


def template():
    """per-process: captured facility frames + pristine receiver stations (with / without LDM)"""
    if not _T:
        fr, _s = F.capture_facility_frames(mac=MAC_A)
        _T["fr"] = fr
        _T["R1"] = F.FullStation(MAC_R, 99, with_ldm=True)
        _T["R0"] = F.FullStation(MAC_R, 99, with_ldm=False)
    return _T


def crafted():
    so = dict(tst=TST, lat=LAT + 3000, lon=LON, pai=1)
    area = dict(lat=LAT, lon=LON, a=400, b=300, angle=0, shape=0)
    de = dict(addr=ADDR_D, tst=TST, lat=LAT, lon=LON + 9000)
    pay = b"\x07\xd9\x00\x00hello"      # BTP-B to an unregistered port
    kw = dict(so_addr=ADDR_S, so=so, nh=G.CNH_BTPB, payload=pay)
    out = {
        "beacon": G.build("beacon", so_addr=ADDR_S, so=so, rhl=1, mhl=1),
        "shb": G.build("shb", rhl=1, mhl=1, **kw),
        "tsb": G.build("tsb", sn=11, rhl=3, mhl=5, **kw),
        "gbc0": G.build("gbc", sn=12, rhl=3, mhl=5, area=area, **kw),
        "gbc1": G.build("gbc", sn=13, rhl=3, mhl=5, area=dict(area, shape=1), **kw),
        "gbc2": G.build("gbc", sn=14, rhl=3, mhl=5, area=dict(area, shape=2), **kw),
        "gac0": G.build("gac", sn=15, rhl=3, mhl=5, area=area, **kw),
        "guc_d": G.build("guc", sn=16, rhl=3, mhl=5, de=de, **kw),
        "guc_r": G.build("guc", sn=17, rhl=3, mhl=5, de=dict(de, addr=ADDR_R), **kw),
        "lsq": G.build("ls_request", so_addr=ADDR_S, so=so, sn=18, rhl=3, mhl=5, req_addr=ADDR_R),
        "lsr": G.build("ls_reply", so_addr=ADDR_S, so=so, sn=19, rhl=3, mhl=5, de=dict(de, addr=ADDR_R)),
    }
    return out


def classify(eth: bytes, coders) -> str:
    """reference classification of a frame arriving at R"""
    if len(eth) < 12:
        return "ignored" if eth[0:6] != MAC_R and eth[0:6] != F.BCAST else "malformed"
    dst, src = eth[0:6], eth[6:12]
    if dst == F.BCAST:
        if src == MAC_R:
            return "ignored"
    elif dst != MAC_R:
        return "ignored"
    pkt = eth[14:]
    if len(pkt) < 4:
        return "malformed"
    b = G.basic_decode(pkt[0:4])
    if b["version"] != 1 or b["nh"] != G.BNH_COMMON:
        return "malformed"            # unknown version, NH ANY/reserved, or secured on a station without security
    if len(pkt) < 12:
        return "malformed"
    c = G.common_decode(pkt[4:12])
    if (c["ht"], c["hst"]) not in G.EXT_LEN or c["ht"] == G.HT_ANY:
        return "malformed"
    if b["rhl"] > c["mhl"]:
        return "malformed"
    try:
        p = G.parse(pkt)
    except ValueError:
        if (c["ht"], c["hst"]) == (G.HT_TSB, 0) and len(pkt) >= 12 + 24:
            return "wellformed"     # SHB cut inside the media-dependent octets: position vector complete, nothing else to decode
        return "malformed"
    if c["nh"] > 3:
        return "malformed"
    e = p["ext"]
    if e["so"]["addr"]["mid"] == MAC_R:
        return "ignored"
    if p["kind"] in ("gbc", "gac"):
        if e["a"] == 0 or (c["hst"] != 0 and e["b"] == 0):
            return "malformed"
    if p["kind"] in ("beacon", "ls_request", "ls_reply"):
        return "wellformed"
    if c["nh"] not in (G.CNH_BTPA, G.CNH_BTPB):
        return "no_upper"
    pay = p["payload"]
    if len(pay) >= 4:
        port = int.from_bytes(pay[0:2], "big")
        key = {2001: "cam", 2002: "denm", 2018: "vam"}.get(port)
        if key:
            try:
                coders[key].decode(pay[4:])
            except Exception:  # noqa: BLE001
                return "undecodable_payload"
    return "wellformed"


def observe(st, skip_b_payload=None):
    gn = st.gn
    loct = []
    for addr, e in gn.location_table.loc_t.items() if hasattr(gn.location_table, "loc_t") else []:
        pv = e.position_vector
        loct.append((addr.mid.mid, e.is_neighbour, pv.tst.msec, pv.latitude, pv.longitude))
    hl = [(p, d, ex) for p, d, ex in st.handler_log if d != skip_b_payload]
    ldm = X.generic_canon(st.ldm) if st.ldm is not None else None
    return dict(handlers=hl, emitted=st.emitted(), loct=sorted(loct), ldm=ldm)


def streams(fr, cr):
    def e(pkt, src=MAC_A):
        return F.ether(F.BCAST, src, pkt)
    def resn(pkt, sn):      # same packet, other sequence number (bad frames are derived from the originals)
        return pkt[:12] + sn.to_bytes(2, "big") + pkt[14:]
    return {
        "facilities": [e(fr["cam"]), e(fr["denm2"]), e(fr["vam"])],
        "multihop": [e(resn(cr["tsb"], 111), MAC_S), e(resn(cr["gbc0"], 112), MAC_S), e(resn(cr["guc_d"], 116), MAC_S)],
        # the originals themselves: a frame that is discarded as malformed must not leave its (source, sequence number)
        # behind either - judged for malformed frames only (a well-formed variant legitimately makes the original a duplicate)
        "multihop_same_sn": [e(cr["tsb"], MAC_S), e(cr["gbc0"], MAC_S), e(cr["gac0"], MAC_S), e(cr["guc_d"], MAC_S)],
    }


X.SKIP_TYPES = ()


def family_job(args):
    fam, items, ldm_flag, positions, alternate = args
    T = template()
    fr = T["fr"]
    cr = crafted()
    cod = F.coders()
    strs = streams(fr, cr)
    bad = []
    n = 0
    classes = {}
    refs = {}
    for sname, stream in strs.items():
        r = copy.deepcopy(T["R1" if ldm_flag else "R0"])
        cons, exc = r.run_script(stream)
        if exc is not None or cons != len(stream):
            bad.append(dict(kind="baseline_stream_fails", stream=sname, exc=repr(exc)[:100]))
            continue
        refs[sname] = observe(r)
    for idx, (label, eth) in enumerate(items):
        cls = classify(eth, cod)
        classes[cls] = classes.get(cls, 0) + 1
        for si, (sname, stream) in enumerate(strs.items()):
            if sname not in refs:
                continue
            if alternate and (idx + si) % 2:
                continue            # big families (quick tier): alternate the stream per frame
            if sname == "multihop_same_sn" and cls != "malformed":
                continue
            for pos in positions:
                n += 1
                r = copy.deepcopy(T["R1" if ldm_flag else "R0"])
                script = stream[:pos] + [eth] + stream[pos:]
                cons, exc = r.run_script(script)
                rec = dict(family=fam, label=label, cls=cls, stream=sname, pos=pos, ldm=ldm_flag)
                if exc is not None or cons != len(script):
                    bad.append(dict(kind="receive_loop_died", exc=f"{type(exc).__name__}: {str(exc)[:70]}" if exc else "stopped",
                                    exc_type=type(exc).__name__ if exc else "-", consumed=cons, of=len(script), **rec))
                    continue
                if cls == "wellformed":
                    continue
                b_pay = None
                if cls == "undecodable_payload":
                    b_pay = G.parse(eth[14:])["payload"][4:]
                got = observe(r, b_pay)
                ref = refs[sname]
                keys = ["handlers", "ldm"]
                if cls in ("malformed", "ignored"):
                    keys += ["emitted", "loct"]
                diff = [k for k in keys if got[k] != ref[k]]
                if diff:
                    bad.append(dict(kind="bad_frame_had_effect", differs=diff, **rec))
    return n, bad, classes


# ---- bad frame families ----------------------------------------------------------------------------
def families(thorough):
    T = template()
    fr = T["fr"]
    cr = crafted()
    fam = {}

    def eth(pkt, src=MAC_S, dst=F.BCAST):
        return F.ether(dst, src, pkt)

    valid = dict(cr)
    valid.update(cam=fr["cam"], denm=fr["denm"], vam=fr["vam"])
    fam["first_octet"] = [(f"{v:02x}", eth(bytes([v]) + cr["shb"][1:])) for v in range(256)]
    body = cr["gbc0"]
    fam["nh_ht_hst"] = [(f"{nh:x}{ht:x}{hst:x}", eth(body[:4] + bytes([(nh << 4), (ht << 4) | hst]) + body[6:]))
                        for nh in range(16) for ht in range(16) for hst in range(16)]
    fam["truncation"] = [(f"{k}:{n}", eth(p[:n])) for k, p in valid.items() for n in range(len(p))]
    flips = []
    for k, p in valid.items():
        lim = len(p) if thorough else min(len(p), 64)
        for i in range(lim):
            for bit in range(8):
                if not thorough and i >= 40 and bit % 3:
                    continue
                q = bytearray(p)
                q[i] ^= 1 << bit
                flips.append((f"{k}:{i}.{bit}", eth(bytes(q))))
    fam["bitflip"] = flips
    fam["rhl_gt_mhl"] = [(f"{k}:{rhl}>{mhl}", eth(p[:3] + bytes([rhl]) + p[4:10] + bytes([mhl]) + p[11:]))
                         for k, p in valid.items() for rhl, mhl in ((1, 0), (2, 1), (255, 254), (255, 0), (128, 127))]
    fam["station_type"] = [(f"{k}:m{m}st{st}", eth(p[:12 + off] + bytes([(m << 7) | (st << 2)]) + p[13 + off:]))
                           for k, off, p in (("shb", 0, cr["shb"]), ("tsb", 4, cr["tsb"]), ("gbc0", 4, cr["gbc0"]))
                           for m in (0, 1) for st in range(32)]
    areas = []
    for k in ("gbc0", "gbc1", "gbc2", "gac0"):
        p = cr[k]
        for a in (0, 1, 65535):
            for b in (0, 1, 65535):
                q = p[:12 + 36] + a.to_bytes(2, "big") + b.to_bytes(2, "big") + p[12 + 40:]
                areas.append((f"{k}:a{a}b{b}", eth(q)))
    fam["areas"] = areas
    fam["lifetime"] = [(f"{k}:lt{lt}", eth(p[:2] + bytes([lt]) + p[3:])) for k, p in (("shb", cr["shb"]), ("gbc0", cr["gbc0"])) for lt in range(256)]
    pays = []
    for key, port in (("cam", 2001), ("denm", 2002), ("vam", 2018)):
        p = fr[key]
        gp = G.parse(p)
        head = p[:len(p) - len(gp["payload"])]
        msg = gp["payload"][4:]
        btp = gp["payload"][:4]
        for n in range(len(msg)):
            pays.append((f"{key}:trunc{n}", eth(head + btp + msg[:n], MAC_A)))
        for i in range(len(msg)):
            for bit in range(8):
                if not thorough and (i * 8 + bit) % 3:
                    continue
                q = bytearray(msg)
                q[i] ^= 1 << bit
                pays.append((f"{key}:flip{i}.{bit}", eth(head + btp + bytes(q), MAC_A)))
        pays.append((f"{key}:garbage", eth(head + btp + b"\xff" * 30, MAC_A)))
        pays.append((f"{key}:zeros", eth(head + btp + b"\x00" * 30, MAC_A)))
    fam["facility_payload"] = pays
    misc = [("empty", b""), ("hdr_only", F.BCAST + MAC_S + b"\x89\x47"), ("short", F.BCAST + MAC_S)]
    for n in range(0, 41):
        misc.append((f"zeros{n}", eth(b"\x00" * n)))
        misc.append((f"ff{n}", eth(b"\xff" * n)))
        misc.append((f"count{n}", eth(bytes(range(0x11, 0x11 + n)))))
    misc.append(("own_mac_src", eth(cr["shb"], MAC_R)))
    misc.append(("foreign_unicast", eth(cr["shb"], MAC_S, MAC_D)))
    misc.append(("unicast_to_us", eth(cr["shb"], MAC_S, MAC_R)))
    misc.append(("own_gn_addr", eth(G.build("shb", so_addr=ADDR_R, so=dict(tst=TST, lat=LAT, lon=LON), rhl=1, mhl=1, nh=G.CNH_BTPB, payload=b"\x07\xd1\0\0x"))))
    misc.append(("secured_nh", eth(bytes([0x12]) + cr["shb"][1:])))
    misc.append(("oversize", eth(cr["shb"] + b"\xaa" * 1500)))
    fam["misc"] = misc
    return fam


def cv2x_loop_job(items):
    """second target: cv2x callback_handler_loop over a scripted queue (native module stubbed)."""
    stub = types.ModuleType("flexstack.linklayer.cv2xlinklayer")
    stub.CV2XLinkLayer = type("CV2XLinkLayer", (), {})
    sys.modules.setdefault("flexstack.linklayer.cv2xlinklayer", stub)
    from flexstack.linklayer.cv2x_link_layer import PythonCV2XLinkLayer
    T = template()
    bad, n = [], 0

    class Q:
        def __init__(self, items):
            self.items = list(items)

        def get(self):
            return self.items.pop(0) if self.items else None

    fr = T["fr"]
    for label, ethf in items:
        n += 1
        r = copy.deepcopy(T["R1"])
        ll = PythonCV2XLinkLayer.__new__(PythonCV2XLinkLayer)
        ll.receive_callback = r.gn.gn_data_indicate
        ll.link_layer = None
        q = Q([ethf[14:], fr["cam"], fr["vam"]])
        try:
            with r:
                ll.callback_handler_loop(q)
        except Exception as e:  # noqa: BLE001
            bad.append(dict(kind="receive_loop_died", family="cv2x", label=label, exc=f"{type(e).__name__}: {str(e)[:70]}",
                            exc_type=type(e).__name__, cls="-", stream="cv2x", pos=0, ldm=True, consumed=0, of=3))
            continue
        if [p for p, _d, _e in r.handler_log][-2:] != [2001, 2018]:
            bad.append(dict(kind="bad_frame_had_effect", family="cv2x", label=label, differs=["handlers"]))
    return n, bad, {}


def _run(j):
    return j[0](j[1])


def run(ctx):
    thorough = ctx.tier == "thorough"
    template()                      # compile coders once, before forking
    fams = families(thorough)
    import os
    if os.environ.get("C04_FAMS"):
        fams = {k: v for k, v in fams.items() if k in os.environ["C04_FAMS"].split(",")}
    positions = [0, 1, 2, 3] if thorough else [0, 2]
    jobs = []
    for name, items in fams.items():
        for ldm_flag in (True, False):
            if not ldm_flag and name not in ("facility_payload", "misc", "first_octet"):
                continue
            step = 60
            for i in range(0, len(items), step):
                jobs.append((family_job, (name, items[i:i + step], ldm_flag, positions,
                                          (not thorough) and name in ("nh_ht_hst", "bitflip", "facility_payload", "truncation"))))
    cvitems = (fams.get("misc", []) + fams.get("first_octet", [])[::8] + fams.get("nh_ht_hst", [])[::64] + fams.get("areas", [])
               + fams.get("facility_payload", [])[::25])
    for i in range(0, len(cvitems), 50):
        jobs.append((cv2x_loop_job, cvitems[i:i + 50]))
    if ctx.seed:
        import random
        random.Random(ctx.seed).shuffle(jobs)
    total = 0
    classes = {}
    with mp.Pool(16) as pool:
        for n, bad, cl in pool.imap_unordered(_run, jobs):
            total += n
            for k, v in cl.items():
                classes[k] = classes.get(k, 0) + v
            for rec in bad:
                ctx.violation(rec, replay=rec)
    nframes = sum(len(v) for v in fams.values())
    ctx.parts["families"] = {k: len(v) for k, v in fams.items()}
    ctx.parts["classes"] = classes
    ctx.coverage.update(
        evaluations=total, distinct_nontrivial=nframes,
        rule=("bad frames: all 256 first octets, all 16x16x16 (NH,HT,HST) triples, every truncation length and bit flips of 14 valid packet "
              "kinds (11 crafted GN kinds + real CAM/DENM/VAM frames), RHL>MHL, all station types, zero/oversized areas, all lifetime codes, "
              "every truncation and bit flips of real CAM/DENM/VAM payloads, arbitrary short byte strings, own-MAC / foreign-unicast frames; "
              "each inserted at several positions of two valid streams and run through the REAL RawLinkLayer.receive() loop of a complete "
              "station (CA+DEN+VRU, with/without LDM) next to a run without it; a reference parser classifies the frame and fixes what must "
              "be identical. distinct_nontrivial = number of distinct bad frames; evaluations = runs."),
        samples=[dict(family="nh_ht_hst", label="07f", expect="discarded, later frames unaffected"),
                 dict(family="facility_payload", label="cam:trunc5", expect="handler discards; LDM unchanged")],
        exhaustive=True)
    ctx.assumptions += ["reference classification in mc/checks/c04.py:classify (well-formed frames only need the loop to stay alive)",
                        "cv2x loop exercised with the native module stubbed"]


def replay(path):
    import json
    rec = json.load(open(path))
    print(json.dumps(rec["violation"], indent=1))
    return 1
