"""C10 - CAM and VAM generation follow the timing and trigger rules of their standards (E1, model checking).

Explicit-state BFS over event histories of the *real* CAMTransmissionManagement / VAMTransmissionManagement
(mc/worlds/facilities.py: recording BTP router, virtual clock, virtual T_CheckCamGen timer) in lock-step with the
reference monitors mc/ref/cam_rules.py / mc/ref/vam_rules.py (transcriptions of the property statement).

Events
    ("start", d)            activate the CA service, initial random delay d ms (harness choice for random.uniform)
    ("stop",)               deactivate
    ("tick",)               fire the next virtual timer (one T_CheckCamGen expiry)
    ("late", d)             environment deviation: the next T_CheckCamGen expiry happens d ms after it was due
    ("btp", down|up)        environment fault: the lower layers reject / accept requests (Annex B.2.5 skip)
    ("rep", p, kind, arg)   advance p ms (firing every check due on the way, each one checked), then deliver a
                            position report time-stamped "now" whose dynamics are changed by (kind, arg):
                            none | h i (heading := menu h[i]) | s i (speed) | p i (north offset, m) | e i (east offset, m) |
                            miss f (report without field f)
    ("gap", g)              advance g ms without any report
    ("role", x)             VAM only, clustering manager attached: VRU role off / on (idle)

State merging (canon): every time is kept relative to "now" (capped where the code only compares against a
threshold), the dynamics by their menu values; absolute time is dropped, which is sound because the rules are
translation invariant - the one absolute quantity, generationDeltaTime, is a pure function of the report's time
string and is checked on a separate lattice of absolute times around multiples of 65 536 ms.  The CAM path
history (content of the LF container only, never read by a decision) is dropped as well.
"""
from __future__ import annotations

import json
import math
import multiprocessing as mp
import random

from mc import env  # noqa: F401
from mc import explore as X
from mc.ref import cam_rules as CR
from mc.ref import vam_rules as VR
from mc.worlds import facilities as F

LEVEL = "model_checking"

# Dynamics menus.  "std": a moving vehicle at 41N 2E.  "zero": stop-and-go at the origin of every scale - the state
# carried by the last CAM / VAM is exactly 0 (speed 0.0, heading 0.0, latitude 0.0, longitude 0.0: all *falsy* in
# Python) or sits on the 0/360 seam, and every threshold step is taken from there in both directions.
MENUS = {
    "std": dict(base=(41.0, 2.0), init=dict(h=1, s=0, p=0, e=0),
                h=[355.0, 359.0, 3.0, 3.1, 7.2],          # 359.0 -> 3.0 is exactly 4.0 deg across the wrap, 359.0 -> 3.1 is 4.1
                s=[5.0, 5.5, 5.51, 6.02],                 # 5.0 -> 5.5 exactly 0.50, 5.0 -> 5.51 and 5.51 -> 6.02 are 0.51
                p=[0.0, 4.0, 4.1, 8.2],                   # metres north of the base position
                e=[0.0, 4.0, 4.1]),                       # metres east of the base position
    "zero": dict(base=(0.0, 0.0), init=dict(h=0, s=0, p=0, e=0),
                 h=[0.0, 4.0, 4.1, 356.0, 355.9, 360.0, 359.95],   # from north: +4.0 / +4.1, -4.0 / -4.1 across the seam, 360.0 == 0.0
                 s=[0.0, 0.5, 0.51, 1.02],                          # standstill, then pulling away by exactly 0.50 / 0.51
                 p=[0.0, 4.0, 4.1, -4.1],                           # equator: north and south of latitude 0.0
                 e=[0.0, 4.0, 4.1, -4.1]),                          # prime meridian: east and west of longitude 0.0
}
DIMS = ("h", "s", "p", "e")
MISSABLE = ("track", "speed", "lat", "lon", "time")
ORIG_T_CHECK = F.ctm.T_CHECK_CAM_GEN      # configuration of the tree under test (T_CheckCamGen, ms)


def _deg_per_m(lat):
    phi = math.radians(lat)
    s2 = math.sin(phi) ** 2
    m = CR.WGS84_A * (1 - CR.WGS84_E2) / (1 - CR.WGS84_E2 * s2) ** 1.5
    n = CR.WGS84_A / math.sqrt(1 - CR.WGS84_E2 * s2)
    return 1.0 / math.radians(1.0) / m, 1.0 / math.radians(1.0) / (n * math.cos(phi))


def mk_tpv(w, menu, kind, arg):
    blat, blon = menu["base"]
    dn, de = _deg_per_m(blat)
    tpv = {"class": "TPV", "mode": 3, "time": F.iso_ms(w.ms), "lat": blat + menu["p"][w.p] * dn, "lon": blon + menu["e"][w.e] * de,
           "track": menu["h"][w.h], "speed": menu["s"][w.s], "altHAE": 120.0, "epx": 2.0, "epy": 3.0, "epv": 4.0, "epd": 1.0}
    if kind == "miss":
        del tpv[arg]
    return tpv


def _step_dyn(w, kind, arg):
    if kind in DIMS:
        setattr(w, kind, arg)


def _tpv_proj(tpv, base=(0.0, 0.0)):
    if tpv is None:
        return None
    return (tpv.get("track"), tpv.get("speed"), None if "lat" not in tpv else round((tpv["lat"] - base[0]) * 1e7),
            None if "lon" not in tpv else round((tpv["lon"] - base[1]) * 1e7), "time" in tpv)


def _init_dyn(w, menu):
    for k in DIMS:
        setattr(w, k, menu["init"][k])


def _dims(w):
    return tuple(getattr(w, k) for k in DIMS)


def _order(evs, seed):
    if seed:
        evs = sorted(evs, key=repr)
        random.Random(seed).shuffle(evs)
    return evs


def _decode(kind, sent, port, bad):
    out = []
    for s in sent:
        if s.port != port:
            bad.append(dict(kind=kind + "_wrong_port", port=s.port))
        try:
            out.append(F.coder(kind).decode(s.data))
        except Exception as e:  # noqa: BLE001
            bad.append(dict(kind=kind + "_undecodable", exc=type(e).__name__))
    return out


# ------------------------------------------------------------------------------------------------------
# CAM
# ------------------------------------------------------------------------------------------------------
class CamModel:
    def __init__(self, periods, dyns, delays=(0,), check_period=100, allow_stop=True, gaps=(), seed=0, first_delays=None, menu="std",
                 lates=(), btp=False):
        self.menu = MENUS[menu]
        self.lates, self.btp = list(lates), btp        # environment deviations: check timer fired late / lower layers down
        self.periods, self.dyns, self.delays = list(periods), [tuple(d) for d in dyns], list(delays)
        self.check_period, self.allow_stop, self.gaps, self.seed = check_period, allow_stop, list(gaps), seed
        self.first_delays = list(first_delays) if first_delays is not None else self.delays

    def _patch(self):
        # T_CheckCamGen is a module constant read at call time ("T_CheckCamGen <= T_GenCamMin"): configuration, not code.
        # check_period None = leave the tree's own value in place (a changed constant is then *not* masked).
        F.ctm.T_CHECK_CAM_GEN = ORIG_T_CHECK if self.check_period is None else self.check_period

    def init(self):
        self._patch()
        w = F.FacWorld()
        w.add_cam()
        w.ref = CR.CamRules(100 if self.check_period is None else self.check_period)
        _init_dyn(w, self.menu)
        w.bad, w.cut, w.starts, w.last_n = [], False, 0, 0
        return w

    def enabled(self, w):
        if w.cut:
            return []
        evs = []
        if w.next_timer() is not None:
            evs.append(("tick",))
            evs += [("late", d) for d in self.lates]
        if self.btp:
            evs.append(("btp", "up" if w.btp.down else "down"))
        if not w.ref.active:
            evs += [("start", d) for d in (self.first_delays if w.starts == 0 else self.delays)]
        elif self.allow_stop:
            evs.append(("stop",))
            evs.append(("start", self.delays[0]))       # start while active must be a no-op
        for p in self.periods:
            for kind, arg in self.dyns:
                if kind in DIMS and getattr(w, kind) == arg:
                    continue
                evs.append(("rep", p, kind, arg))
        if w.ref.active:
            evs += [("gap", g) for g in self.gaps]
        return _order(evs, self.seed)

    def apply(self, w, ev):
        self._patch()
        w.bad = []
        ref = w.ref
        n_before = len(w.sent)

        def on_fire(world, n0):
            cams = _decode("cam", world.sent[n0:], 2001, w.bad)
            w.bad += ref.check(world.ms, cams)

        try:
            if ev[0] == "start":
                w.start_cam(ev[1])
                w.starts += 1
                ref.start(w.ms)
                w.bad += ref.emitted_outside_check(w.ms, len(w.sent) - n_before)
            elif ev[0] == "stop":
                w.stop_cam()
                ref.stop(w.ms)
                w.bad += ref.emitted_outside_check(w.ms, len(w.sent) - n_before)
            elif ev[0] == "tick":
                w.fire_next()
                on_fire(w, n_before)
            elif ev[0] == "late":
                w.fire_next(late_ms=ev[1])
                on_fire(w, n_before)
            elif ev[0] == "btp":
                w.btp.down = ev[1] == "down"
                ref.set_link(w.ms, not w.btp.down)
            elif ev[0] == "gap":
                w.advance_to(w.ms + ev[1], on_fire)
            elif ev[0] == "rep":
                _p, kind, arg = ev[1], ev[2], ev[3]
                w.advance_to(w.ms + ev[1], on_fire)
                _step_dyn(w, kind, arg)
                tpv = mk_tpv(w, self.menu, kind, arg)
                n0 = len(w.sent)
                w.report(w.cam_tm, tpv)
                ref.on_report(w.ms, dict(tpv), w.ms if "time" in tpv else None)
                w.bad += ref.emitted_outside_check(w.ms, len(w.sent) - n0)
            else:
                raise ValueError(ev)
        except Exception as e:  # noqa: BLE001 - an exception escaping the service is an observation
            w.bad.append(dict(kind="cam_exception", event=ev[0], exc=type(e).__name__, detail=str(e)[:80]))
        w.last_n = len(w.sent) - n_before
        del w.sent[:]                      # already checked; keeps snapshots small
        if w.bad:
            w.cut = True
        return None

    def check(self, w, ev, obs, hist):
        out = []
        for r in w.bad:
            r = dict(r)
            r["check_period"] = 100 if self.check_period is None else self.check_period
            r["_cut"] = True
            out.append(r)
        return out

    def canon(self, w):
        tm, ms, base = w.cam_tm, w.ms, self.menu["base"]
        t = w.next_timer()
        phase = None if t is None else w.timer_ms(t) - ms
        rel = lambda v, cap: None if v is None else min(ms - v, cap)   # noqa: E731
        try:
            impl = (tm._active, tm.t_gen_cam, tm._n_gen_cam_counter, min(tm._cam_count, 2), rel(tm._last_cam_time_ms, 5000),
                    rel(tm._last_lf_time_ms, 500), rel(tm._last_vlf_time_ms, 10000), rel(tm._last_special_time_ms, 500),
                    tm._last_cam_heading, tm._last_cam_speed,
                    None if tm._last_cam_lat is None else round((tm._last_cam_lat - base[0]) * 1e7),
                    None if tm._last_cam_lon is None else round((tm._last_cam_lon - base[1]) * 1e7), _tpv_proj(tm._current_tpv, base))
        except AttributeError:   # refactored tree: fall back to the generic digest (finer states, still sound)
            impl = X.generic_canon({k: v for k, v in vars(tm).items() if k not in ("btp_router", "cam_coder", "logging", "_path_history")})
        return (phase, len(w.pending_timers()), impl, w.ref.state(ms), _dims(w), _tpv_proj(w.ref.report, base),
                _tpv_proj(w.ref.last_cam_report, base), w.cut, min(w.starts, 1), w.btp.down)

    def outcome(self, w, obs):
        return ("cam", w.last_n, w.ref.last_lf_ms == w.ref.last_cam_ms and w.last_n > 0, w.cam_tm.t_gen_cam, w.cut)

    def share(self, w):
        # immutable values (report dicts are never mutated by anybody, path-history entries are tuples of floats) are
        # shared between snapshots: 3x fewer objects per deepcopy
        out = F.shared_objects(w)
        out += [d for d in (w.ref.report, w.ref.last_cam_report, getattr(w.cam_tm, "_current_tpv", None)) if d is not None]
        out += list(getattr(w.cam_tm, "_path_history", ()))
        return out


def mk_cam(*a):
    return CamModel(*a)


# ------------------------------------------------------------------------------------------------------
# VAM
# ------------------------------------------------------------------------------------------------------
class VamModel:
    def __init__(self, periods, dyns, gaps=(), clustering=False, seed=0, start_gdt=None, menu="std"):
        self.menu = MENUS[menu]
        self.periods, self.dyns, self.gaps = list(periods), [tuple(d) for d in dyns], list(gaps)
        self.clustering, self.seed = clustering, seed
        # start_gdt: absolute start time chosen so that generationDeltaTime(start) == start_gdt (wrap lattice); absolute
        # time is then part of the canonical state (no translation-invariance argument is used in those parts)
        self.start_gdt = start_gdt

    def init(self):
        start = F.BASE_MS
        if self.start_gdt is not None:
            start += (self.start_gdt - F.its_ms(F.BASE_MS)) % 65536
        w = F.FacWorld(start_ms=start)
        w.add_vam(clustering=self.clustering)
        w.ref = VR.VamRules()
        _init_dyn(w, self.menu)
        w.bad, w.cut, w.last_n, w.idle = [], False, 0, False
        return w

    def enabled(self, w):
        if w.cut:
            return []
        evs = []
        for p in self.periods:
            for kind, arg in self.dyns:
                if kind in DIMS and getattr(w, kind) == arg:
                    continue
                evs.append(("rep", p, kind, arg))
        evs += [("gap", g) for g in self.gaps]
        if self.clustering:
            evs.append(("role", "on" if w.idle else "off"))
        return _order(evs, self.seed)

    def apply(self, w, ev):
        w.bad = []
        ref = w.ref
        n_before = len(w.sent)
        if ev[0] == "gap":
            w.advance_to(w.ms + ev[1])
        elif ev[0] == "role":
            with w:
                if ev[1] == "off":
                    w.cluster.set_vru_role_off()
                else:
                    w.cluster.set_vru_role_on()
            w.idle = ev[1] == "off"
            ref.set_suppressed(w.idle)
        elif ev[0] == "rep":
            kind, arg = ev[2], ev[3]
            w.advance_to(w.ms + ev[1])
            _step_dyn(w, kind, arg)
            tpv = mk_tpv(w, self.menu, kind, arg)
            exc = None
            try:
                w.report(w.vam_tm, tpv)
            except Exception as e:  # noqa: BLE001
                exc = e
            vams = _decode("vam", w.sent[n_before:], 2018, w.bad)
            if exc is not None:
                w.bad.append(dict(kind="vam_exception", exc=type(exc).__name__, detail=str(exc)[:60],
                                  missing=arg if kind == "miss" else "", first=not ref.first_done))
                w.cut = True
            else:
                w.bad += ref.on_report(w.ms, dict(tpv), w.ms if "time" in tpv else None, vams)
        else:
            raise ValueError(ev)
        if w.timers:
            w.bad.append(dict(kind="vam_unexpected_timer", count=len(w.timers)))
        w.last_n = len(w.sent) - n_before
        del w.sent[:]
        if w.bad:
            w.cut = True
        return None

    def check(self, w, ev, obs, hist):
        out = []
        for r in w.bad:
            r = dict(r)
            r["period_ms"] = ev[1] if ev[0] == "rep" else 0
            r["_cut"] = True
            out.append(r)
        return out

    def canon(self, w):
        tm, ms, base = w.vam_tm, w.ms, self.menu["base"]
        try:
            last = tm.last_vam_generation_delta_time
            impl = (None if last is None else (F.its_ms(ms) - last.msec) % 65536, tm.t_genvam,
                    tuple(round((x - b) * 1e7) for x, b in zip(tm.last_sent_position, base)),
                    tm.last_vam_speed, tm.last_vam_heading,
                    None if tm.last_lf_vam_time is None else min(int(round((w.now - tm.last_lf_vam_time) * 1000)), 2001),
                    tm.is_first_vam, None if w.cluster is None else w.cluster.state.name)
        except AttributeError:
            impl = X.generic_canon({k: v for k, v in vars(tm).items() if k not in ("btp_router", "vam_coder", "logging")})
        return (impl, w.ref.state(ms), _dims(w), _tpv_proj(w.ref.last_vam_report, base), w.cut, w.idle,
                None if self.start_gdt is None else F.its_ms(ms) % 65536)

    def outcome(self, w, obs):
        return ("vam", w.last_n, w.ref.last_lf_ms == w.ref.last_vam_ms and w.last_n > 0, w.cut)

    def share(self, w):
        return F.shared_objects(w) + [d for d in (w.ref.last_vam_report,) if d is not None]


def mk_vam(*a):
    return VamModel(*a)


# ------------------------------------------------------------------------------------------------------
# generationDeltaTime on a lattice of absolute times
# ------------------------------------------------------------------------------------------------------
def _gdt_chunk(args):
    """Every millisecond of [lo, hi) x microsecond fractions through the real CAM/VAM message builders."""
    lo, hi, micros = args
    bad = []
    n = 0
    cam = F.CooperativeAwarenessMessage()
    vam = F.VAMMessage()
    for ms in range(lo, hi):
        want = CR.expected_gdt(ms)
        for mu in micros:
            n += 2
            s = F.iso_ms(ms, mu)
            cam.fullfill_gen_delta_time_with_tpv_data({"time": s})
            vam.fullfill_gen_delta_time_with_tpv_data({"time": s})
            got_c, got_v = cam.cam["cam"]["generationDeltaTime"], vam.vam["vam"]["generationDeltaTime"]
            if got_c != want:
                bad.append(dict(kind="cam_gdt", got=got_c, expected=want, delta=(got_c - want + 32768) % 65536 - 32768, unix_ms=ms, micro=mu))
            if got_v != want:
                bad.append(dict(kind="vam_gdt", got=got_v, expected=want, delta=(got_v - want + 32768) % 65536 - 32768, unix_ms=ms, micro=mu))
    return n, bad


def _gdt_pipeline(args):
    """Whole pipeline (report -> check timer -> encode -> BTP) at absolute times around multiples of 65 536 ms."""
    cycles, offs, fracs = args
    bad = []
    n = 0
    seen = set()
    for k in cycles:
        for off in offs:
            for fr in fracs:
                unix_ms = F.ITS_EPOCH_MS - F.LEAP_MS + k * 65536 + off
                for which in ("cam", "vam"):
                    n += 1
                    w = F.FacWorld(start_ms=unix_ms, frac=fr)
                    tpv = {"time": F.iso_ms(unix_ms), "lat": 41.0, "lon": 2.0, "track": 10.0, "speed": 1.0}
                    try:
                        if which == "cam":
                            w.add_cam()
                            w.start_cam(0)
                            w.report(w.cam_tm, tpv)
                            w.fire_next()
                        else:
                            w.add_vam()
                            w.report(w.vam_tm, tpv)
                        msgs = [F.coder(which).decode(s.data) for s in w.sent]
                    except Exception as e:  # noqa: BLE001
                        bad.append(dict(kind=which + "_gdt_pipeline_exception", exc=type(e).__name__, unix_ms=unix_ms, frac=fr, detail=str(e)[:60]))
                        continue
                    if len(msgs) != 1:
                        bad.append(dict(kind=which + "_gdt_pipeline_count", count=len(msgs), unix_ms=unix_ms, frac=fr))
                        continue
                    got = msgs[0][which]["generationDeltaTime"]
                    want = CR.expected_gdt(unix_ms)
                    seen.add(got)
                    if got != want:
                        bad.append(dict(kind=which + "_gdt", got=got, expected=want, delta=(got - want + 32768) % 65536 - 32768,
                                        unix_ms=unix_ms, micro=0, frac=fr))
    return n, bad, sorted(seen)


# ------------------------------------------------------------------------------------------------------
def _parts(thorough, seed):
    D = lambda *xs: [list(x) for x in xs]   # noqa: E731
    none = ["none", 0]
    cam = [
        # label, args(periods, dyns, delays, check_period, allow_stop, gaps, seed, first_delays), depth, split
        ("cam_timing", ([20, 100, 250, 1000], D(none, ["s", 2], ["s", 0]), [0, 50, 99], None, True, [1200], seed), 7 if thorough else 5, 2),
        ("cam_thr_heading", ([100], D(none, *[["h", i] for i in range(5)]), [0], None, False, [], seed), 7 if thorough else 6, 2),
        ("cam_thr_speed", ([100], D(none, *[["s", i] for i in range(4)]), [0], None, False, [], seed), 7 if thorough else 6, 2),
        ("cam_thr_position", ([100], D(none, *[["p", i] for i in range(4)], *[["e", i] for i in range(3)]), [0], None, False, [], seed),
         6 if thorough else 5, 2),
        # stop-and-go / boundary values: the last CAM carries speed 0.0, heading 0.0 (or 360.0 / 359.95), latitude 0.0, longitude 0.0
        ("cam_zero_heading", ([100], D(none, *[["h", i] for i in range(7)]), [0], None, False, [], seed, None, "zero"), 6 if thorough else 5, 2),
        ("cam_zero_speed", ([100], D(none, *[["s", i] for i in range(4)]), [0], None, False, [], seed, None, "zero"), 7 if thorough else 6, 2),
        ("cam_zero_position", ([100], D(none, *[["p", i] for i in range(4)], *[["e", i] for i in range(4)]), [0], None, False, [], seed, None, "zero"),
         6 if thorough else 5, 2),
        ("cam_stop_go", ([100, 250, 1000], D(none, ["s", 2], ["s", 0], ["s", 3], ["p", 1]), [0, 50], None, True, [], seed, None, "zero"),
         6 if thorough else 5, 2),
        # environment deviations: late check expiries, report outages (gap), stop / start, lower-layer outage - each followed
        # by dynamics steps and by normal operation (the T_GenCamMax bound is judged at every later check)
        ("cam_late", ([20, 1000], D(none, ["s", 2], ["s", 0]), [0], None, False, [1200], seed, None, "std", [150, 900, 2500]),
         7 if thorough else 6, 2),
        ("cam_late_restart", ([100], D(none, ["s", 2], ["s", 0]), [0], None, True, [1200, 3000], seed, None, "zero", [900, 2500]),
         6 if thorough else 5, 2),
        ("cam_btp_outage", ([100, 1000], D(none, ["s", 2], ["s", 0]), [0], None, False, [1200], seed, None, "std", [], True),
         8 if thorough else 7, 2),
        ("cam_missing", ([100, 1000], D(none, *[["miss", f] for f in MISSABLE], ["s", 2], ["h", 3]), [0], None, True, [], seed),
         6 if thorough else 4, 2),
        ("cam_fast_lf", ([100], D(["s", 2], ["s", 0], none), [0], None, False, [], seed), 14 if thorough else 10, 2),
        ("cam_check50", ([20, 100], D(none, ["s", 2], ["s", 0], ["h", 3], ["h", 1]), [0, 49], 50, True, [], seed), 9 if thorough else 6, 2),
        ("cam_steady", ([1000, 100], D(none), [0], None, False, [], seed, [0]), 400, 1),
    ]
    if thorough:
        # all three dimensions in one alphabet (cross-dimension histories)
        cam.append(("cam_thresholds", ([100], D(none, *[["h", i] for i in range(5)], *[["s", i] for i in range(4)], *[["p", i] for i in range(4)]),
                                       [0], None, False, [], seed), 6, 2))
        cam.append(("cam_check20", ([20, 100], D(none, ["s", 2], ["s", 0]), [0, 19], 20, False, [], seed), 9, 2))
    vam = [
        # label, args(periods, dyns, gaps, clustering, seed), depth, split
        ("vam_timing", ([20, 50, 100, 250, 1000], D(none), [1900, 6000, 65500], False, seed), 9 if thorough else 6, 2),
        ("vam_dynamics", ([20, 100], D(none, ["s", 1], ["s", 2], ["s", 0], ["h", 2], ["h", 3], ["h", 1], ["p", 2], ["p", 0]), [], False, seed),
         7 if thorough else 4, 2),
        ("vam_missing", ([20, 100, 1000], D(none, *[["miss", f] for f in MISSABLE]), [], False, seed), 5 if thorough else 4, 1),
        ("vam_idle", ([50, 100, 1000], D(none, ["s", 2], ["s", 0]), [2500], True, seed), 7 if thorough else 6, 2),
        ("vam_steady", ([1000, 100], D(none), [], False, seed), 400, 1),
        ("vam_zero", ([20, 100], D(none, ["s", 2], ["s", 0], ["h", 2], ["h", 4], ["h", 5], ["h", 0], ["p", 2], ["p", 0], ["e", 3], ["e", 0]),
                      [], False, seed, None, "zero"), 5 if thorough else 4, 2),
        # the first VAM carries generationDeltaTime exactly 0 (first report on the wrap)
        ("vam_wrap_100", ([100, 1000], D(none, ["s", 2], ["s", 0]), [], False, seed, 65536 - 100, "zero"), 9 if thorough else 7, 1),
        # absolute-time lattice: the spacing decision is taken on generationDeltaTime differences, so trajectories are
        # started shortly before a 65 536 ms wrap (no state merging over absolute time in these parts)
        ("vam_wrap_250", ([100, 1000], D(none), [], False, seed, 65536 - 250), 12 if thorough else 10, 1),
        ("vam_wrap_50", ([20, 100, 1000], D(none, ["s", 2], ["s", 0]), [], False, seed, 65536 - 50), 8 if thorough else 6, 1),
    ]
    return cam, vam


def _gdt_lattices(ctx, pool, thorough):
    # ---- generationDeltaTime lattices --------------------------------------------------------------
    # (a) every millisecond of one (thorough: two) whole 65 536 ms cycle(s) straddling a wrap x microsecond fractions
    k0 = (F.BASE_MS - F.ITS_EPOCH_MS + F.LEAP_MS) // 65536
    base = F.ITS_EPOCH_MS - F.LEAP_MS + k0 * 65536 - 32768
    micros = [0] if not thorough else [0, 1, 500, 999]
    span = (2 if thorough else 1) * 65536
    step = 4096
    jobs = [(base + i, base + min(i + step, span), micros) for i in range(0, span, step)]
    rng = random.Random(ctx.seed)
    rng.shuffle(jobs)
    gn = 0
    for n, bad in pool.imap_unordered(_gdt_chunk, jobs):
        gn += n
        for rec in bad:
            ctx.violation(dict(rec, part="gdt_cycle"), replay=dict(call="gdt", unix_ms=rec["unix_ms"], micro=rec["micro"]))
    ctx.parts["gdt_cycle"] = dict(evaluations=gn, unix_ms=[base, base + span - 1], micros=micros)
    # (a2) the binade boundaries of the float seconds clock inside the service life of the stack: 2**31 s (2038-01-19) and
    # 2**41 ms (2039-09-07) - between them seconds*1000 is no longer exact for millisecond time stamps
    half = 1024 if not thorough else 8192
    edges = [2 ** 31 * 1000, 2 ** 41]
    jobs = [(e - half, e + half, [0]) for e in edges]
    wn = 0
    for n, bad in pool.imap_unordered(_gdt_chunk, jobs):
        wn += n
        for rec in bad:
            ctx.violation(dict(rec, part="gdt_binade_edges"), replay=dict(call="gdt", unix_ms=rec["unix_ms"], micro=rec["micro"]))
    ctx.parts["gdt_binade_edges"] = dict(evaluations=wn, edges_unix_ms=edges, half_width_ms=half)
    gn += wn
    # (b) whole pipeline around multiples of 65 536 ms, incl. sub-millisecond clock fractions
    cyc = [1, k0 - 1, k0, k0 + 1, k0 + 1000, 2 ** 24, 2 ** 25 - 1] if not thorough else \
        [1, 2, k0 - 1, k0, k0 + 1, k0 + 2, k0 + 1000, k0 + 100000, 2 ** 24, 2 ** 25 - 1]
    offs = [-2, -1, 0, 1, 2, 32767, 32768] if not thorough else [-3, -2, -1, 0, 1, 2, 3, 255, 256, 32767, 32768, 65535 - 100]
    fracs = [0.0, 0.25, 0.999]
    jobs = [([k], offs, fracs) for k in cyc]
    pn = 0
    seen_gdt = set()
    for n, bad, seen in pool.imap_unordered(_gdt_pipeline, jobs):
        pn += n
        seen_gdt.update(seen)
        for rec in bad:
            ctx.violation(dict(rec, part="gdt_pipeline"), replay=dict(call="gdt_pipeline", unix_ms=rec.get("unix_ms"), frac=rec.get("frac")))
    ctx.parts["gdt_pipeline"] = dict(evaluations=pn, cycles=cyc, offsets_ms=offs, clock_fractions_ms=fracs, distinct_gdt=len(seen_gdt))
    return gn, pn



def _bfs_job(args):
    which, label, margs, prefix, depth = args
    m = (mk_cam if which == "cam" else mk_vam)(*margs)
    return label, X.bfs(m, depth, prefix=prefix, xcheck_every=89)


def run(ctx):
    import time as _t
    t0 = _t.time()
    thorough = ctx.tier == "thorough"
    F.coder("cam"), F.coder("vam")       # compile once, before any fork
    t_compile = _t.time() - t0
    cam_parts, vam_parts = _parts(thorough, ctx.seed)
    states = trans = xchecks = pruned = 0
    digests, samples, caps = [], [], []
    outcomes = set()
    closed = {}
    results = {}
    jobs = []
    which_of = {}
    # one pool for all parts: the tree below every distinct state at the split depth is one job (states are
    # de-duplicated inside a job only, which costs time, never coverage; digests are taken over the union)
    for which, parts in (("cam", cam_parts), ("vam", vam_parts)):
        for label, margs, depth, split in parts:
            which_of[label] = which
            model = (mk_cam if which == "cam" else mk_vam)(*margs)
            head = X.bfs(model, min(split, depth), xcheck_every=0)
            total = X.Result()
            total.merge(head)
            results[label] = total
            if depth > split:
                total.complete, total.cap_hit = True, None
                for pre in X._prefixes(model, split):
                    jobs.append((which, label, margs, pre, depth))
    random.Random(ctx.seed).shuffle(jobs)
    t_prep = _t.time() - t0 - t_compile
    pool = mp.Pool(16)
    try:
        for label, r in pool.imap_unordered(_bfs_job, jobs):
            results[label].merge(r)
        t_bfs = _t.time() - t0 - t_compile - t_prep
        gn, pn = _gdt_lattices(ctx, pool, thorough)
    finally:
        pool.close()
        pool.join()
    ctx.parts["wall_breakdown_s"] = dict(compile_coders=round(t_compile, 1), head_and_prefixes=round(t_prep, 1), bfs_pool=round(t_bfs, 1),
                                         gdt_lattices=round(_t.time() - t0 - t_compile - t_prep - t_bfs, 1), jobs=len(jobs))
    trans += pn
    if True:
        for label, r in results.items():
            states += r.states
            trans += r.transitions
            xchecks += r.xchecks
            pruned += r.pruned
            digests.append((label, r.digest()))
            samples.extend(sorted(r.samples)[:1])
            outcomes.update(r.outcomes)
            closed[label] = bool(r.complete)
            if r.cap_hit:
                caps.append((label, r.cap_hit))
            seen = set()
            for rec, hist in r.violations:
                rec.setdefault("part", label)
                key = json.dumps(rec, sort_keys=True, default=repr)
                if key in seen:
                    continue
                seen.add(key)
                ctx.violation(rec, replay=dict(part=label, which=which_of[label], history=hist))
            ctx.parts[label] = dict(states=r.states, transitions=r.transitions, max_depth=r.max_depth, graph_closed=r.complete,
                                    cap=r.cap_hit, xchecks=r.xchecks, outcomes=len(r.outcomes), pruned_successors=r.pruned)

    ctx.coverage.update(
        states=states, transitions=trans, traces_validated_against_impl=trans, replay_crosschecks=xchecks,
        distinct_outcomes=len(outcomes), pruned_successors=pruned,
        exhaustive=all(closed.get(k, False) for k in ("cam_steady", "vam_steady")), graph_closed=closed, caps=caps,
        state_digests=digests, gdt_lattice_evaluations=gn + pn,
        samples=samples[:6] or [[["start", 0], ["rep", 100, "none", 0], ["tick"]]],
        explanation=("every transition is a call into the real CAMTransmissionManagement / VAMTransmissionManagement (start, stop, "
                     "location_service_callback, expiry of the real T_CheckCamGen timer on the virtual clock); every emitted BTPDataRequest "
                     "is decoded with the repository coder and judged by the reference monitor; states are relative-time projections of "
                     "the real objects' fields plus the monitor state; 'exhaustive' refers to the *_steady parts whose state graph closed "
                     "(constant trajectory, unbounded virtual time); all other parts are complete up to their depth cap"),
    )
    ctx.assumptions += [
        "reference monitors mc/ref/cam_rules.py, mc/ref/vam_rules.py (interpretations listed in their docstrings)",
        "virtual clock on an integer millisecond lattice (now = ms/1000 by fresh division, so int(time*1000) is exact); timers fire exactly at "
        "their due time (zero latency)",
        "check period 50 ms / 20 ms is obtained by setting the module constant T_CHECK_CAM_GEN (configuration read at call time); all other "
        "parts run with the tree's own T_CHECK_CAM_GEN and judge it against the standard value 100 ms",
        "asn1tools decode of the emitted octets is trusted",
    ]


def replay(path):
    rec = json.load(open(path))
    print(json.dumps(rec["violation"], indent=1))
    rp = rec["replay"] or {}
    if rp.get("call") == "gdt":
        n, bad = _gdt_chunk((rp["unix_ms"], rp["unix_ms"] + 1, [rp["micro"]]))
        print(bad or "ok")
        return 1 if bad else 0
    if rp.get("call") == "gdt_pipeline":
        k, off = divmod(rp["unix_ms"] - F.ITS_EPOCH_MS + F.LEAP_MS, 65536)
        n, bad, _ = _gdt_pipeline(([k], [off], [rp["frac"]]))
        print(bad or "ok")
        return 1 if bad else 0
    label = rp["part"]
    cam_parts, vam_parts = _parts(True, 0)
    table = {p[0]: p for p in cam_parts + vam_parts}
    m = (mk_cam if rp["which"] == "cam" else mk_vam)(*table[label][1])
    w = m.init()
    bad = []
    hist = [tuple(e) for e in rp["history"]]
    for i, ev in enumerate(hist):
        m.apply(w, ev)
        b = [{k: v for k, v in r.items() if k != "_cut"} for r in m.check(w, ev, None, hist[:i + 1])]
        print(i, ev, "t=%d ms" % w.ms, "->", b or "ok")
        bad += b
    return 1 if bad else 0
