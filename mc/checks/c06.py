"""C06 - multi-hop packets: at-most-once delivery/forwarding, shrinking hop budget, termination (E1 + E3)."""
from __future__ import annotations

import multiprocessing as mp

from mc import env  # noqa: F401
from mc import explore as X
from mc.ref import gn_codec as G
from mc.worlds import stations as S
from mc.worlds.stations import Net, AreaForwardingAlgorithm

LEVEL = "model_checking"

X.SKIP_TYPES = (S.EtherLL, S.Net, S.Station, S._PortHandler)

MID = {"F": b"\0\0\0\0\0\x0f", "S1": b"\0\0\0\0\0\x01", "S2": b"\0\0\0\0\0\x02", "D": b"\0\0\0\0\0\x0d"}
ADDR = {k: G.addr_encode(0, 5, v) for k, v in MID.items()}
FLAT, FLON = 410000000, 20000000
ITS_EPOCH = 1072915200


def tst_of(now):
    return int((now - ITS_EPOCH + 5) * 1000) % 2**32


KINDS = ["tsb", "gbc_in", "gbc_out", "gac_in", "gac_out", "guc_f", "guc_d", "lsq_f", "lsq_d", "lsr_f", "lsr_d"]
DELIVER = {"tsb", "gbc_in", "gac_in", "guc_f"}
FORWARD = {"tsb", "gbc_in", "gbc_out", "gac_out", "guc_d", "lsq_d", "lsr_d"}


def mk_packet(kind, src, sn, rhl, now, mhl=255, tst_off=0, lt=None):
    so = dict(tst=(tst_of(now) + tst_off) % 2**32, lat=FLAT + 10000, lon=FLON, pai=1, s=0, h=0)
    payload = b"\x07\xd1\x00\x00" + bytes([KINDS.index(kind), ord(src[-1])]) + sn.to_bytes(2, "big")
    area_in = dict(lat=FLAT, lon=FLON, a=500, b=500, angle=0, shape=0)
    area_out = dict(lat=FLAT + 200000, lon=FLON, a=100, b=100, angle=0, shape=0)
    kw = dict(so_addr=ADDR[src], so=so, sn=sn, rhl=rhl, mhl=mhl, nh=G.CNH_BTPB, payload=payload)
    if lt is not None:
        kw["lt"] = lt
    if kind == "tsb":
        return G.build("tsb", **kw)
    if kind in ("gbc_in", "gbc_out", "gac_in", "gac_out"):
        return G.build(kind[:3], area=area_in if kind.endswith("in") else area_out, **kw)
    if kind in ("guc_f", "guc_d"):
        de = dict(addr=ADDR["F" if kind == "guc_f" else "D"], tst=so["tst"], lat=FLAT, lon=FLON + 30000)
        return G.build("guc", de=de, **kw)
    kw["payload"] = b""
    kw["nh"] = G.CNH_ANY
    if kind in ("lsq_f", "lsq_d"):
        return G.build("ls_request", req_addr=ADDR["F" if kind == "lsq_f" else "D"], **kw)
    de = dict(addr=ADDR["F" if kind == "lsr_f" else "D"], tst=so["tst"], lat=FLAT, lon=FLON + 30000)
    return G.build("ls_reply", de=de, **kw)


class RefForwarder:
    """Reference: DPD window of the last L sequence numbers per source + per-kind decisions."""

    def __init__(self, L):
        self.L = L
        self.win = {}

    def step(self, kind, src, sn, rhl):
        if src == "F":
            return dict(deliver=False, forward=False, reply=False, why="own address")
        w = self.win.setdefault(src, [])
        if sn in w:
            return dict(deliver=False, forward=False, reply=False, why="duplicate")
        w.append(sn)
        del w[:-self.L]
        return dict(deliver=kind in DELIVER, forward=(kind in FORWARD and rhl >= 2), reply=(kind == "lsq_f"), why="fresh")


class FwdModel:
    """One real forwarder F fed crafted packets; lock-step comparison with RefForwarder."""

    def __init__(self, alphabet, dpl_len, algo="SIMPLE", vary_lt=False):
        self.alphabet = alphabet
        self.dpl_len = dpl_len
        self.algo = algo
        self.vary_lt = vary_lt      # every lifetime code once (forwarded copies must keep the lifetime octet)

    def init(self):
        net = Net()
        net.add("F", MID["F"], lat=41.0, lon=2.0, with_btp=False,
                mib_kw=dict(itsGnDPLLength=self.dpl_len, itsGnAreaForwardingAlgorithm=getattr(AreaForwardingAlgorithm, self.algo)))
        net.ref = RefForwarder(self.dpl_len)
        return net

    def enabled(self, w):
        return self.alphabet

    def apply(self, w, ev):
        kind, src, sn, rhl = ev[:4]
        skew = ev[4] if len(ev) > 4 else 0          # source clock ahead of the receiver's by skew ms
        f = w.stations["F"]
        w.sent.clear()
        f.gn_indications.clear()
        pkt = mk_packet(kind, src, sn, rhl, w.now, tst_off=skew, lt=(rhl * 37 + 5) % 256 if self.vary_lt else None)
        w.last_pkt = pkt
        w.exp = w.ref.step(kind, src, sn, rhl)
        w.inject("F", pkt)
        return None

    def check(self, w, ev, obs, hist):
        kind, src, sn, rhl = ev[:4]
        out = []
        if isinstance(obs, tuple) and obs and obs[0] == "EXC":
            return [dict(kind="exception", pkt=kind, src=src, rhl=rhl, exc=obs[1] + ":" + obs[2])]
        f = w.stations["F"]
        exp = w.exp
        pkt = w.last_pkt
        base = dict(pkt=kind, src=src, sn=sn, rhl=rhl, why=exp["why"], skew_ms=ev[4] if len(ev) > 4 else 0)
        inds = f.gn_indications
        if len(inds) != (1 if exp["deliver"] else 0):
            out.append(dict(kind="deliver_count", got=len(inds), expected=int(exp["deliver"]), **base))
        elif inds and bytes(inds[0].data) != G.parse(pkt)["payload"]:
            out.append(dict(kind="deliver_bytes", **base))
        fwd, own = [], []
        for (_s, fr) in w.sent:
            p = G.parse(fr)
            (own if p["ext"]["so"]["addr_raw"] == ADDR["F"] else fwd).append((fr, p))
        if len(fwd) != (1 if exp["forward"] else 0):
            rec = dict(kind="forward_count", got=len(fwd), expected=int(exp["forward"]), **base)
            if fwd:
                rec["fwd_rhl"] = fwd[0][1]["basic"]["rhl"]
            out.append(rec)
        for fr, p in fwd:
            want = pkt[:3] + bytes([(rhl - 1) % 256]) + pkt[4:]
            if exp["forward"] and fr != want:
                diff = [i for i in range(min(len(fr), len(want))) if fr[i] != want[i]]
                out.append(dict(kind="forward_bytes", diff_octets=diff[:8], len_got=len(fr), len_want=len(want), **base))
        nrep = sum(1 for fr, p in own if p["kind"] == "ls_reply")
        if nrep != (1 if exp["reply"] else 0) or len(own) != nrep:
            out.append(dict(kind="own_emission", got=[p["kind"] for _f, p in own], expected_reply=exp["reply"], **base))
        return out

    def canon(self, w):
        f = w.stations["F"]
        return (X.generic_canon(f.gn.location_table), X.generic_canon(f.gn._cbf_buffer if hasattr(f.gn, "_cbf_buffer") else None),
                tuple(sorted(w.ref.win.items())), len(w.pending_timers()))

    def outcome(self, w, obs):
        return (w.exp["why"], w.exp["deliver"], w.exp["forward"], len(w.sent), len(w.stations["F"].gn_indications))


def _mk_fwd(alphabet, L, algo="SIMPLE"):
    return FwdModel(alphabet, L, algo)


# ------------------------------------------------------------------------------------------------
# Part 2: closed loop of three real routers
# ------------------------------------------------------------------------------------------------
class LoopModel:
    def __init__(self, topo, algo, origs, hops):
        self.topo, self.algo, self.origs, self.hops = topo, algo, origs, hops

    def init(self):
        net = Net()
        mk = dict(itsGnAreaForwardingAlgorithm=getattr(AreaForwardingAlgorithm, self.algo), itsGnDefaultHopLimit=3)
        for i, n in enumerate("ABC"):
            net.add(n, bytes([0, 0, 0, 0, 0, 0x0a + i]), lat=41.0 + 0.0005 * i, lon=2.0, with_btp=False, mib_kw=mk)
        if self.topo == "line":
            net.connect("A", "B")
            net.connect("B", "C")
        else:
            net.connect_all()
        # make everybody a known neighbour with valid PAI via beacons (so CBF distances are defined)
        for n in "ABC":
            net.call(net.stations[n].gn.gn_data_request_beacon)
        net.quiesce()
        net.sent.clear()
        net.n_orig = 0
        net.delivered = {}     # (station, src_mid, sn) -> count
        net.transmitted = {}   # (station, src_mid, sn) -> count
        net.rx_rhl = {}        # (station, src, sn) -> min rhl received
        net.cbf_overheard_pending = []
        return net

    def enabled(self, w):
        evs = []
        if w.n_orig < self.origs:
            for h in self.hops:
                evs.append(("orig", "A" if w.n_orig == 0 else "C", h))
        for link in w.pending_links():
            evs.append(("deliver", link[0], link[1]))
        for i, _t in enumerate(w.pending_timers()):
            evs.append(("fire", i))
        return evs

    def apply(self, w, ev):
        w.sent.clear()
        for s in w.stations.values():
            s.gn_indications.clear()
        w.bad = []
        if ev[0] == "orig":
            st = w.stations[ev[1]]
            req = S.GNDataRequest(
                upper_protocol_entity=S.CommonNH.BTP_B,
                packet_transport_type=S.PacketTransportType(S.HeaderType.GEOBROADCAST, S.GeoBroadcastHST.GEOBROADCAST_CIRCLE),
                data=b"\x07\xd2\x00\x00loop", length=8,
                area=S.Area(latitude=410005000, longitude=20000000, a=1000, b=1000, angle=0), max_hop_limit=ev[2])
            w.n_orig += 1
            w.call(st.gn.gn_data_request, req)
            actor = ev[1]
            w.rx_frame = None
        elif ev[0] == "deliver":
            link = (ev[1], ev[2])
            # CBF: does the receiver currently hold a buffered copy of this very packet?
            frame = w.queues[link][0]
            p = G.parse(frame)
            key = (p["ext"]["so"]["addr_raw"], p["ext"]["sn"])
            rcv = w.stations[ev[2]]
            held = [k for k in getattr(rcv.gn, "_cbf_buffer", {}) if (k[0].encode(), k[1]) == key]
            w.deliver(link)
            actor = ev[2]
            w.rx_frame = p
            k3 = (actor, key[0], key[1])
            if key[0] != rcv.addr.encode():
                w.rx_rhl.setdefault(k3, p["basic"]["rhl"])   # RHL of the first (non-duplicate) reception
            if held:
                still = [k for k in rcv.gn._cbf_buffer if (k[0].encode(), k[1]) == key]
                if still:
                    w.bad.append(dict(kind="cbf_duplicate_not_dropped", station=actor, topo=self.topo))
        else:
            t = w.pending_timers()[ev[1]]
            w.fire(t, advance=True)
            actor = None
            w.rx_frame = None
        # bookkeeping of deliveries / transmissions
        for n, s in w.stations.items():
            for ind in s.gn_indications:
                so = ind.source_position_vector.gn_addr.encode()
                sn = self._sn_of(w, ind)
                k = (n, so, sn)
                w.delivered[k] = w.delivered.get(k, 0) + 1
                if w.delivered[k] > 1:
                    w.bad.append(dict(kind="delivered_twice", station=n))
                if so == s.addr.encode():
                    w.bad.append(dict(kind="delivered_own", station=n))
        for (src, fr) in w.sent:
            p = G.parse(fr)
            k = (src, p["ext"]["so"]["addr_raw"], p["ext"]["sn"])
            w.transmitted[k] = w.transmitted.get(k, 0) + 1
            if w.transmitted[k] > 1:
                w.bad.append(dict(kind="transmitted_twice", station=src, topo=self.topo, algo=self.algo))
            if p["ext"]["so"]["addr_raw"] != w.stations[src].addr.encode():
                got = w.rx_rhl.get(k)
                if got is None or p["basic"]["rhl"] != got - 1:
                    w.bad.append(dict(kind="rhl_not_decreasing", station=src, sent=p["basic"]["rhl"], received=got))
                if got is not None and got <= 1:
                    w.bad.append(dict(kind="forward_at_exhausted_rhl", station=src, received=got))
        return None

    @staticmethod
    def _sn_of(w, ind):
        # the indication does not carry the SN; recover it from the frame being delivered
        p = w.rx_frame
        return p["ext"]["sn"] if p else -1

    def check(self, w, ev, obs, hist):
        if isinstance(obs, tuple) and obs and obs[0] == "EXC":
            return [dict(kind="exception", ev=list(ev), exc=obs[1] + ":" + obs[2])]
        return w.bad

    def terminal(self, w, hist):
        out = []
        if w.pending_links() or w.pending_timers():
            out.append(dict(kind="terminal_not_quiet"))
        for n, s in w.stations.items():
            if getattr(s.gn, "_cbf_buffer", None):
                out.append(dict(kind="cbf_buffer_leak", station=n))
        # everybody except the originator got each originated packet exactly once (all are inside the area, connected)
        return out

    def canon(self, w):
        return (tuple(X.generic_canon(s.gn.location_table) for s in w.stations.values()),
                tuple(tuple(sorted((k[0].encode(), k[1]) for k in getattr(s.gn, "_cbf_buffer", {}))) for s in w.stations.values()),
                tuple(getattr(s.gn, "sequence_number", None) if hasattr(s.gn, "sequence_number")
                      else X.generic_canon({k: v for k, v in vars(s.gn).items() if isinstance(v, int)}) for s in w.stations.values()),
                tuple(sorted((k, tuple(q)) for k, q in w.queues.items() if q)),
                tuple(sorted(w.delivered.items())), tuple(sorted(w.transmitted.items())), w.n_orig,
                tuple((round(t.due - w.now, 6), repr(t.args[0]) if t.args else "") for t in w.pending_timers()))

    def outcome(self, w, obs):
        return (len(w.sent), sum(len(s.gn_indications) for s in w.stations.values()))


def _mk_loop(topo, algo, origs, hops):
    return LoopModel(topo, algo, origs, hops)


def _loop_job(args):
    topo, algo, origs, hops, cap = args
    m = LoopModel(topo, algo, origs, hops)
    r = X.bfs(m, 10_000, record_edges=True, xcheck_every=211, max_states=cap)
    cyc = X.has_cycle(r.edges)
    r.edges = None
    return (topo, algo, origs, tuple(hops)), r, cyc


def _grid_job(args):
    """E3 side grid: every received RHL 0..255 for each kind, fresh packet on a fresh forwarder."""
    kind, algo = args
    out = []
    n = 0
    for rhl in range(256):
        m = FwdModel([], 8, algo, vary_lt=True)
        w = m.init()
        ev = (kind, "S1", 7, rhl)
        try:
            obs = m.apply(w, ev)
        except Exception as e:  # noqa: BLE001
            obs = ("EXC", type(e).__name__, str(e)[:100])
        n += 1
        if algo == "CBF":
            # fire CBF timers so that buffered copies are observed as transmissions
            sent0 = list(w.sent)
            for t in w.pending_timers():
                w.fire(t)
            w.sent[:0] = [] if w.sent[:len(sent0)] == sent0 else sent0
        for rec in m.check(w, ev, obs, [ev]):
            rec["algo"] = algo
            out.append((rec, [list(ev)]))
    return n, out


def depv_job(args):
    """unicast forwarding: the DE position vector of the forwarded copy is refreshed only by a strictly newer table PV
    of a neighbour destination; everything else equals the received packet except RHL-1"""
    kind, base_now = args
    out = []
    n = 0
    for dknown in ("neighbour", "multihop_only", "unknown"):
        for rel in (-1000, -1, 0, 1, 1000):                 # packet's DE tst minus the table's PV tst (ms)
            m = FwdModel([], 8)
            w = m.init()
            w.now = base_now
            f = w.stations["F"]
            t_tab = tst_of(w.now)
            dpos = dict(tst=t_tab, lat=FLAT + 7000, lon=FLON + 1000, pai=1)
            if dknown == "neighbour":
                w.inject("F", G.build("beacon", so_addr=ADDR["D"], so=dpos, rhl=1, mhl=1))
            elif dknown == "multihop_only":
                w.inject("F", G.build("tsb", so_addr=ADDR["D"], so=dpos, sn=900, rhl=1, mhl=1, nh=G.CNH_BTPB, payload=b"\x07\xd1\0\0x"))
            w.sent.clear()
            de = dict(addr=ADDR["D"], tst=(t_tab + rel) % 2**32, lat=FLAT + 1, lon=FLON + 2)
            so = dict(tst=t_tab, lat=FLAT + 10000, lon=FLON, pai=1)
            if kind == "guc":
                pkt = G.build("guc", so_addr=ADDR["S1"], so=so, sn=5, rhl=3, mhl=5, nh=G.CNH_BTPB, payload=b"\x07\xd1\0\0de", de=de)
            else:
                pkt = G.build("ls_reply", so_addr=ADDR["S1"], so=so, sn=5, rhl=3, mhl=5, de=de)
            n += 1
            rec = dict(pkt=kind, destination=dknown, de_tst_minus_table_ms=rel, wrap=base_now != S.BASE_TIME)
            try:
                w.inject("F", pkt)
            except Exception as e:  # noqa: BLE001
                out.append((dict(kind="exception", exc=f"{type(e).__name__}: {str(e)[:60]}", **rec), []))
                continue
            if len(w.sent) != 1:
                out.append((dict(kind="forward_count", got=len(w.sent), expected=1, **rec), []))
                continue
            got = w.sent[0][1]
            want = pkt[:3] + bytes([2]) + pkt[4:]
            if dknown == "neighbour" and rel < 0:
                # refreshed DE PV: address, table timestamp and position of D
                new_de = G.spv_encode(ADDR["D"], dpos["tst"], dpos["lat"], dpos["lon"])
                want = want[:12 + 28] + new_de + want[12 + 48:]
            if got != want:
                diff = [i for i in range(min(len(got), len(want))) if got[i] != want[i]]
                out.append((dict(kind="forward_bytes_de_pv", diff_octets=diff[:8], **rec), []))
    return n, out


def run(ctx):
    thorough = ctx.tier == "thorough"
    states = trans = xchecks = 0
    digests = []
    samples = []
    outcomes = set()
    complete = True
    caps = []

    def take(r, label):
        nonlocal states, trans, xchecks, complete
        states += r.states
        trans += r.transitions
        xchecks += r.xchecks
        digests.append((label, r.digest()))
        samples.extend(r.samples[:1])
        outcomes.update(r.outcomes)
        if not r.complete and not str(r.cap_hit).startswith("depth"):
            complete = False
        if r.cap_hit:
            caps.append((label, r.cap_hit))
        for rec, hist in r.violations:
            rec.setdefault("part", label)
            ctx.violation(rec, replay=dict(part=label, history=hist))
        ctx.parts[label] = dict(states=r.states, transitions=r.transitions, max_depth=r.max_depth, graph_closed=r.complete,
                                cap=r.cap_hit, xchecks=r.xchecks, outcomes=len(r.outcomes))

    # ---- part 1A: DPD window logic (sources x SNs incl. wrap x DPL lengths) -------------------
    alpha_a = [(k, s, sn, 3) for k in ("tsb", "gbc_in") for s in ("S1", "S2") for sn in (0, 1, 2, 65535)]
    alpha_a += [("guc_d", "S1", 1, 3), ("lsq_d", "S1", 2, 3), ("tsb", "F", 1, 3)]
    # the same packets from a source whose clock runs 1 ms / 150 ms ahead of the receiver's (duplicate detection must not care)
    alpha_a += [("tsb", "S2", 1, 3, 150), ("gbc_in", "S2", 1, 3, 150), ("tsb", "S2", 2, 3, 1), ("guc_d", "S2", 1, 3, 150)]
    depth_a = 5 if not thorough else 7
    for L in (1, 2, 3) if not thorough else (1, 2, 3, 8):
        r = X.parallel_bfs(_mk_fwd, (alpha_a, L), depth_a, split_depth=1)
        take(r, f"dpd_window_L{L}")

    # ---- part 1B: every kind x source x RHL class, fresh / duplicate / replay ------------------
    alpha_b = [(k, s, 1, rhl) for k in KINDS for s in ("S1", "F") for rhl in (0, 1, 2, 3, 255)]
    alpha_b += [(k, "S1", 2, 2) for k in ("tsb", "gbc_in")]
    for algo in ("SIMPLE",):
        r = X.parallel_bfs(_mk_fwd, (alpha_b, 2, algo), 2 if not thorough else 3, split_depth=1)
        take(r, f"kinds_rhl_{algo}")

    # ---- part 1C: E3 grid, all RHL 0..255 per kind --------------------------------------------
    with mp.Pool(16) as pool:
        gn = 0
        for n, out in pool.imap_unordered(_grid_job, [(k, a) for k in KINDS for a in ("SIMPLE", "CBF")]):
            gn += n
            for rec, hist in out:
                rec["part"] = "rhl_grid"
                ctx.violation(rec, replay=dict(part="rhl_grid", history=hist))
        ctx.parts["rhl_grid"] = dict(evaluations=gn)
        trans += gn

        dn = 0
        wrap_now = ITS_EPOCH - 5 + (146 * 2**32 - 500) / 1000.0
        for n, out in pool.imap_unordered(depv_job, [(k, b) for k in ("guc", "ls_reply") for b in (S.BASE_TIME, wrap_now)]):
            dn += n
            for rec, hist in out:
                rec["part"] = "de_pv_refresh"
                ctx.violation(rec, replay=dict(part="de_pv_refresh", history=hist))
        ctx.parts["de_pv_refresh"] = dict(evaluations=dn)
        trans += dn

        # ---- part 2: closed loops ------------------------------------------------------------
        jobs = []
        for topo in ("line", "mesh"):
            for algo in ("SIMPLE", "CBF"):
                jobs.append((topo, algo, 1, [2, 3], 400_000))
                jobs.append((topo, algo, 2, [3] if not thorough else [2, 3], 150_000 if not thorough else 2_000_000))
        for key, r, cyc in pool.imap_unordered(_loop_job, jobs):
            label = "loop_%s_%s_o%d" % key[:3]
            take(r, label)
            ctx.parts[label]["acyclic"] = not cyc
            ctx.parts[label]["terminal_states"] = getattr(r, "terminals", 0)
            if cyc:
                ctx.violation(dict(kind="state_graph_cycle", part=label), replay=dict(part=label))

    ctx.coverage.update(
        states=states, transitions=trans, traces_validated_against_impl=trans,
        replay_crosschecks=xchecks, distinct_outcomes=len(outcomes), exhaustive=complete, caps=caps,
        state_digests=digests,
        samples=samples[:4] or [["tsb", "S1", 1, 3]],
        explanation=("every transition is a call into the real Router (crafted frame injected / frame delivered / timer fired); "
                     "states are canonical digests of the real location tables, CBF buffers, ether queues and delivery counters"),
    )
    ctx.assumptions += ["reference DPD/forwarding model in mc/checks/c06.py:RefForwarder", "reference codec mc/ref/gn_codec.py",
                        "source PV timestamps equal the receiver clock (clock-skew interplay with entry expiry is C08's subject)"]


def replay(path):
    import json
    rec = json.load(open(path))
    print(json.dumps(rec["violation"], indent=1))
    rp = rec["replay"]
    hist = [tuple(e) for e in rp.get("history", [])]
    part = rp.get("part", "")
    if part.startswith("loop_"):
        _, topo, algo, o = part.split("_")
        m = LoopModel(topo, algo, int(o[1:]), [2, 3])
    else:
        L = int(part.split("_L")[1]) if "_L" in part else (8 if part == "rhl_grid" else 2)
        m = FwdModel([], L, rec["violation"].get("algo", "SIMPLE"))
    w = m.init()
    bad = []
    for i, ev in enumerate(hist):
        try:
            obs = m.apply(w, ev)
        except Exception as e:  # noqa: BLE001
            obs = ("EXC", type(e).__name__, str(e))
        b = m.check(w, ev, obs, hist[:i + 1])
        print(i, ev, "->", b or "ok")
        bad += b
    return 1 if bad else 0
