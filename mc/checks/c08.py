"""C08 - location table reflects the newest valid information about each station (E1 + E3)."""
from __future__ import annotations

import multiprocessing as mp

from mc import env  # noqa: F401
from mc import explore as X
from mc.ref import gn_codec as G
from mc.worlds import stations as S
from mc.worlds.stations import Net

from flexstack.geonet.gn_address import GNAddress, M, ST, MID
from flexstack.geonet.position_vector import TST

LEVEL = "model_checking"

ITS_EPOCH = 1072915200
MIDS = {"R": b"\0\0\0\0\0\x0f", "S1": b"\0\0\0\0\0\x01", "S2": b"\0\0\0\0\0\x02", "D": b"\0\0\0\0\0\x0d"}
ADDR = {k: G.addr_encode(0, 5, v) for k, v in MIDS.items()}
ADDR_OBJ = {k: GNAddress(m=M.GN_UNICAST, st=ST.PASSENGER_CAR, mid=MID(v)) for k, v in MIDS.items()}
KINDS = ["beacon", "shb", "tsb", "gbc", "gac", "guc", "lsq", "lsr"]
SINGLE_HOP = {"beacon", "shb"}
LIFETIME_S = 20
LIFE_MS = LIFETIME_S * 1000
HALF = 1 << 31
MOD = 1 << 32


def now_ms(w):
    return int(round((w.now - ITS_EPOCH + 5) * 1000))


def sdiff(a, b):
    """signed serial difference a-b of two 32 bit timestamps in (-2^31, 2^31]"""
    d = (a - b) % MOD
    return d - MOD if d > HALF else d


def mk_packet(kind, src, tst, tag, sn):
    so = dict(tst=tst % MOD, lat=410000000 + tag, lon=20000000, pai=1, s=0, h=0)
    kw = dict(so_addr=ADDR[src], so=so, sn=sn, rhl=2, mhl=5, nh=G.CNH_BTPB, payload=b"\x07\xd1\x00\x00pay")
    area = dict(lat=410000000, lon=20000000, a=500, b=500, angle=0, shape=0)
    de = dict(addr=ADDR["D"], tst=tst % MOD, lat=410000000, lon=20003000)
    if kind == "beacon":
        kw.update(payload=b"", nh=G.CNH_ANY, rhl=1, mhl=1)
        return G.build("beacon", **kw)
    if kind == "shb":
        kw.update(rhl=1, mhl=1)
        return G.build("shb", **kw)
    if kind == "tsb":
        return G.build("tsb", **kw)
    if kind in ("gbc", "gac"):
        return G.build(kind, area=area, **kw)
    if kind == "guc":
        return G.build("guc", de=de, **kw)
    kw.update(payload=b"", nh=G.CNH_ANY)
    if kind == "lsq":
        return G.build("ls_request", req_addr=ADDR["D"], **kw)
    return G.build("ls_reply", de=de, **kw)


class RefLocT:
    """Reference location table: src -> dict(tst, tag, nb).  Times are absolute ms (unbounded ints);
    only their residues mod 2^32 are visible to the implementation."""

    def __init__(self):
        self.e = {}

    def expire(self, now):
        for s in list(self.e):
            if sdiff(now % MOD, self.e[s]["tst"] % MOD) > LIFE_MS:
                del self.e[s]

    def packet(self, kind, src, tst, tag, now):
        """returns 'either' when the packet's PV is already older than the lifetime and src was unknown"""
        self.expire(now)
        if src == "R":
            return None
        cur = self.e.get(src)
        stale = sdiff(now % MOD, tst % MOD) > LIFE_MS
        if cur is None:
            self.e[src] = dict(tst=tst, tag=tag, nb=kind in SINGLE_HOP)
            return "either" if stale else None
        if sdiff(tst % MOD, cur["tst"] % MOD) > 0:
            cur["tst"], cur["tag"] = tst, tag
        if kind in SINGLE_HOP:
            cur["nb"] = True
        return None


class LocTModel:
    def __init__(self, alphabet, base_now, strict=True):
        self.alphabet = alphabet
        self.base_now = base_now
        self.strict = strict

    def init(self):
        net = Net(now=self.base_now)
        net.add("R", MIDS["R"], lat=41.0, lon=2.0, with_btp=False,
                mib_kw=dict(itsGnLifetimeLocTE=LIFETIME_S, itsGnAreaForwardingAlgorithm=S.AreaForwardingAlgorithm.SIMPLE))
        net.ref = RefLocT()
        net.sn = {}
        net.either = None
        return net

    def enabled(self, w):
        return self.alphabet

    def apply(self, w, ev):
        w.either = None
        w.sent.clear()
        if ev[0] == "adv":
            w.now = round(w.now + ev[1] / 1000.0, 3)
            w.ref.expire(now_ms(w))
            return None
        _, kind, src, dts = ev
        n = now_ms(w)
        tst = n + dts
        tag = KINDS.index(kind) * 16 + [d for d in DTS_ALL].index(dts) + (100 if src == "S2" else 0)
        w.sn[src] = (w.sn.get(src, 0) + 1) % 65536
        pkt = mk_packet(kind, src, tst, tag, w.sn[src])
        w.either = (src, w.ref.packet(kind, src, tst, tag, n))
        w.inject("R", pkt)
        if w.either[1] == "either" and w.stations["R"].gn.location_table.get_entry(ADDR_OBJ[src]) is None:
            del w.ref.e[src]   # the statement leaves this case open: adopt the implementation's answer
        return None

    def observe(self, w):
        lt = w.stations["R"].gn.location_table
        nbs = [e.position_vector.gn_addr for e in lt.get_neighbours()]
        out = {}
        for s in ("S1", "S2", "R"):
            e = lt.get_entry(ADDR_OBJ[s])
            out[s] = None if e is None else (e.position_vector.tst.msec, e.position_vector.latitude - 410000000,
                                             any(a == ADDR_OBJ[s] for a in nbs))
        return out

    def check(self, w, ev, obs, hist):
        if isinstance(obs, tuple) and obs and obs[0] == "EXC":
            return [dict(kind="exception", ev=list(ev), exc=obs[1] + ":" + obs[2], _cut=True)]
        out = []
        got = self.observe(w)
        n = now_ms(w)
        evk = ev[1] if ev[0] == "pkt" else "adv"
        for s in ("S1", "S2", "R"):
            exp = w.ref.e.get(s)
            g = got[s]
            base = dict(src=s, event=ev[0], pkt=evk, pkt_src=ev[2] if ev[0] == "pkt" else "-", dts=ev[3] if ev[0] == "pkt" else ev[1])
            if s == "R":
                if g is not None:
                    out.append(dict(kind="own_address_entered", **base))
                continue
            if exp is None:
                if g is not None:
                    out.append(dict(kind="present_after_expiry", age_ms=sdiff(n % MOD, g[0]), **base))
                continue
            if g is None:
                age = sdiff(n % MOD, exp["tst"] % MOD)
                out.append(dict(kind="missing_before_expiry", age_ms=age, ahead=age < 0, _cut=True, **base))
                continue
            if (g[0], g[1]) != (exp["tst"] % MOD, exp["tag"]):
                rel = sdiff(g[0], exp["tst"] % MOD)
                out.append(dict(kind="wrong_pv", stored_minus_expected_ms=rel, _cut=True, **base))
            if g[2] != exp["nb"]:
                out.append(dict(kind="neighbour_flag", got=g[2], expected=exp["nb"], _cut=True, **base))
        return out

    def canon(self, w):
        n = now_ms(w)
        lt = w.stations["R"].gn.location_table
        ents = []
        for s in ("S1", "S2", "R", "D"):
            e = lt.get_entry(ADDR_OBJ[s])
            if e is not None:
                ents.append((s, sdiff(e.position_vector.tst.msec, n % MOD), e.position_vector.latitude, e.is_neighbour, e.ls_pending))
        ref = tuple(sorted((s, sdiff(v["tst"] % MOD, n % MOD), v["tag"], v["nb"]) for s, v in w.ref.e.items()))
        return (tuple(ents), ref, n % 1000)

    def outcome(self, w, obs):
        g = self.observe(w)
        return tuple((s, g[s] is not None, g[s][2] if g[s] else None) for s in ("S1", "S2"))


DTS_ALL = [-LIFE_MS - 1000, -5000, -1, 0, 1, 700, 3000]


def mk_model(alphabet, base_now):
    return LocTModel(alphabet, base_now)


def alphabet(tier):
    if tier == "thorough":
        dts, adv, kinds = DTS_ALL, [1, 999, LIFE_MS - 1, LIFE_MS, LIFE_MS + 1, 3 * LIFE_MS], KINDS
    else:
        dts, adv, kinds = [-LIFE_MS - 1000, -1, 0, 700], [1, 999, LIFE_MS, LIFE_MS + 1], KINDS
    al = [("pkt", k, "S1", d) for k in kinds for d in dts]
    al += [("pkt", "shb", "S2", 0), ("pkt", "gbc", "S2", 0), ("pkt", "shb", "R", 0), ("pkt", "gbc", "R", 0), ("pkt", "tsb", "R", 700)]
    al += [("adv", d) for d in adv]
    return al


def tst_lattice():
    vals = set()
    for c in (0, HALF, MOD):
        for d in range(-64, 65):
            vals.add((c + d) % MOD)
    vals |= {1 << k for k in range(32)} | {(1 << k) - 1 for k in range(33)}
    return sorted(v % MOD for v in vals)


def tst_chunk(args):
    vals, lo, hi = args
    bad, n = [], 0
    for a in vals[lo:hi]:
        ta = TST(msec=a)
        for b in vals:
            tb = TST(msec=b)
            n += 1
            d = (b - a) % MOD
            gt_ba, gt_ab = tb > ta, ta > tb
            rec = None
            if a == b and (gt_ab or ta < tb or not (ta >= tb) or not (ta <= tb) or ta != tb and True):
                rec = dict(kind="tst_order", law="irreflexive", a=a, b=b)
            elif gt_ba and gt_ab:
                rec = dict(kind="tst_order", law="antisymmetric", a=a, b=b)
            elif 0 < d < HALF and not (gt_ba and not gt_ab and ta < tb and tb >= ta and ta <= tb and not (ta >= tb)):
                rec = dict(kind="tst_order", law="agrees_with_time", a=a, b=b, d=d)
            elif d > HALF and not (gt_ab and tb < ta):
                rec = dict(kind="tst_order", law="agrees_with_time", a=a, b=b, d=d)
            elif (tb - ta) != d:
                rec = dict(kind="tst_order", law="difference_mod_2^32", a=a, b=b, got=tb - ta, expected=d)
            if rec:
                bad.append(rec)
    return n, bad


def run(ctx):
    thorough = ctx.tier == "thorough"
    depth = 4 if not thorough else 5
    al = alphabet(ctx.tier)
    if ctx.seed:
        import random
        random.Random(ctx.seed).shuffle(al)
    states = trans = xchecks = 0
    digests, samples, outcomes = [], [], set()
    complete = True
    caps = []
    bases = {"normal": 1_700_000_000.0,
             "wrap": ITS_EPOCH - 5 + (146 * MOD - 10_000) / 1000.0}
    for label, base in bases.items():
        r = X.parallel_bfs(mk_model, (al, base), depth, split_depth=1, xcheck_every=301)
        states += r.states
        trans += r.transitions
        xchecks += r.xchecks
        digests.append((label, r.digest()))
        samples += r.samples[:2]
        outcomes |= r.outcomes
        if r.cap_hit:
            caps.append((label, r.cap_hit))
            if not str(r.cap_hit).startswith("depth"):
                complete = False
        for rec, hist in r.violations:
            rec["clock"] = label
            ctx.violation(rec, replay=dict(clock=label, base_now=base, history=hist))
        ctx.parts["histories_" + label] = dict(states=r.states, transitions=r.transitions, max_depth=r.max_depth, pruned=r.pruned,
                                               xchecks=r.xchecks, outcomes=len(r.outcomes), alphabet=len(al))
    # ---- E3: timestamp order over the lattice ---------------------------------------------------
    vals = tst_lattice()
    pairs = 0
    with mp.Pool(16) as pool:
        step = max(1, len(vals) // 32)
        for n, bad in pool.imap_unordered(tst_chunk, [(vals, lo, lo + step) for lo in range(0, len(vals), step)]):
            pairs += n
            for rec in bad:
                ctx.violation(rec, replay=rec)
    extra = 0
    for x in vals:
        for d in (1, HALF - 1, HALF + 1, MOD - 1):
            extra += 1
            a, b = TST(msec=x), TST(msec=(x + d) % MOD)
            ok = (b > a and not a > b) if d < HALF else (a > b and not b > a)
            if not ok or (b - a) != d:
                ctx.violation(dict(kind="tst_order", law="agrees_with_time", a=x, b=(x + d) % MOD, d=d))
    ctx.parts["tst_order"] = dict(evaluations=pairs + extra, lattice=len(vals))
    ctx.coverage.update(
        states=states, transitions=trans + pairs + extra, traces_validated_against_impl=trans, replay_crosschecks=xchecks,
        distinct_outcomes=len(outcomes), exhaustive=complete, caps=caps, depth=depth, state_digests=digests,
        samples=samples[:4],
        explanation=("BFS over histories of crafted packets (8 kinds x PV timestamps before/at/after the receiver clock, ms resolution) and "
                     "clock advances around the entry lifetime, once at an ordinary clock value and once 10 s before the 2^32 ms timestamp "
                     "wrap; after every event get_entry/get_neighbours of the real table are compared with a reference table; expiry is "
                     "judged strictly (entry must be gone at the first observation after PV timestamp + lifetime). Plus all ordered pairs "
                     "of a 32-bit timestamp lattice for the order laws."))
    ctx.assumptions += ["reference table RefLocT in mc/checks/c08.py", "sequence numbers are unique per source here (duplicate detection is C06's subject)",
                        "a packet whose PV is already older than the lifetime from an unknown source may or may not create an entry (statement leaves it open)"]


def replay(path):
    import json
    rec = json.load(open(path))
    print(json.dumps(rec["violation"], indent=1))
    rp = rec["replay"]
    if "history" not in rp:
        return 1
    m = LocTModel([], rp["base_now"])
    w = m.init()
    bad = []
    for ev in rp["history"]:
        ev = tuple(ev)
        try:
            obs = m.apply(w, ev)
        except Exception as e:  # noqa: BLE001
            obs = ("EXC", type(e).__name__, str(e))
        b = m.check(w, ev, obs, [])
        print(ev, "->", m.observe(w), b or "ok")
        bad += b
    return 1 if bad else 0
