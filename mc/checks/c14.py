"""C14 - LDM subscriptions notify exactly the matching data, at the requested cadence (E1, lock-step reference).

Every transition is one call into the real LDM (IF.LDM.4 register / deregister / subscribe / unsubscribe, IF.LDM.3
add - which may attend subscriptions reactively -, `attend_subscriptions` - what the periodic service thread does -)
or a virtual clock advance.  Each subscription gets its own recording callback; an attendance is recognised by a
counting wrapper around `attend_subscriptions` of the service *instance* (no source change).  After every transition
the callbacks made during it are compared with `mc.ref.ldm_model.RefSubs`:

  per attendance and live subscription: matches = stored objects of the subscribed types satisfying the filter;
    fewer than `multiplicity` matches            -> no callback
    interval (clock seconds) not over since the previous notification -> no callback
    otherwise exactly one callback with exactly the matches, sorted as requested
    (before the FIRST notification both 'now' and 'one interval after subscribing' are accepted; no matches and no
     multiplicity: a callback with an empty tuple or none)
  ended subscriptions (unsubscribe, deregistration) are never called again; refused requests carry a matching code.
"""
from __future__ import annotations

import random
from collections import Counter

from mc import env  # noqa: F401
from mc.ref import ldm_model as R
from mc.worlds import ldm as L
from mc.worlds.ldm import APP, LdmWorld, ckey, is_exc

from flexstack.facilities.local_dynamic_map import ldm_classes as C

LEVEL = "model_checking"

A, B = APP["CAM"], APP["VAM"]
VALIDITY = 3600
MAX_INTERVAL_S = 3
OPS = {"==": C.ComparisonOperators.EQUAL, "!=": C.ComparisonOperators.NOT_EQUAL}
DIRS = {"asc": C.OrderingDirection.ASCENDING, "desc": C.OrderingDirection.DESCENDING}
LOGIC = {"and": C.LogicalOperators.AND, "or": C.LogicalOperators.OR}
# two-statement filters: S1 true for camA, camB; S2 true for camB, camC (attribute missing in VAMs):
# camA matches only the first, camC only the second, camB both, vamA neither statement
S1 = ("header.stationId", "==", 1001)
S2 = ("cam.generationDeltaTime", "!=", 100)
CODE = {"consumer": 1, "type": 2, "priority": 3, "filter": 4, "interval": 5, "multiplicity": 6, "order": 7}

# valid subscription variants: (types, filter, notify interval ms | None, multiplicity | None, order)
VARIANTS = {
    "plain": ((2,), None, None, None, None),
    "default": ((2,), None, "default", "default", None),          # SubscribeDataobjectsReq defaults: 1 ms, multiplicity 1
    "n0": ((2,), None, 0, 1, None),
    "n1": ((2,), None, 1000, 1, None),
    "n2m2": ((2,), None, 2000, 2, None),
    "m2": ((2, 16), None, None, 2, None),
    "all": ((2, 16), None, None, None, (("stationId", "asc"),)),
    "f_ne": ((2, 16), ("header.stationId", "!=", 1001), 1000, None, (("stationId", "desc"),)),
    "f_type": ((2, 16), ("cam.camParameters.basicContainer.stationType", "==", 5), None, 1, (("stationId", "asc"),)),
    "f_cam": ((2,), ("cam.camParameters.basicContainer.stationType", "==", 0), 0, None, None),
    # two-key orders over a pool whose objects tie on the first key (camA/camB: station 1001) AND whose keys disagree
    # (camC: highest station, lowest generationDeltaTime); judged by the same oracle as C13 (R.order_ok)
    "o2_aa": ((2, 16), None, None, None, (("stationId", "asc"), ("generationDeltaTime", "asc"))),
    "o2_dd": ((2, 16), None, None, None, (("stationId", "desc"), ("generationDeltaTime", "desc"))),
    "o2_ad": ((2, 16), None, None, None, (("stationId", "asc"), ("generationDeltaTime", "desc"))),
    "o2_da": ((2, 16), None, None, None, (("stationId", "desc"), ("generationDeltaTime", "asc"))),
    # simultaneous subscriptions with EQUAL filters (None / the same statement) but different subscribed types
    "t_cam": ((2,), None, None, None, None),
    "t_vam": ((16,), None, None, None, None),
    "t_both": ((2, 16), None, None, None, None),
    "t_cam_f": ((2,), ("header.stationId", "!=", 1001), None, None, None),
    "t_vam_f": ((16,), ("header.stationId", "!=", 1001), None, None, None),
    "f2_or": ((2, 16), (S1, "or", S2), None, None, None),
    "f2_and": ((2, 16), (S1, "and", S2), None, None, None),
    "f2_or_m2": ((2, 16), (S1, "or", S2), None, 2, (("stationId", "asc"),)),     # multiplicity counts matches of either statement
    "f2_or_rev": ((2, 16), (S2, "or", S1), 0, 1, None),                          # first statement's attribute missing in VAMs
    # first key present in VAMs only (speedValue is inside the CHOICE tuple of a CAM): CAMs lack it
    "o2_miss": ((2, 16), None, None, None, (("speedValue", "asc"), ("stationId", "desc"))),
}
# parameter lattice of the validation part: name -> (valid value, invalid values)
BADVALS = {"type": [(99,)], "priority": [256, -1], "interval": [-1, 4398046511104], "multiplicity": [256, -1]}


def validation_variants():
    """Every combination valid/invalid of (type, priority, interval, multiplicity) incl. each alternative invalid value once."""
    out = {}
    names = list(BADVALS)
    for mask in range(16):
        bad = [n for i, n in enumerate(names) if mask >> i & 1]
        out["v_" + ("+".join(bad) if bad else "ok")] = {n: BADVALS[n][0] for n in bad}
    for n in names:
        for alt in BADVALS[n][1:]:
            out[f"v_{n}_alt"] = {n: alt}
    return out


VALIDATION = validation_variants()


def _two(filt):
    return filt is not None and filt[1] in LOGIC


def ref_filter(filt):
    """Variant filter -> the form of mc.ref.ldm_model.filter_true (the evaluator C13 uses): (s1,) | (s1, 'and'|'or', s2)."""
    if filt is None:
        return None
    return tuple(filt) if _two(filt) else (tuple(filt),)


def mk_filter(filt):
    if filt is None:
        return None
    st = [C.FilterStatement(p, OPS[op], v) for (p, op, v) in ((filt[0], filt[2]) if _two(filt) else (filt,))]
    return C.Filter(st[0], LOGIC[filt[1]], st[1]) if _two(filt) else C.Filter(st[0])


class SubsModel:
    def __init__(self, name, setup, alphabet, max_subs, max_adds, seed=0):
        self.name, self.setup, self.max_subs, self.max_adds = name, tuple(setup), max_subs, max_adds
        self.alphabet = list(alphabet)
        random.Random(seed).shuffle(self.alphabet)
        self._pc = {}

    # -- world ---------------------------------------------------------------------------------------------------
    def init(self):
        w = LdmWorld("Dictionary", probe_attend=True, probe_trash=True)
        w.ref = R.RefSubs()
        w.sub_ids = []        # impl subscription id (or None if refused) per subscribe event, in order
        w.sub_owner = []
        w.shared = []
        w.n_adds = 0
        w.last = None
        w.bad = []
        w.setup_bad = []
        for ev in self.setup:
            self.apply(w, ev)
            w.setup_bad += w.bad
        return w

    def share(self, w):
        """Message / location dictionaries are never mutated in place, so snapshots share them."""
        return [m for (_n, _s, m) in w.shared]

    def enabled(self, w):
        out = []
        n_live = len(w.ref.live())
        for ev in self.alphabet:
            if ev[0] == "sub" and (len(w.sub_ids) >= self.max_subs + 2 or (n_live >= self.max_subs and not ev[2].startswith("v_"))):
                continue
            if ev[0] == "add" and w.n_adds >= self.max_adds:
                continue
            if ev[0] == "unsub":
                continue
            if ev[0] == "attend" and not w.can("attend"):
                continue
            out.append(ev)
        if any(e[0] == "unsub" for e in self.alphabet):
            for k, sid in enumerate(w.sub_ids):
                if sid is not None:
                    out.append(("unsub", w.sub_owner[k], k))
        return out

    # -- one transition -------------------------------------------------------------------------------------------------
    def apply(self, w, ev):
        ref, op = w.ref, ev[0]
        del w.calls[:]
        att0 = w.attend_probe.count if w.attend_probe else None
        exp = dict(op=op)
        got = None
        if op == "regp":
            got = w.reg_provider(ev[1])
        elif op == "regc":
            got = w.reg_consumer(ev[1], (A, B))
            if got == 0:
                ref.consumers.add(ev[1])
            exp["must_accept"] = True
        elif op == "deregc":
            got = w.dereg_consumer(ev[1])
            exp["ack"] = 0 if ev[1] in ref.consumers else 1
            ref.consumers.discard(ev[1])
            for s in ref.live():
                if s.app == ev[1]:
                    s.live, s.ended_by = False, "deregister"
        elif op == "sub":
            app, vname = ev[1], ev[2]
            key = len(w.sub_ids)
            kw, spec, invalid = self._request(vname)
            got = w.subscribe(app, kw["types"], key, priority=kw["priority"], filt=kw["filter"], notify=kw["notify"],
                              multiplicity=kw["multiplicity"], order=kw["order"]) if not kw.get("defaults") else self._subscribe_defaults(w, app, kw, key)
            if app not in ref.consumers:
                invalid = invalid | {"consumer"}
            exp.update(invalid=sorted(invalid), key=key)
            sid = None
            if not is_exc(got) and got[0] == 0:
                sid = got[1]
                if not invalid:
                    exp["id_collision"] = any(s.impl_id == sid for s in ref.live())
                    ref.subs.append(R.Sub(key, app, spec[0], ref_filter(spec[1]), spec[2], spec[3], spec[4], w.now, sid))
            w.sub_ids.append(sid)
            w.sub_owner.append(app)
        elif op in ("unsub", "unsub_bad"):
            app = ev[1]
            sid = 123456789 if op == "unsub_bad" else w.sub_ids[ev[2]]
            # the consumer cancels the subscription for which it was handed this identifier: the k-th one if that is
            # still alive, else whichever live subscription carries the identifier now (re-subscription of an equal request)
            same_id = [s for s in ref.live() if s.impl_id == sid]
            mine = [s for s in same_id if op == "unsub" and s.key == ev[2]] or same_id[:1]
            got = w.unsubscribe(app, sid)
            named = ref.subs_by_key(ev[2]) if op == "unsub" else None
            exp.update(registered=app in ref.consumers, n_targets=len(mine), named_ended_by=named.ended_by if named else None,
                       target_shares_id=any(s.shares_id_with_unsubscribed for s in mine))
            if app in ref.consumers and got == 0:
                for s in mine:
                    s.live, s.ended_by = False, "unsubscribe"
                for s in same_id:
                    if s.live:
                        s.shares_id_with_unsubscribed = True
        elif op == "add":
            name = ev[1]
            msg = self._msg(w, name)
            app = {2: A, 16: B, 1: APP["DENM"]}[R.msg_type(msg)]
            got = w.add(app, msg, VALIDITY, "near")
            w.n_adds += 1
            if isinstance(got, int) and got >= 0:
                d = L.LOCS["near"]["d"]
                ref.store.append((R.msg_type(msg), {"application_id": app, "timestamp": L.its_ms(w.now),
                                                    "location": self._loc(w), "dataObject": self._msg(w, name, "ref"), "timeValidity": VALIDITY}))
        elif op == "adv":
            w.advance(ev[1])
        elif op == "attend":
            got = w.attend()
        else:
            raise ValueError(ev)
        if att0 is not None:
            exp["attendances"] = w.attend_probe.count - att0
            exp["attendance_known"] = True
        else:       # no probe possible: an attendance is recognised by its callbacks only (explicit attend = 1)
            exp["attendances"] = 1 if (op == "attend" or w.calls) else 0
            exp["attendance_known"] = op == "attend"
        w.last = (exp, got)
        w.bad = self._compare(w, ev)     # (also advances the reference: a callback that took place is a notification)
        return got

    def _subscribe_defaults(self, w, app, kw, key):
        cb = L.Recorder(w.calls, key, w)
        req = C.SubscribeDataobjectsReq(app, tuple(kw["types"]))
        with w:
            try:
                r = w.ldm.if_ldm_4.subscribe_data_consumer(req, cb)
            except Exception as e:  # noqa: BLE001
                return L.exc_obs(e)
        return (int(r.result), r.subscription_id)

    def _request(self, vname):
        """-> (keyword values for the real request, reference spec (types, filter, interval_ms, mult, order), invalid aspects)."""
        if vname in VARIANTS:
            types, filt, notify, mult, order = VARIANTS[vname]
            if notify == "default":
                return dict(types=types, defaults=True), (types, None, 1, 1, None), set()
            kw = dict(types=types, priority=None, filter=mk_filter(filt),
                      notify=None if notify is None else C.TimestampIts(notify), multiplicity=mult,
                      order=None if order is None else tuple(C.OrderTupleValue(a, DIRS[d]) for a, d in order))
            return kw, (types, filt, notify, mult, order), set()
        bad = VALIDATION[vname]
        kw = dict(types=bad.get("type", (2,)), priority=bad.get("priority", 7), filter=None,
                  notify=C.TimestampIts(bad.get("interval", 0)), multiplicity=bad.get("multiplicity", 1), order=None)
        return kw, ((2,), None, 0, 1, None), set(bad)

    def _msg(self, w, name, side="impl"):
        for n, sd, m in w.shared:
            if n == name and sd == side:
                return m
        m = L.MSGS[name]()
        w.shared.append((name, side, m))
        return m

    def _loc(self, w):
        for n, sd, m in w.shared:
            if sd == "loc":
                return m
        d = L.LOCS["near"]["d"]
        m = R.location_record(L.LDM_LAT + d[0], L.LDM_LON + d[1], L.LDM_ALT + d[2])
        w.shared.append(("near", "loc", m))
        return m

    def _okey(self, obj):
        hit = self._pc.get(id(obj))
        if hit is None or hit[0] is not obj:
            hit = self._pc[id(obj)] = (obj, ckey(obj))
        return hit[1]

    def _sdigest(self, msg):
        hit = self._pc.get(("digest", id(msg)))
        if hit is None or hit[0] is not msg:
            hit = self._pc[("digest", id(msg))] = (msg, R._digest(msg))
        return hit[1]

    def _rkey(self, rec):
        return ("d", ("application_id", rec["application_id"]), ("dataObject", self._okey(rec["dataObject"])),
                ("location", self._okey(rec["location"])), ("timeValidity", rec["timeValidity"]), ("timestamp", rec["timestamp"]))

    # -- oracle ------------------------------------------------------------------------------------------------------
    def check(self, w, ev, obs, hist):
        bad = [dict(b) for b in w.bad]
        if w.setup_bad:
            bad = [dict(kind="setup_failed", detail=str(w.setup_bad[0]))] + bad
        for b in bad:
            b["_cut"] = True
            b.setdefault("part", self.name)
        return bad

    def _compare(self, w, ev):
        exp, got = w.last
        ref, now, op = w.ref, w.now, ev[0]
        base = dict(op=op, ev=list(ev))
        out = []

        def v(kind, **kw):
            out.append(dict(kind=kind, **base, **kw))

        # (1) responses
        if is_exc(got):
            v("exception", exc=got[1], text=got[2])
        elif op in ("regc", "regp") and got != 0:
            v("valid_registration_rejected", result=got)
        elif op == "deregc" and got != exp["ack"]:
            v("deregistration_ack", got=got, expected=exp["ack"])
        elif op == "sub":
            code = got[0]
            if exp["invalid"]:
                okcodes = sorted(CODE[a] for a in exp["invalid"])
                if code not in okcodes:
                    v("invalid_subscription_code", invalid=exp["invalid"], result=code, accepted_codes=okcodes)
            elif code != 0:
                v("valid_subscription_refused", result=code, variant=ev[2])
        elif op in ("unsub", "unsub_bad"):
            want = 0 if (exp["registered"] and exp["n_targets"] >= 1) else 1
            if got != want:
                v("unsubscribe_result", result=got, expected=want, registered=exp["registered"], n_targets=exp["n_targets"],
                  named_ended_by=exp["named_ended_by"], target_shares_id_with_unsubscribed=exp["target_shares_id"])
        elif op == "add" and not (isinstance(got, int) and got >= 0):
            v("add_refused", result=repr(got))

        # (2) callbacks of this transition against the attendances that took place
        n_att = exp["attendances"]
        if op == "attend" and n_att != 1:
            v("harness_attendance_probe", attendances=n_att)
        if op not in ("attend", "add") and n_att:
            v("unexpected_attendance", attendances=n_att)
        calls = {}
        for c in w.calls:
            calls.setdefault(c[0], []).append(c)
        subs_by_key = {s.key: s for s in ref.subs}
        for key, cs in calls.items():
            s = subs_by_key.get(key)
            if s is None:
                v("callback_of_refused_subscription", key=key)
            elif not s.live:
                v("callback_after_end", ended_by=s.ended_by, key=key, n=len(cs))
            elif n_att == 0:
                v("callback_without_attendance", key=key)
        if n_att >= 1:
            for s in ref.live():
                cs = calls.get(s.key, [])
                matches = ref.matches(s)
                mult = s.mult if s.mult is not None else 0
                lacking = any(t in s.types and R.filter_trouble(rec["dataObject"], s.filt) for (t, rec) in ref.store)
                info = dict(key=s.key, n_matches=len(matches), multiplicity=s.mult, interval_ms=s.interval_ms,
                            first=s.last is None, candidate_lacks_filter_attribute=bool(lacking),
                            shares_id_with_unsubscribed=s.shares_id_with_unsubscribed)
                if len(matches) < mult:
                    verdict = "no"
                elif not matches:
                    verdict = "may"
                else:
                    verdict = s.due(now)
                if len(cs) > n_att:
                    v("too_many_callbacks", n=len(cs), **info)
                    continue
                if not cs:
                    if verdict == "must" and (exp["attendance_known"] or calls):
                        v("notification_missing", **info)
                    continue
                if verdict == "no":
                    why = "multiplicity" if len(matches) < mult else "interval"
                    v("notification_not_due", why=why, since_last_s=None if s.last is None else R.clock(now) - s.last, **info)
                    continue
                c = cs[0]
                s.last = R.clock(now)
                if c[2] != 0 or c[4] != s.app:
                    v("callback_header", result=c[2], app=c[4], **info)
                have = Counter(ckey(x) for x in c[3])
                want = Counter(self._rkey(x) for x in matches)
                if have != want:
                    v("callback_wrong_objects", got_n=len(c[3]), lost=bool(want - have), extra=bool(have - want), **info)
                elif s.order:
                    ok, _why = R.order_ok(list(c[3]), s.order)
                    if not ok:
                        v("callback_order", order=[list(o) for o in s.order], **info)
        return out

    # -- canonical state -------------------------------------------------------------------------------------------------
    def canon(self, w):
        """Projection through public / documented names only: the subscription table (LDMService.subscriptions and
        last_checked_subscriptions_time, both documented in the class docstring; request digest bounded, callbacks are
        identified by their key and never followed) with times relative to the current clock second capped at the largest
        interval, the registries (accessors), the stored objects' headers (get_all_data_containers; nothing expires in C14),
        the phase of `now` within its second, the time since the last reactive attendance / collection as observed by the
        probes (capped at the module intervals); plus the reference table.  If the subscription table is not available the
        projection degrades to the reference table (sound while implementation and reference agree - disagreements are cut)."""
        now = w.now
        frac = round(now - int(now), 3)
        cap = MAX_INTERVAL_S
        base = L.its_ms(now)
        table = w.subscription_table()          # documented attributes LDMService.subscriptions / last_checked_subscriptions_time
        if table is not None:
            table = tuple((key, app, rq, None if last is None else min((base - last) // 1000, cap)) for key, app, rq, last in table)
        regs = w.registries()                   # public accessors
        stored = w.stored()                     # public get_all_data_containers
        if stored is not None:
            stored = tuple(sorted(repr(L.bounded_digest(r.get("dataObject", {}).get("header") if isinstance(r, dict) else r)) for r in stored))
        real = (table, None if regs is None else (tuple(sorted(regs[0])), tuple(sorted(regs[1]))), stored,
                # reactive timers as observed through the probes, capped at the module intervals
                min(round(now - w.last_reactive_attend, 3), L.ATTEND_INTERVAL) if w.attend_probe else round(now - w.last_reactive_attend, 3),
                min(round(now - w.last_reactive_trash, 3), L.TRASH_INTERVAL) if w.trash_probe else round(now - w.last_reactive_trash, 3))
        rs = w.ref
        rcanon = (tuple(sorted(rs.consumers)),
                  tuple((s.key, s.app, s.live, s.impl_id if s.live else 0,
                         min(R.clock(now) - s.since, cap) if s.last is None else None,
                         None if s.last is None else min(R.clock(now) - s.last, cap)) for s in rs.subs),
                  # content of the stored objects (messages with equal headers may differ below, e.g. camA / camB)
                  tuple(sorted(self._sdigest(rec["dataObject"]) for _t, rec in rs.store)))
        return (real, frac, rcanon, tuple(w.sub_ids), w.n_adds)

    def outcome(self, w, obs):
        exp, got = w.last
        return (exp["op"], exp["attendances"], tuple(sorted(Counter(c[0] for c in w.calls).items())),
                got if isinstance(got, int) else (got[0] if isinstance(got, tuple) and got and isinstance(got[0], int) else None))


# ----------------------------------------------------------------------------------------------------------------
def parts(tier):
    th = tier == "thorough"
    base = (("regp", A), ("regp", B))
    cadence = dict(
        name="cadence", setup=base + (("regc", A), ("add", "camA")), max_subs=2, max_adds=3, depth=7 if th else 5,
        alphabet=[("sub", A, "plain"), ("sub", A, "n0"), ("sub", A, "n1"), ("sub", A, "n2m2")] + ([("sub", A, "default")] if th else []) +
                 [("add", "camC"), ("adv", 0.5), ("adv", 1), ("adv", 2), ("attend",), ("unsub", A, 0)])
    isolation = dict(
        name="isolation", setup=base + (("add", "camA"),), max_subs=3, max_adds=2, depth=6 if th else 5,
        alphabet=[("regc", A), ("regc", B), ("deregc", A), ("deregc", B), ("sub", A, "plain"), ("sub", A, "default"), ("sub", B, "m2"),
                  ("sub", B, "plain"), ("unsub", A, 0), ("unsub_bad", A), ("add", "camC"), ("attend",), ("adv", 1)])
    filters = dict(
        name="filters_order", setup=base + (("regc", A), ("regc", B)), max_subs=2, max_adds=4 if th else 3, depth=6 if th else 5,
        alphabet=[("sub", A, "f_ne"), ("sub", A, "f_type"), ("sub", A, "f_cam"), ("sub", B, "all"), ("sub", B, "m2"),
                  ("add", "camA"), ("add", "camC"), ("add", "vamA"), ("attend",), ("adv", 1), ("unsub", A, 0)])
    types2 = dict(
        name="type_overlap", setup=base + (("regc", A), ("regc", B)), max_subs=3 if th else 2, max_adds=3, depth=6 if th else 5,
        alphabet=[("sub", A, "t_cam"), ("sub", B, "t_vam"), ("sub", A, "t_both"), ("sub", A, "t_cam_f"), ("sub", B, "t_vam_f"),
                  ("add", "camA"), ("add", "camC"), ("add", "vamA"), ("attend",)])
    filter2 = dict(
        name="two_statement_filter", setup=base + (("regc", A),), max_subs=2, max_adds=4 if th else 3, depth=6 if th else 5,
        alphabet=[("sub", A, "f2_or"), ("sub", A, "f2_and"), ("sub", A, "f2_or_m2"), ("sub", A, "f2_or_rev"),
                  ("add", "camA"), ("add", "camB"), ("add", "camC"), ("add", "vamA"), ("attend",)])
    order2 = dict(
        name="two_key_order", setup=base + (("regc", A),), max_subs=2, max_adds=4 if th else 3, depth=6 if th else 5,
        alphabet=[("sub", A, "o2_aa"), ("sub", A, "o2_dd"), ("sub", A, "o2_ad"), ("sub", A, "o2_da"), ("sub", A, "o2_miss"),
                  ("add", "camA"), ("add", "camB"), ("add", "camC"), ("add", "vamA"), ("add", "vamB"), ("attend",)])
    validation = dict(
        name="validation", setup=base + (("add", "camA"),), max_subs=2, max_adds=1, depth=4 if th else 3,
        alphabet=[("regc", A), ("deregc", A), ("attend",), ("adv", 1)] + [("sub", A, v) for v in VALIDATION])
    return [cadence, isolation, filters, order2, filter2, types2, validation]


def _mk(name, setup, alphabet, max_subs, max_adds, seed):
    return SubsModel(name, setup, alphabet, max_subs, max_adds, seed)


def _model_for(part_name, tier="quick", seed=0):
    for p in parts(tier) + parts("thorough"):
        if p["name"] == part_name:
            return _mk(p["name"], p["setup"], p["alphabet"], p["max_subs"], p["max_adds"], seed)
    raise KeyError(part_name)


def run(ctx):
    plist = parts(ctx.tier)
    jobs = [dict(name=p["name"], depth=p["depth"], fargs=(p["name"], p["setup"], p["alphabet"], p["max_subs"], p["max_adds"], ctx.seed))
            for p in plist]
    results = L.explore_parts(_mk, jobs, 2 if ctx.tier == "quick" else 3, max_violations=10**6)
    states = trans = xchecks = pruned = 0
    digests, samples, caps = [], [], []
    outcomes = set()
    complete = True
    for p in plist:
        r = results[p["name"]]
        states += r.states
        trans += r.transitions
        xchecks += r.xchecks
        pruned += r.pruned
        digests.append((p["name"], r.digest()))
        samples.extend(r.samples[:1])
        outcomes |= r.outcomes
        if not r.complete and not str(r.cap_hit).startswith("depth"):
            complete = False
        if r.cap_hit:
            caps.append((p["name"], r.cap_hit))
        seen = set()
        for rec, hist in r.violations:
            rec.setdefault("part", p["name"])
            sig = (repr(sorted((k, repr(x)) for k, x in rec.items() if k != "text")), tuple(hist))
            if sig in seen:
                continue
            seen.add(sig)
            ctx.violation(rec, replay=dict(part=p["name"], tier=ctx.tier, history=hist))
        with_calls = sum(1 for o in r.outcomes if o[2])
        ctx.parts[p["name"]] = dict(states=r.states, transitions=r.transitions, max_depth=r.max_depth, depth_bound=p["depth"],
                                    alphabet=len(p["alphabet"]), pruned_successors=r.pruned, xchecks=r.xchecks, outcomes=len(r.outcomes),
                                    outcomes_with_callbacks=with_calls, graph_closed=r.complete)
    ctx.coverage.update(
        states=states, transitions=trans, traces_validated_against_impl=trans, replay_crosschecks=xchecks,
        pruned_successors_behind_findings=pruned, distinct_outcomes=len(outcomes), exhaustive=complete, caps=caps, state_digests=digests,
        samples=samples[:4] or [[["regc", 2], ["sub", 2, "plain"], ["attend"]]],
        explanation=("every transition is one call into the real LDM facility (LDMFactory, Dictionary back-end, reactive service) or a virtual "
                     "clock advance; callbacks are recorded per subscription and compared with the reference subscription table after every "
                     "transition; states are canonical projections of the real subscription table with relative, capped times"),
    )
    ctx.assumptions += [
        "reference subscription table mc/ref/ldm_model.py:RefSubs/Sub; the interval is over when (clock(now) - clock(previous)) * 1000 >= interval "
        "with clock = whole seconds; before the first notification both readings of the statement are accepted",
        "an attendance = one call of LDMService.attend_subscriptions (explicit = what the service thread does every 0.5 s, or reactive inside add); "
        "whether an add attends is the implementation's choice and is observed, not prescribed",
        "with no multiplicity (None/0) and no matching object both 'no callback' and 'callback with an empty tuple' are accepted",
        "an invalid request with several invalid parameters may be refused with the code of any of them",
        "unsubscribe addresses subscriptions by the identifier the LDM returned; two live subscriptions sharing one identifier are reported at the "
        "subscribe that created the collision and the branch is cut there",
    ]


def replay(path):
    import json
    rec = json.load(open(path))
    print(json.dumps(rec["violation"], indent=1))
    rp = rec["replay"]
    m = _model_for(rp["part"], rp.get("tier", "quick"))
    w = m.init()
    bad = []
    for i, ev in enumerate(rp["history"]):
        ev = tuple(ev)
        obs = m.apply(w, ev)
        b = w.bad
        print(i, ev, "->", obs, [x["kind"] for x in b] or "ok", "calls:", [(c[0], len(c[3])) for c in w.calls])
        bad += b
    return 1 if bad else 0
