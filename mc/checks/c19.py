"""C19 - DCC algorithms: reactive state machine, adaptive (LIMERIC) delta, gate keeper (E1 + E3).

Three bounded exhaustive explorations of the REAL classes against mc/ref/dcc.py:

* reactive : complete transition graph of ``DccReactive`` (every reachable state x every boundary
             representative of both Annex A tables), built by BFS with deepcopy snapshots;
* adaptive : every CBR sequence up to a length bound over a 5-letter alphabet x 5 parameter sets x
             {local, global} pushed through ``DccAdaptive.update`` in lock-step with the clause-5.4
             recurrence in exact rationals (prefix tree with snapshots, 16 processes);
* gate     : explicit-state BFS (mc.explore) over packet arrivals / delta updates / clock moves of
             ``GateKeeper`` in lock-step with the B.1/B.2 reference in exact rationals.
"""
from __future__ import annotations

import copy
import hashlib
import json
import math
import multiprocessing as mp
import random as _random
import struct
from array import array
from fractions import Fraction as F

from mc import env
from mc import explore as X
from mc.ref import dcc as R

from flexstack.management.dcc_reactive import DccReactive
from flexstack.management.dcc_adaptive import DccAdaptive, DccAdaptiveParameters, GateKeeper

LEVEL = "model_checking"

NAN = float("nan")
INF = float("inf")


def _f(x):
    """JSON/flat-record friendly float."""
    return repr(x)


# =================================================================================================
# Part 1 - reactive state machine
# =================================================================================================
EPS = 1e-9
_BOUNDS = sorted(set(R.boundaries("A1")) | set(R.boundaries("A2")))          # 0.30 0.40 0.50 0.60 0.65
REACTIVE_IN = sorted({0.0, EPS, 1.0 - EPS, 1.0, 0.15, 0.35, 0.45, 0.55, 0.8} |
                     {b + d for b in _BOUNDS for d in (-EPS, 0.0, EPS)})
REACTIVE_OUT = [-EPS, 1.0 + EPS, 1.005, -1.0, 2.0, NAN, INF, -INF]
REACTIVE_CFG = [None, 1000, 750, 501, 500, 250]      # constructor argument t_on_max_us (None = default)


def _mk_reactive(cfg):
    return DccReactive() if cfg is None else DccReactive(t_on_max_us=cfg)


def _sidx(obj):
    return R.STATES.index(obj.state.name)


def _in_range(c):
    return 0.0 <= c <= 1.0        # False for NaN


def reactive_edge(obj, cfg, c):
    """Execute one evaluation on ``obj`` (mutated).  Returns (before, after, outcome, violations, observation).
    Only the public interface is used: ``update()``, its return value and the documented ``state`` attribute."""
    table = R.table_for(1000 if cfg is None else cfg)
    before = _sidx(obj)
    bad = []
    base = dict(part="reactive", table=table, t_on_max_us=-1 if cfg is None else cfg, cbr=_f(c), from_state=R.STATES[before])
    try:
        out = obj.update(c)
        exc = None
    except Exception as e:  # noqa: BLE001
        out, exc = None, type(e).__name__
    after = _sidx(obj)
    if exc is None:
        obs = ("out", R.STATES[after], str(getattr(getattr(out, "state", None), "name", None)),
               _f(getattr(out, "packet_rate_hz", None)), _f(getattr(out, "t_off_ms", None)))
    else:
        obs = ("exc", R.STATES[after], exc)
    if abs(after - before) > 1:
        bad.append(dict(kind="reactive_state_skipped", to_state=R.STATES[after], **base))
    if _in_range(c):
        if exc is not None:
            bad.append(dict(kind="reactive_in_range_input_raises", exc=exc, **base))
        else:
            name, rate, toff = R.row(table, after)
            got_name = getattr(getattr(out, "state", None), "name", None)
            if got_name != name:
                bad.append(dict(kind="reactive_output_state", to_state=name, output_state=str(got_name), **base))
            if out.packet_rate_hz != rate or out.t_off_ms != toff:
                bad.append(dict(kind="reactive_output_row", to_state=name, got_rate=out.packet_rate_hz, got_t_off=out.t_off_ms,
                                want_rate=rate, want_t_off=toff, **base))
        outcome = ("in", before, after)
    else:
        outcome = ("out", "raises " + exc if exc else "accepted", after - before)
    return before, after, outcome, bad, obs


def reactive_part(ctx, rng):
    n_states = n_edges = n_conv = n_calls = 0
    graph_digest = hashlib.sha256()
    outcomes = set()
    oor = {}
    samples = []
    closed_all = True
    for cfg in REACTIVE_CFG:
        table = R.table_for(1000 if cfg is None else cfg)
        inputs = REACTIVE_IN + REACTIVE_OUT
        rng.shuffle(inputs)
        # BFS over real objects.  Canonical state = (public ``state``, one-step signature): the observations of
        # update(c) for every input c, each on its own snapshot.  Two objects with the same public state and the same
        # reaction to every input are merged; hidden state that changes any reaction yields a new canonical state.
        seen = {}
        frontier = [(_mk_reactive(cfg), [])]
        edges = []
        depth = 0
        while frontier and depth < 12:
            nxt = []
            for snap, path in frontier:
                res = []
                for c in inputs:
                    o = copy.deepcopy(snap)
                    b, a, outcome, bad, obs = reactive_edge(o, cfg, c)
                    n_calls += 1
                    res.append((c, o, b, a, outcome, bad, obs))
                key = (R.STATES[_sidx(snap)], tuple(sorted((_f(c), obs) for c, _o, _b, _a, _oc, _bad, obs in res)))
                if key in seen:
                    continue
                seen[key] = (snap, path)
                for c, o, b, a, outcome, bad, obs in res:
                    n_edges += 1
                    outcomes.add((table,) + outcome)
                    if not _in_range(c):
                        oor.setdefault(_f(c), set()).add(outcome[1] + (", state unchanged" if outcome[2] == 0 else ", state moved"))
                    edges.append((R.STATES[b], _f(c), R.STATES[a]))
                    for rec in bad:
                        ctx.violation(rec, replay=dict(part="reactive", cfg=cfg, path=[_f(x) for x in path], cbr=_f(c)))
                    nxt.append((o, path + [c]))
            frontier = nxt
            depth += 1
        if frontier:
            closed_all = False
        reached = sorted({_sidx(s) for s, _p in seen.values()})
        if len(seen) != 5 or reached != [0, 1, 2, 3, 4]:
            # not a violation of the statement by itself, but the graph is then not the 5-state line of clause 5.3
            ctx.violation(dict(kind="reactive_state_space", part="reactive", table=table, t_on_max_us=-1 if cfg is None else cfg,
                               canonical_states=len(seen), reached=str(reached)), replay=dict(part="reactive", cfg=cfg))
        n_states += len(seen)
        # convergence under a constant input, from every state, on the real object
        for key in sorted(seen):
            snap, path = seen[key]
            for c in REACTIVE_IN:
                tgt = R.band(table, c)
                o = copy.deepcopy(snap)
                start = _sidx(o)
                reached_at = None
                try:
                    for k in range(1, 5):
                        o.update(c)
                        n_conv += 1
                        if _sidx(o) == tgt:
                            reached_at = k
                            break
                except Exception:  # noqa: BLE001  (already reported by the edge check)
                    pass
                outcomes.add((table, "conv", start, tgt, reached_at))
                if reached_at is None:
                    ctx.violation(dict(kind="reactive_no_convergence", part="reactive", table=table, t_on_max_us=-1 if cfg is None else cfg,
                                       cbr=_f(c), from_state=R.STATES[start], band_state=R.STATES[tgt], end_state=R.STATES[_sidx(o)]),
                                  replay=dict(part="reactive_conv", cfg=cfg, path=[_f(x) for x in path], cbr=_f(c)))
                elif len(samples) < 2 and start == 4 and tgt == 0:
                    samples.append(dict(part="reactive", t_on_max_us=cfg, start=R.STATES[start], constant_cbr=c, reached_band_after=reached_at))
        for e in sorted(edges):
            graph_digest.update(repr((cfg, e)).encode())
    ctx.parts["reactive"] = dict(
        configs=[("default" if c is None else c) for c in REACTIVE_CFG], states=n_states, edges=n_edges, update_calls=n_calls,
        convergence_evaluations=n_conv,
        in_range_inputs=len(REACTIVE_IN), out_of_range_inputs=len(REACTIVE_OUT), graph_closed=closed_all, outcomes=len(outcomes),
        out_of_range_behaviour={k: sorted(v) for k, v in sorted(oor.items())}, digest=graph_digest.hexdigest()[:16])
    return n_states, n_calls + n_conv, n_calls + n_conv, outcomes, samples, graph_digest.hexdigest()[:16]


# =================================================================================================
# Part 2 - adaptive (LIMERIC)
# =================================================================================================
TARGET = 0.68
ALPHABET = [0.0, 0.5, TARGET, TARGET + EPS, 1.0]
PARAMS = [
    dict(alpha=0.016, beta=0.0012, cbr_target=0.68, delta_max=0.03, delta_min=0.0006, delta_up_max=0.0005, delta_down_max=-0.00025),  # Table 3
    dict(alpha=0.016, beta=0.0012, cbr_target=0.68, delta_max=0.01, delta_min=0.01, delta_up_max=0.0005, delta_down_max=-0.00025),    # min == max
    dict(alpha=0.016, beta=0.0012, cbr_target=0.68, delta_max=0.0011, delta_min=0.0006, delta_up_max=0.0005, delta_down_max=-0.00025),  # narrow
    dict(alpha=0.1, beta=0.05, cbr_target=0.5, delta_max=0.02, delta_min=0.001, delta_up_max=0.005, delta_down_max=-0.0025),          # fast, both clamps
    dict(alpha=0.25, beta=0.0005, cbr_target=0.5, delta_max=0.002, delta_min=0.0001, delta_up_max=0.0005, delta_down_max=-0.00025),   # offsets never clamped, diff==0 reachable
]
MODES = ("local", "global")
TOL = F(1, 10**12)
BAD_CBR = [-EPS, 1.0 + EPS, -1.0, 2.0, NAN, INF, -INF]
DECOY = (0.25, 0.75)      # local values passed while the global ones drive the algorithm


def _mk_adaptive(pi):
    alg = DccAdaptive(parameters=DccAdaptiveParameters(**PARAMS[pi]))
    d0 = getattr(alg, "delta", None)
    c0 = getattr(alg, "cbr_its_s", 0.0)
    ref = R.Limeric(delta0=d0, cbr_its_s0=c0, **PARAMS[pi])
    return alg, ref


def _adaptive_call(alg, mode, c, prev):
    if mode == "local":
        return alg.update(cbr_local=c, cbr_local_previous=prev)
    return alg.update(cbr_local=DECOY[0], cbr_local_previous=DECOY[1], cbr_global=c, cbr_global_previous=prev)


def _adaptive_check(pi, mode, seq, got, ref_delta, exc):
    p = PARAMS[pi]
    base = dict(part="adaptive", params=pi, mode=mode, step=len(seq), last_cbr=_f(seq[-1]))
    if exc is not None:
        return [dict(kind="adaptive_in_range_input_raises", exc=exc, **base)]
    out = []
    if not isinstance(got, float) or math.isnan(got) or abs(F(got) - ref_delta) > TOL:
        out.append(dict(kind="adaptive_delta_mismatch", got=_f(got), want=_f(float(ref_delta)), **base))
    if not (isinstance(got, float) and p["delta_min"] <= got <= p["delta_max"]):
        out.append(dict(kind="adaptive_delta_out_of_bounds", got=_f(got), delta_min=p["delta_min"], delta_max=p["delta_max"], **base))
    return out


def _state_hash(pi, mode, alg, got, last):
    """State of one adaptive instance as seen through its documented attributes (``cbr_its_s``, ``delta``) and the
    returned delta; used for counting / the digest only (the sequence tree is enumerated completely, nothing is merged)."""
    vals = []
    for v in (getattr(alg, "cbr_its_s", None), getattr(alg, "delta", None), got, last):
        vals.append(v if isinstance(v, float) else -1.0)
    raw = struct.pack("<BB4d", pi, MODES.index(mode), *vals)
    return int.from_bytes(hashlib.blake2b(raw, digest_size=8).digest(), "little")


_SCALARS = (int, float, str, bool, type(None))


def _flat(obj, depth=0):
    """True if ``obj`` holds only scalars, or one level of plain objects holding only scalars (then copy.copy is a snapshot)."""
    d = getattr(obj, "__dict__", None)
    if d is None:
        return False
    for v in d.values():
        if isinstance(v, _SCALARS):
            continue
        if depth == 0 and hasattr(v, "__dict__") and all(isinstance(x, _SCALARS) for x in vars(v).values()):
            continue        # e.g. the parameter set: never mutated by update(), shared between snapshots
        return False
    return True


def _snap(alg):
    """Snapshot of the real object: shallow copy when that provably is one, deepcopy otherwise (slower, always right)."""
    return copy.copy(alg) if _flat(alg) else copy.deepcopy(alg)


def _ref_class(ref, before_delta):
    """Which branches of clause 5.4 the reference took (non-vacuity statistics)."""
    d = ref.target - ref.cbr
    if d > 0:
        a = "up_clamped" if ref.beta * d > ref.up else "up"
    elif d == 0:
        a = "zero"
    else:
        a = "down_clamped" if ref.beta * d < ref.down else "down"
    b = "at_max" if ref.delta == ref.dmax else "at_min" if ref.delta == ref.dmin else "inside"
    return a + "/" + b


def _adaptive_job(args):
    pi, mode, first, L, order = args
    hashes = array("Q")
    viol = []
    nviol = 0
    classes = {}
    nodes = leaves = 0
    alg0, ref0 = _mk_adaptive(pi)
    stack = [(alg0, ref0, 0.0, (first,), True)]
    # iterative DFS over the prefix tree; every node = one real update() on a snapshot of its parent
    while stack:
        alg_p, ref_p, prev, seq, _ = stack.pop()
        alg = _snap(alg_p)
        ref = ref_p.copy()
        c = seq[-1]
        try:
            got = _adaptive_call(alg, mode, c, prev)
            exc = None
        except Exception as e:  # noqa: BLE001
            got, exc = None, type(e).__name__
        want = ref.step(c, prev)
        nodes += 1
        k = _ref_class(ref, None)
        classes[k] = classes.get(k, 0) + 1
        bad = _adaptive_check(pi, mode, seq, got, want, exc)
        if bad:
            nviol += len(bad)
            if len(viol) < 6:
                for rec in bad:
                    viol.append((rec, dict(part="adaptive", params=pi, mode=mode, seq=[_f(x) for x in seq])))
            continue        # model and implementation have diverged: do not extend this sequence
        hashes.append(_state_hash(pi, mode, alg, got, c))
        if len(seq) < L:
            for s in order:
                stack.append((alg, ref, c, seq + (ALPHABET[s],), True))
        else:
            leaves += 1
    return pi, mode, nodes, leaves, nviol, viol, hashes.tobytes(), classes


def adaptive_rejection(ctx):
    """Local CBR outside [0,1] (either argument) must be rejected, at every node of depth <= 2, and leave no trace."""
    n = 0
    glob = {}
    for pi in range(len(PARAMS)):
        for mode in MODES:
            prefixes = [()] + [(a,) for a in ALPHABET] + [(a, b) for a in ALPHABET for b in ALPHABET]
            for pre in prefixes:
                alg, ref = _mk_adaptive(pi)
                prev = 0.0
                for c in pre:
                    _adaptive_call(alg, mode, c, prev)
                    ref.step(c, prev)
                    prev = c
                for badv in BAD_CBR:
                    for pos in ("cbr_local", "cbr_local_previous"):
                        a2 = _snap(alg)
                        kw = dict(cbr_local=0.5, cbr_local_previous=prev)
                        if mode == "global":
                            kw = dict(cbr_local=DECOY[0], cbr_local_previous=DECOY[1], cbr_global=0.5, cbr_global_previous=prev)
                        kw[pos] = badv
                        n += 1
                        base = dict(part="adaptive_reject", params=pi, mode=mode, argument=pos, value=_f(badv), depth=len(pre))
                        rp = dict(part="adaptive_reject", params=pi, mode=mode, prefix=[_f(x) for x in pre], argument=pos, value=_f(badv))
                        try:
                            r = a2.update(**kw)
                        except Exception:  # noqa: BLE001
                            r = None
                        else:
                            ctx.violation(dict(kind="adaptive_out_of_range_local_cbr_accepted", returned=_f(r), **base), replay=rp)
                            continue
                        # the rejected value must leave no trace: the next valid evaluation returns exactly what an
                        # untouched snapshot of the same real object returns (and that one is judged by the sequence check)
                        a3 = _snap(alg)
                        try:
                            got = _adaptive_call(a2, mode, 0.5, prev)
                            ctrl = _adaptive_call(a3, mode, 0.5, prev)
                        except Exception as e:  # noqa: BLE001
                            ctx.violation(dict(kind="adaptive_in_range_input_raises", exc=type(e).__name__, **base), replay=rp)
                            continue
                        if got != ctrl:
                            ctx.violation(dict(kind="adaptive_rejected_value_changed_delta", got=_f(got), want=_f(ctrl), **base), replay=rp)
        # what happens with a global CBR outside [0,1] (the statement is silent; reported, not judged)
        for badv in BAD_CBR:
            alg, _ref = _mk_adaptive(pi)
            try:
                r = alg.update(cbr_local=0.5, cbr_local_previous=0.5, cbr_global=badv, cbr_global_previous=0.5)
                glob.setdefault(_f(badv), set()).add("accepted")
            except Exception as e:  # noqa: BLE001
                glob.setdefault(_f(badv), set()).add("raises " + type(e).__name__)
    return n, {k: sorted(v) for k, v in glob.items()}


def adaptive_part(ctx, rng, pool, L):
    # initial delta inside the permitted range ("always")
    for pi, p in enumerate(PARAMS):
        alg, _ = _mk_adaptive(pi)
        d0 = getattr(alg, "delta", None)
        if not (isinstance(d0, float) and p["delta_min"] <= d0 <= p["delta_max"]):
            ctx.violation(dict(kind="adaptive_delta_out_of_bounds", part="adaptive", params=pi, mode="-", step=0, last_cbr="-",
                               got=_f(d0), delta_min=p["delta_min"], delta_max=p["delta_max"]),
                          replay=dict(part="adaptive", params=pi, mode="local", seq=[]))
    order = list(range(len(ALPHABET)))
    rng.shuffle(order)
    jobs = [(pi, mode, ALPHABET[s], L, order) for pi in range(len(PARAMS)) for mode in MODES for s in order]
    rng.shuffle(jobs)
    nodes = leaves = nviol = 0
    buckets = [array("Q") for _ in range(64)]
    classes = {}
    for pi, mode, n, lv, nv, viol, hb, cl in pool.imap_unordered(_adaptive_job, jobs):
        nodes += n
        leaves += lv
        nviol += nv
        for rec, rp in viol:
            ctx.violation(rec, replay=rp)
        a = array("Q")
        a.frombytes(hb)
        for h in a:
            buckets[h & 63].append(h)
        for k, v in cl.items():
            kk = "p%d/%s" % (pi, k)
            classes[kk] = classes.get(kk, 0) + v
    dg = hashlib.sha256()
    states = 0
    for b in buckets:
        u = sorted(set(b))
        states += len(u)
        dg.update(array("Q", u).tobytes())
    nrej, glob = adaptive_rejection(ctx)
    ctx.parts["adaptive"] = dict(
        max_sequence_length=L, alphabet=[_f(x) for x in ALPHABET], parameter_sets=len(PARAMS), modes=list(MODES),
        sequences_checked=nodes, maximal_sequences=leaves, expected_sequences=len(PARAMS) * len(MODES) * sum(5 ** k for k in range(1, L + 1)),
        distinct_states=states, branch_classes=dict(sorted(classes.items())), rejection_calls=nrej,
        global_cbr_out_of_range_behaviour=glob, mismatching_evaluations=nviol, digest=dg.hexdigest()[:16], exhaustive=True)
    sample = dict(part="adaptive", params=0, mode="local", seq=[0.0, 1.0, 1.0, TARGET + EPS])
    return states, nodes + nrej, nodes, set(classes), [sample], dg.hexdigest()[:16]


# =================================================================================================
# Part 3 - gate keeper
# =================================================================================================
NS = F(1, 10**9)
US = F(1, 10**6)
T_ON_US = (500, 1000, 4000)
DELTAS = {"min": 0.0006, "mid": 0.0153, "max": 0.03}
GATE_EVENTS = [("adv", "5ms"), ("adv", "tgo"), ("adv", "tgo-1us")] + [("arr", u) for u in T_ON_US] + [("delta", k) for k in ("min", "mid", "max")]
# wider menu (beyond the planned one): finer/coarser clock moves incl. the 200 ms evaluation period of clause 5.2, instants inside
# the +-1 ns band around the opening time, a short packet, and LIMERIC-sized delta steps
DELTAS.update({"mid+": 0.0154, "min+": 0.00085})
GATE_EVENTS_WIDE = GATE_EVENTS + [("adv", "1ms"), ("adv", "20ms"), ("adv", "200ms"), ("adv", "tgo-0.5ns"), ("adv", "tgo+0.5ns"),
                                  ("adv", "tgo+1us"), ("arr", 300), ("delta", "mid+"), ("delta", "min+")]
ADV = {"1ms": F(1, 1000), "5ms": F(5, 1000), "20ms": F(20, 1000), "200ms": F(200, 1000)}
TGO_OFF = {"tgo": F(0), "tgo-1us": -US, "tgo-0.5ns": -NS / 2, "tgo+0.5ns": NS / 2, "tgo+1us": US}


class GateWorld(env.World):
    def __init__(self, origin, delta0):
        super().__init__(now=float(origin))
        self.t = F(origin)                    # exact harness clock; the implementation is given float(self.t)
        self.gk = GateKeeper(delta=delta0)
        self.ref = R.Gate(delta0)
        self.last_admit = None
        self.n_adm = 0
        self.bad = []
        self.view_open = True                 # gate view used for the next event (see _observe)
        self.tag = None

    def __deepcopy__(self, memo):
        # snapshot: the REAL object is deep-copied; the harness's own fields are immutable values (Fractions) -> shallow
        n = GateWorld.__new__(GateWorld)
        n.__dict__.update(self.__dict__)
        n.timers = copy.deepcopy(self.timers, memo)
        n.threads = copy.deepcopy(self.threads, memo)
        n.gk = copy.deepcopy(self.gk, memo)
        n.ref = copy.copy(self.ref)
        n.bad = []
        return n


class GateModel:
    """Real GateKeeper in lock-step with R.Gate.  ``t`` reaches the implementation as a parameter (no clock reads)."""

    def __init__(self, origin=0.0, delta0="mid", order_seed=0, menu="planned"):
        self.origin = origin
        self.delta0 = DELTAS[delta0]
        self.order = list(GATE_EVENTS if menu == "planned" else GATE_EVENTS_WIDE)
        _random.Random(order_seed).shuffle(self.order)
        self.delta_names = sorted(a for k, a in self.order if k == "delta")
        self.t_on_us = sorted(a for k, a in self.order if k == "arr")

    def init(self):
        w = GateWorld(self.origin, self.delta0)
        self._observe(w, ("init", 0))
        w.bad = []
        return w

    # ---- event menu ---------------------------------------------------------------------------
    def enabled(self, w):
        closed = w.ref.t_go is not None and w.t < w.ref.t_go
        evs = []
        for ev in self.order:
            if ev[0] == "adv" and ev[1] in TGO_OFF:
                if not closed or not (w.ref.t_go + TGO_OFF[ev[1]] > w.t):
                    continue
            evs.append(ev)
        return evs

    # ---- one real call --------------------------------------------------------------------------
    def apply(self, w, ev):
        w.bad = []
        w.tag = None
        kind, arg = ev
        gk, ref = w.gk, w.ref
        base = dict(part="gate", event=kind, arg=str(arg))
        if kind == "adv":
            if arg in ADV:
                w.t += ADV[arg]
            else:
                w.t = ref.t_go + TGO_OFF[arg]
            w.now = float(w.t)
            w.tag = ("adv",)
        elif kind == "arr":
            t_on = float(F(arg, 10**6))
            with w:
                got = gk.admit_packet(float(w.t), t_on)
            if got is not True and got is not False:
                w.bad.append(dict(kind="gate_admit_result_not_bool", got=repr(got), **base))
            view = w.view_open
            if bool(got) != view:
                w.bad.append(dict(kind="gate_admission_mismatch", admitted=bool(got), gate_open_per_b1_b2=view,
                                  since_last_admission_ms=self._since(w), _cut=True, **base))
            if got:
                if w.last_admit is not None and w.t - w.last_admit < R.GATE_MIN - NS:
                    w.bad.append(dict(kind="gate_admissions_closer_than_25ms", gap_ms=float((w.t - w.last_admit) * 1000), **base))
                w.last_admit = w.t
                w.n_adm += 1
                ref.admit(w.t, t_on)
                iv = ref.t_go - ref.t_pg
                w.tag = ("admit", "min" if iv == R.GATE_MIN else "max" if iv == R.GATE_MAX else "b1")
                # at most one packet per opening: a second packet at the very same instant must be refused
                g2 = copy.deepcopy(gk)
                with w:
                    again = g2.admit_packet(float(w.t), t_on)
                if again:
                    w.bad.append(dict(kind="gate_two_admissions_in_one_opening", **base))
            else:
                w.tag = ("refuse",)
        elif kind == "delta":
            closed = not w.view_open
            before = ref.t_go
            with w:
                gk.update_delta(float(w.t), DELTAS[arg])
            ref.set_delta(DELTAS[arg], closed)
            if closed:
                iv = ref.t_go - ref.t_pg
                w.tag = ("rescale", "min" if iv == R.GATE_MIN else "max" if iv == R.GATE_MAX else "b2",
                         "same" if ref.t_go == before else "earlier" if ref.t_go < before else "later")
            else:
                w.tag = ("delta_while_open",)
        self._observe(w, ev)
        return w.tag

    @staticmethod
    def _since(w):
        return None if w.last_admit is None else float((w.t - w.last_admit) * 1000)

    def _observe(self, w, ev):
        """Observe the real gate through its public interface only.

        All ``is_open()`` probes go to a copy of the real object (so nothing is assumed about is_open() being
        side-effect free): now, and 2 ns before / after the reference opening time (brackets the implementation's
        opening time).  Then one-step lookahead, each on its own copy: while closed, every delta of the menu through
        ``update_delta`` (B.2); while open, every T_on of the menu through ``admit_packet`` (B.1) - and the resulting
        opening time is bracketed again.  (t_pg, t_go, delta) of the real gate are thus compared with the reference at
        EVERY transition without reading a private field, also on successors that are later dropped as duplicates."""
        gk, ref = w.gk, w.ref
        base = dict(part="gate", event=ev[0], arg=str(ev[1]))
        tf = float(w.t)
        n0 = len(w.bad)
        with w:
            probe = copy.deepcopy(gk)
            impl_now = bool(probe.is_open(tf))
            ref_now = ref.is_open(w.t)
            in_band = ref.t_go is not None and abs(w.t - ref.t_go) <= NS
            if impl_now != ref_now and not in_band:
                w.bad.append(dict(kind="gate_open_closed_mismatch", implementation_open=impl_now, b1_b2_open=ref_now,
                                  to_reference_opening_ms=float((ref.t_go - w.t) * 1000) if ref.t_go is not None else None,
                                  since_last_admission_ms=self._since(w), _cut=True, **base))
            # inside the 1 ns band either answer is allowed and the reference follows the implementation
            w.view_open = impl_now if in_band else ref_now
            if ref.t_go is not None and not ref_now:
                self._bracket(w, probe, ref, "none", base)
            if w.last_admit is not None:
                if not probe.is_open(float(w.last_admit + R.GATE_MAX + 2 * NS)):
                    w.bad.append(dict(kind="gate_closed_longer_than_1s", **base))
                early = w.last_admit + R.GATE_MIN - 2 * NS
                if early > w.t and probe.is_open(float(early)):
                    w.bad.append(dict(kind="gate_open_before_25ms", **base))
            if len(w.bad) == n0:
                if not w.view_open:
                    for name in self.delta_names:
                        g, r = copy.deepcopy(gk), copy.copy(ref)
                        g.update_delta(tf, DELTAS[name])
                        r.set_delta(DELTAS[name], True)
                        self._bracket(w, g, r, "delta:" + name, base)
                else:
                    for us in self.t_on_us:
                        g, r = copy.deepcopy(gk), copy.copy(ref)
                        t_on = float(F(us, 10**6))
                        if not g.admit_packet(tf, t_on):
                            w.bad.append(dict(kind="gate_admission_mismatch", admitted=False, gate_open_per_b1_b2=True,
                                              since_last_admission_ms=self._since(w), lookahead="arr:%d" % us, _cut=True, **base))
                            continue
                        r.admit(w.t, t_on)
                        self._bracket(w, g, r, "arr:%d" % us, base)

    @staticmethod
    def _bracket(w, g, r, lookahead, base):
        """The gate ``g`` must be closed 2 ns before and open 2 ns after the opening time of reference ``r``."""
        early = r.t_go - 2 * NS
        if early > w.t and g.is_open(float(early)):
            w.bad.append(dict(kind="gate_opens_before_b1_b2_time", to_reference_opening_ms=float((r.t_go - w.t) * 1000),
                              lookahead=lookahead, _cut=True, **base))
        late = max(w.t, r.t_go + 2 * NS)
        if not g.is_open(float(late)):
            w.bad.append(dict(kind="gate_still_closed_after_b1_b2_time", to_reference_opening_ms=float((r.t_go - w.t) * 1000),
                              lookahead=lookahead, _cut=True, **base))

    # ---- verdicts / canonical state -----------------------------------------------------------------
    def check(self, w, ev, obs, hist):
        if isinstance(obs, tuple) and obs and obs[0] == "EXC":
            return [dict(kind="gate_exception", part="gate", event=ev[0], arg=str(ev[1]), exc=obs[1] + ":" + obs[2], _cut=True)]
        return w.bad

    def canon(self, w):
        """(t - t_pg, t_go - t, delta) of the REFERENCE in exact rationals + time since the last real admission + the
        gate view.  No field of the real object is read: every state that is stored has just passed _observe(), i.e.
        the real gate agreed with the reference on its opening time and on the opening time after every menu delta
        update / admission (states that disagree are reported and cut, never stored).  Absolute time is dropped:
        B.1/B.2 use time differences only."""
        ref = w.ref
        rc = (None, None) if ref.t_pg is None else (w.t - ref.t_pg, ref.t_go - w.t)
        la = None if w.last_admit is None else w.t - w.last_admit
        return (rc, ref.delta, la, w.view_open)

    def outcome(self, w, obs):
        return obs


def _mk_gate(origin, delta0, order_seed, menu="planned"):
    return GateModel(origin, delta0, order_seed, menu)


# ---- level-synchronous parallel BFS (same Model protocol / Result as mc.explore) -----------------------------
# mc.explore.parallel_bfs de-duplicates inside each worker only; on this very confluent graph (every admission
# resets the gate) that multiplies the work instead of dividing it.  Here the frontier of each level is split over
# the pool, successors come back with their canonical hash and the parent de-duplicates globally.
_LB = {}


def _lb_expand(job):
    import pickle
    fargs, chunk = job
    if fargs not in _LB:
        _LB[fargs] = _mk_gate(*fargs)
    model = _LB[fargs]
    out, viol, outcomes = [], [], set()
    trans = xchecks = pruned = 0
    local = set()
    for blob, hist in chunk:
        world = pickle.loads(blob)
        for ev in model.enabled(world):
            nxt = X.snapshot(model, world)
            nh = hist + (ev,)
            try:
                obs = model.apply(nxt, ev)
            except Exception as e:  # noqa: BLE001
                obs = ("EXC", type(e).__name__, str(e)[:200])
            trans += 1
            bad = model.check(nxt, ev, obs, nh) or []
            cut = False
            for rec in bad:
                if rec.pop("_cut", False):
                    cut = True
                if len(viol) < 200:
                    viol.append((rec, list(nh)))
            if cut or (isinstance(obs, tuple) and obs and obs[0] == "EXC"):
                pruned += 1
                continue
            c = model.canon(nxt)
            if trans % 499 == 0:
                xchecks += 1
                c2 = model.canon(X.rebuild(model, list(nh)))
                if c2 != c:
                    raise X.NondeterminismError(f"replay of {nh!r} diverges from snapshot:\n{c!r}\n{c2!r}")
            outcomes.add(model.outcome(nxt, obs))
            k = X._h(c)
            if k in local:
                continue
            local.add(k)
            out.append((k, pickle.dumps(nxt, protocol=pickle.HIGHEST_PROTOCOL), nh))
    return out, viol, outcomes, trans, xchecks, pruned


def level_bfs(fargs, max_depth, pool=None, pool_procs=16):
    import pickle
    own = pool is None
    if own:
        pool = mp.Pool(pool_procs)
    try:
        return _level_bfs(fargs, max_depth, pool, pool_procs)
    finally:
        if own:
            pool.close()
            pool.join()


def _level_bfs(fargs, max_depth, pool, pool_procs):
    import pickle
    model = _mk_gate(*fargs)
    res = X.Result()
    w0 = model.init()
    k0 = X._h(model.canon(w0))
    res.hashes.add(k0)
    frontier = [(pickle.dumps(w0, protocol=pickle.HIGHEST_PROTOCOL), ())]
    for depth in range(max_depth):
        if not frontier:
            break
        frontier.sort(key=lambda x: x[1])            # order of work is irrelevant for the result; keep chunks reproducible
        n = max(1, min(len(frontier), pool_procs * 6))
        chunks = [frontier[i::n] for i in range(n)]
        nxt_frontier = []
        for out, viol, outcomes, trans, xc, pruned in pool.imap_unordered(_lb_expand, [(fargs, c) for c in chunks]):
            res.transitions += trans
            res.xchecks += xc
            res.pruned += pruned
            res.outcomes |= outcomes
            res.violations.extend(viol[:max(0, 1000 - len(res.violations))])
            for k, blob, nh in out:
                if k in res.hashes:
                    continue
                res.hashes.add(k)
                nxt_frontier.append((blob, nh))
        res.depth_hist[depth + 1] = len(nxt_frontier)
        if nxt_frontier:
            res.max_depth = depth + 1
        frontier = nxt_frontier
    if frontier:
        res.complete = False
        res.cap_hit = f"depth {max_depth}"
    res.samples = [[list(e) for e in h] for _b, h in sorted(frontier, key=lambda x: x[1])[:2]]
    res.states = len(res.hashes)
    return res


def gate_part(ctx, seed, runs, pool):
    """runs: list of (label, origin, menu, depth)."""
    tot_states = tot_trans = xchecks = 0
    outcomes = set()
    digests = []
    samples = []
    complete = True
    caps = []
    for label, origin, menu, depth in runs:
        fargs = (origin, "mid", seed, menu)
        if menu == "planned":
            r = X.bfs(_mk_gate(*fargs), depth, xcheck_every=97)
        else:
            r = level_bfs(fargs, depth, pool)
        tot_states += r.states
        tot_trans += r.transitions
        xchecks += r.xchecks
        outcomes |= {(menu, o) for o in r.outcomes}
        digests.append((label, r.digest()))
        samples.extend(dict(part=label, history=h) for h in r.samples[:1])
        if r.cap_hit:
            caps.append((label, r.cap_hit))
        if not r.complete and not str(r.cap_hit).startswith("depth"):
            complete = False
        for rec, hist in r.violations:
            rec.pop("_cut", None)
            rec.setdefault("part", "gate")
            rec["menu"] = menu
            rec["origin"] = origin
            ctx.violation(rec, replay=dict(part="gate", origin=origin, delta0="mid", menu=menu, history=[list(e) for e in hist]))
        ctx.parts[label] = dict(origin=origin, menu=menu, events=len(GATE_EVENTS if menu == "planned" else GATE_EVENTS_WIDE),
                                states=r.states, transitions=r.transitions, max_depth=r.max_depth, cap=r.cap_hit, pruned=r.pruned,
                                xchecks=r.xchecks, outcomes=sorted(map(repr, r.outcomes)), depth_histogram=dict(sorted(r.depth_hist.items())),
                                digest=r.digest())
    return tot_states, tot_trans, xchecks, outcomes, samples, digests, complete, caps


# =================================================================================================
def run(ctx):
    thorough = ctx.tier == "thorough"
    rng = _random.Random(ctx.seed)
    s1, t1, tr1, o1, smp1, d1 = reactive_part(ctx, rng)
    if thorough:
        runs = [("gate_planned", 0.0, "planned", 24), ("gate_planned_origin_64", 64.0, "planned", 24),
                ("gate_wide", 0.0, "wide", 11), ("gate_wide_origin_64", 64.0, "wide", 8)]
    else:
        runs = [("gate_planned", 0.0, "planned", 18), ("gate_wide", 0.0, "wide", 7)]
    import gc
    gc.collect()
    gc.freeze()                 # keep the forked workers from touching (copying) the parent's heap
    pool = mp.Pool(16)
    try:
        s2, t2, tr2, o2, smp2, d2 = adaptive_part(ctx, rng, pool, 8 if thorough else 7)
        s3, t3, xc, o3, smp3, d3, complete, caps = gate_part(ctx, ctx.seed, runs, pool)
    finally:
        pool.close()
        pool.join()
        gc.unfreeze()
    ctx.coverage.update(
        states=s1 + s2 + s3, transitions=t1 + t2 + t3, traces_validated_against_impl=tr1 + tr2 + t3,
        replay_crosschecks=xc, distinct_outcomes=len(o1) + len(o2) + len(o3), exhaustive=complete, caps=caps,
        state_digests=[("reactive", d1), ("adaptive", d2)] + d3,
        samples=(smp1 + smp2 + smp3)[:5],
        explanation=("every transition is a call into the real DccReactive.update / DccAdaptive.update / GateKeeper.admit_packet, "
                     "update_delta (or a move of the harness clock that is passed to them as the parameter t); canonical states use the "
                     "public interface only (reactive: documented state attribute + one-step signature of update() over all inputs; "
                     "adaptive: documented cbr_its_s/delta + returned delta + last measurement, counted not merged; gate: "
                     "(t-t_pg, t_go-t, delta) of the reference, the real gate being compared with it at every transition through "
                     "is_open() probes and one-step lookahead on copies); 'exhaustive' refers to the stated alphabets and depth "
                     "bounds (gate: depth cap is the bound), not to all real-valued inputs"),
    )
    ctx.assumptions += [
        "Annex A rows as literals in mc/ref/dcc.py; the Table A.1 Active-3/Restrictive boundary (0.60) could not be compared with "
        "TS 102 687 offline and is pinned to the value documented in the implementation",
        "Annex A bands are read as [lower bound, next lower bound) with Restrictive reaching to CBR=1 inclusive; thresholds are the "
        "binary64 numbers nearest the decimal table entries",
        "clause 5.4 equations 1-6 and B.1/B.2 as quoted in the implementation's docstrings (standard text not available offline), "
        "re-implemented independently in exact rationals",
        "adaptive comparison tolerance 1e-12 (binary64 rounding of the implementation); delta bounds compared exactly",
        "gate keeper: all times are compared with 1 ns tolerance (the implementation's own rounding epsilon); inside +-1 ns of the "
        "reference opening time either answer is accepted and the reference follows the implementation; times are seconds from a "
        "small origin (0 s, thorough also 64 s) where binary64 resolves far below 1 ns - with unix-epoch magnitudes (ulp 238 ns) "
        "a 1 ns criterion is not meaningful",
        "the real gate is observed through is_open()/admit_packet()/update_delta() on deep copies only (no private field is "
        "read, is_open() need not be pure): its opening time is bracketed 2 ns before/after the B.1/B.2 time, and after every "
        "transition each menu delta (closed) / T_on (open) is applied to a copy and bracketed again (one-step lookahead); a hidden "
        "divergence that no single menu event reveals would go unnoticed until it becomes observable",
        "reactive inputs outside [0,1] are outside the statement's quantifier: behaviour is reported (parts.reactive."
        "out_of_range_behaviour), only the one-state-per-evaluation rule is judged for them",
    ]


# =================================================================================================
def _pf(s):
    return float(s)


def replay(path):
    rec = json.load(open(path))
    print(json.dumps(rec["violation"], indent=1))
    rp = rec["replay"] or {}
    part = rp.get("part", "")
    bad = []
    if part in ("reactive", "reactive_conv"):
        o = _mk_reactive(rp["cfg"])
        for c in rp.get("path", []):
            o.update(_pf(c))
        if "cbr" not in rp:
            return 1
        c = _pf(rp["cbr"])
        if part == "reactive":
            b, a, outcome, bad, _obs = reactive_edge(o, rp["cfg"], c)
            print(R.STATES[b], "--", c, "->", R.STATES[a], outcome, bad or "ok")
        else:
            table = R.table_for(1000 if rp["cfg"] is None else rp["cfg"])
            tgt = R.band(table, c)
            trace = [R.STATES[_sidx(o)]]
            for _ in range(4):
                o.update(c)
                trace.append(R.STATES[_sidx(o)])
            print("constant", c, "band", R.STATES[tgt], "trace", trace)
            bad = [] if R.STATES[tgt] in trace[1:] else [dict(kind="reactive_no_convergence")]
    elif part == "adaptive":
        alg, ref = _mk_adaptive(rp["params"])
        prev = 0.0
        seq = ()
        for s in rp["seq"]:
            c = _pf(s)
            seq += (c,)
            try:
                got, exc = _adaptive_call(alg, rp["mode"], c, prev), None
            except Exception as e:  # noqa: BLE001
                got, exc = None, type(e).__name__
            want = ref.step(c, prev)
            b = _adaptive_check(rp["params"], rp["mode"], seq, got, want, exc)
            print(len(seq), c, "impl", got, "ref", float(want), b or "ok")
            bad += b
            prev = c
        if not rp["seq"]:
            p = PARAMS[rp["params"]]
            bad = [] if p["delta_min"] <= alg.delta <= p["delta_max"] else [dict(kind="adaptive_delta_out_of_bounds")]
    elif part == "adaptive_reject":
        alg, ref = _mk_adaptive(rp["params"])
        prev = 0.0
        for s in rp["prefix"]:
            _adaptive_call(alg, rp["mode"], _pf(s), prev)
            ref.step(_pf(s), prev)
            prev = _pf(s)
        kw = dict(cbr_local=0.5, cbr_local_previous=prev)
        if rp["mode"] == "global":
            kw = dict(cbr_local=DECOY[0], cbr_local_previous=DECOY[1], cbr_global=0.5, cbr_global_previous=prev)
        kw[rp["argument"]] = _pf(rp["value"])
        ctrl = _adaptive_call(_snap(alg), rp["mode"], 0.5, prev)
        try:
            r = alg.update(**kw)
            print("accepted ->", r)
            bad = [dict(kind="adaptive_out_of_range_local_cbr_accepted")]
        except Exception as e:  # noqa: BLE001
            print("rejected with", type(e).__name__)
            got = _adaptive_call(alg, rp["mode"], 0.5, prev)
            print("next evaluation after the rejected call", got, "without it", ctrl)
            bad = [] if got == ctrl else [dict(kind="adaptive_rejected_value_changed_delta")]
    elif part == "gate":
        m = GateModel(rp.get("origin", 0.0), rp.get("delta0", "mid"), 0, rp.get("menu", "planned"))
        w = m.init()
        hist = [tuple(e) for e in rp["history"]]
        for i, ev in enumerate(hist):
            try:
                obs = m.apply(w, ev)
            except Exception as e:  # noqa: BLE001
                obs = ("EXC", type(e).__name__, str(e))
            b = m.check(w, ev, obs, hist[:i + 1])
            print(i, ev, "t=%.9f" % float(w.t), "ref t_go=%s" % (None if w.ref.t_go is None else "%.9f" % float(w.ref.t_go)),
                  "impl open=%s" % w.gk.is_open(float(w.t)), obs, b or "ok")
            bad += b
    return 1 if bad else 0
