"""Runner: python -m mc.run Cxx [--tier quick|thorough] [--replay file]"""
from __future__ import annotations

import argparse
import importlib
import os
import sys


def main():
    ap = argparse.ArgumentParser()
    ap.add_argument("prop")
    ap.add_argument("--tier", default=os.environ.get("VERIF_TIER", "quick"))
    ap.add_argument("--replay", default=None)
    args = ap.parse_args()
    if os.environ.get("PYTHONHASHSEED") != "0":
        os.environ["PYTHONHASHSEED"] = "0"
        os.execv(sys.executable, [sys.executable, "-m", "mc.run"] + sys.argv[1:])
    seed = int(os.environ.get("VERIF_SEED", "0") or 0)
    from mc import env  # noqa: F401  (installs the shims before flexstack is imported)
    mod = importlib.import_module(f"mc.checks.{args.prop.lower()}")
    if args.replay:
        sys.exit(mod.replay(args.replay))
    from mc.core import Ctx
    ctx = Ctx(args.prop, args.tier, seed, mod.LEVEL)
    try:
        mod.run(ctx)
    except Exception:
        import traceback
        traceback.print_exc()
        print(f"[{args.prop}] HARNESS ERROR")
        sys.exit(2)
    sys.exit(ctx.finish())


if __name__ == "__main__":
    main()
