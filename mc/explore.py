"""E1 - explicit-state breadth-first explorer over *real* objects.

A model is an object with:
    init()                      -> fresh world (real FlexStack objects + environment)
    enabled(world)              -> list of events (JSON-able; tuples/lists/str/int); the first is the default answer
    apply(world, event)         -> observation (anything); executes real code
    check(world, event, obs, hist) -> list of violation records (dicts with 'kind')
    canon(world)                -> hashable canonical state (property-relevant projection)
optionally:
    final(world, hist)          -> list of violation records checked on a copy run to quiescence
    share(world)                -> iterable of objects shared (not copied) between snapshots

Successors are produced by deepcopy of the parent followed by the real call; every
``xcheck_every``-th successor is rebuilt by replaying its history on a fresh world and the
canonical forms must agree (determinism + snapshot fidelity); disagreement is a harness
error (NondeterminismError), never a VIOLATION.
"""
from __future__ import annotations

import copy
import hashlib
import multiprocessing as mp
import pickle
import time
from collections import deque


class NondeterminismError(RuntimeError):
    pass


def _h(c) -> bytes:
    return hashlib.blake2b(repr(c).encode(), digest_size=12).digest()


class Result:
    def __init__(self):
        self.states = 0
        self.transitions = 0
        self.max_depth = 0
        self.xchecks = 0
        self.violations = []      # (record, history)
        self.complete = True      # frontier exhausted below the depth cap (graph closed)
        self.cap_hit = None
        self.samples = []
        self.hashes = set()
        self.outcomes = set()
        self.depth_hist = {}
        self.pruned = 0

    def merge(self, o: "Result"):
        self.transitions += o.transitions
        self.max_depth = max(self.max_depth, o.max_depth)
        self.xchecks += o.xchecks
        self.violations.extend(o.violations)
        self.complete = self.complete and o.complete
        self.cap_hit = self.cap_hit or o.cap_hit
        self.samples.extend(o.samples[:2])
        self.hashes |= o.hashes
        self.outcomes |= o.outcomes
        self.pruned += o.pruned
        for k, v in o.depth_hist.items():
            self.depth_hist[k] = self.depth_hist.get(k, 0) + v
        self.states = len(self.hashes)

    def digest(self):
        x = hashlib.sha256()
        for h in sorted(self.hashes):
            x.update(h)
        return x.hexdigest()[:16]


def snapshot(model, world):
    memo = {}
    sh = getattr(model, "share", None)
    if sh is not None:
        for o in sh(world):
            memo[id(o)] = o
    return copy.deepcopy(world, memo)


def rebuild(model, hist):
    w = model.init()
    for ev in hist:
        model.apply(w, ev)
    return w


def bfs(model, max_depth, *, prefix=(), max_states=None, time_cap=None, xcheck_every=97, stop_on_violation=False,
        max_violations=50, record_edges=False):
    """Explore all event histories (extending ``prefix``) up to ``max_depth`` events."""
    res = Result()
    t0 = time.time()
    w0 = rebuild(model, list(prefix))
    k0 = _h(model.canon(w0))
    res.hashes.add(k0)
    frontier = deque([(w0, tuple(prefix), k0)])
    n_succ = 0
    if record_edges:
        res.edges = []
        res.terminals = 0
    while frontier:
        world, hist, kcur = frontier.popleft()
        depth = len(hist)
        res.max_depth = max(res.max_depth, depth)
        evs = model.enabled(world)
        if not evs:
            res.terminals = getattr(res, "terminals", 0) + 1
            term = getattr(model, "terminal", None)
            if term is not None:
                for rec in term(world, hist) or []:
                    res.violations.append((rec, list(hist)))
            continue
        if depth >= max_depth:
            res.complete = False
            res.cap_hit = res.cap_hit or f"depth {max_depth}"
            continue
        for ev in evs:
            nxt = snapshot(model, world)
            nh = hist + (ev,)
            try:
                obs = model.apply(nxt, ev)
            except Exception as e:  # noqa: BLE001  - an exception escaping real code is an observation
                obs = ("EXC", type(e).__name__, str(e)[:200])
                nxt.exc = obs
            res.transitions += 1
            n_succ += 1
            bad = model.check(nxt, ev, obs, nh) or []
            cut = False
            for rec in bad:
                if rec.pop("_cut", False):
                    cut = True
                if len(res.violations) < max_violations * 20:
                    res.violations.append((rec, list(nh)))
            if bad and stop_on_violation:
                return res
            if cut:
                res.pruned += 1
                continue
            if isinstance(obs, tuple) and obs and obs[0] == "EXC":
                # state after an escaped exception is not explored further
                res.outcomes.add(("EXC", obs[1]))
                continue
            c = model.canon(nxt)
            k = _h(c)
            if xcheck_every and n_succ % xcheck_every == 0:
                w2 = rebuild(model, list(nh))
                c2 = model.canon(w2)
                res.xchecks += 1
                if c2 != c:
                    raise NondeterminismError(f"replay of {nh!r} diverges from snapshot:\n{c!r}\n{c2!r}")
            out = getattr(model, "outcome", None)
            if out is not None:
                res.outcomes.add(out(nxt, obs))
            if record_edges:
                res.edges.append((kcur, k))
            if k in res.hashes:
                continue
            res.hashes.add(k)
            res.depth_hist[depth + 1] = res.depth_hist.get(depth + 1, 0) + 1
            if len(res.samples) < 3 and depth + 1 >= min(3, max_depth):
                res.samples.append([list(e) if isinstance(e, tuple) else e for e in nh])
            frontier.append((nxt, nh, k))
            if max_states and len(res.hashes) >= max_states:
                res.complete = False
                res.cap_hit = f"max_states {max_states}"
                frontier.clear()
                break
        if time_cap and time.time() - t0 > time_cap:
            res.complete = False
            res.cap_hit = f"time {time_cap}s"
            break
    res.states = len(res.hashes)
    return res


def _worker(args):
    model_factory, fargs, prefix, max_depth, kw = args
    model = model_factory(*fargs)
    r = bfs(model, max_depth, prefix=prefix, **kw)
    return r


def parallel_bfs(model_factory, fargs, max_depth, split_depth=1, procs=16, **kw):
    """Explore the tree below each distinct state at ``split_depth`` in its own process.

    States are de-duplicated inside each worker only (sound: duplicates across workers cost
    time, not coverage); the union of hashes gives the distinct-state count."""
    model = model_factory(*fargs)
    head = bfs(model, split_depth, **{k: v for k, v in kw.items() if k != "time_cap"})
    # collect frontier prefixes at split depth: re-run a BFS that records histories
    prefixes = _prefixes(model, split_depth)
    total = Result()
    total.merge(head)
    if max_depth <= split_depth:
        return total
    total.complete = True
    total.cap_hit = None
    with mp.Pool(procs) as pool:
        for r in pool.imap_unordered(_worker, [(model_factory, fargs, p, max_depth, kw) for p in prefixes]):
            total.merge(r)
    # violations found in head are found again in workers' prefixes? no: workers start below the prefix
    return total


def _prefixes(model, depth):
    seen = {_h(model.canon(model.init()))}
    frontier = deque([(model.init(), ())])
    out = []
    while frontier:
        w, hist = frontier.popleft()
        if len(hist) == depth:
            out.append(hist)
            continue
        for ev in model.enabled(w):
            nxt = snapshot(model, w)
            try:
                obs = model.apply(nxt, ev)
            except Exception:  # noqa: BLE001
                continue
            if any(r.get("_cut") for r in (model.check(nxt, ev, obs, hist + (ev,)) or [])):
                continue
            k = _h(model.canon(nxt))
            if k in seen:
                continue
            seen.add(k)
            frontier.append((nxt, hist + (ev,)))
    return out


SKIP_TYPES: tuple = ()
SKIP_ATTRS = {"mib", "logging", "_prev"}


def generic_canon(obj, depth=0, _seen=None):
    """Generic structural digest of a real object graph (no internal names needed)."""
    if _seen is None:
        _seen = {}
    if SKIP_TYPES and isinstance(obj, SKIP_TYPES):
        return ("skip", type(obj).__name__)
    import types as _t
    import logging as _lg
    if isinstance(obj, (_lg.Logger, _lg.Handler, _t.ModuleType)):
        return ("skip", type(obj).__name__)      # loggers carry caches that depend on which messages were emitted
    if isinstance(obj, _t.MethodType):
        return ("method", obj.__func__.__name__, generic_canon(obj.__self__, depth + 1, _seen))
    if isinstance(obj, (_t.FunctionType, _t.BuiltinFunctionType, type)):
        return ("callable", getattr(obj, "__name__", "?"))
    if obj is None or isinstance(obj, (bool, int, float, str, bytes)):
        return obj
    if id(obj) in _seen:
        return ("ref", _seen[id(obj)])
    _seen[id(obj)] = len(_seen)
    if isinstance(obj, (list, tuple, deque)):
        return tuple(generic_canon(x, depth + 1, _seen) for x in obj)
    if isinstance(obj, (set, frozenset)):
        return tuple(sorted((repr(generic_canon(x, depth + 1, _seen)) for x in obj)))
    if isinstance(obj, dict):
        return tuple(sorted(((repr(generic_canon(k, depth + 1, _seen)), generic_canon(v, depth + 1, _seen)) for k, v in obj.items()),
                            key=lambda kv: kv[0]))
    import enum
    if isinstance(obj, enum.Enum):
        return ("enum", type(obj).__name__, obj.name)
    if callable(obj) and not hasattr(obj, "__dict__"):
        return ("callable",)
    d = getattr(obj, "__dict__", None)
    if d is None:
        slots = getattr(type(obj), "__slots__", None)
        if slots:
            return (type(obj).__name__,) + tuple((s, generic_canon(getattr(obj, s, None), depth + 1, _seen)) for s in slots)
        return ("opaque", type(obj).__name__)
    return (type(obj).__name__,) + tuple((k, generic_canon(v, depth + 1, _seen)) for k, v in sorted(d.items())
                                         if k not in SKIP_ATTRS)


def has_cycle(edges):
    """Iterative DFS cycle detection on the explored state graph."""
    adj = {}
    for a, b in edges:
        adj.setdefault(a, []).append(b)
    WHITE, GREY, BLACK = 0, 1, 2
    col = {}
    for root in adj:
        if col.get(root, WHITE) != WHITE:
            continue
        stack = [(root, iter(adj.get(root, ())))]
        col[root] = GREY
        while stack:
            node, it = stack[-1]
            for nb in it:
                c = col.get(nb, WHITE)
                if c == GREY:
                    return True
                if c == WHITE:
                    col[nb] = GREY
                    stack.append((nb, iter(adj.get(nb, ()))))
                    break
            else:
                col[node] = BLACK
                stack.pop()
    return False
