"""Reference geometry for EN 302 931 areas (circle / rectangle / ellipse with azimuth).

Independent of the repository: local tangent plane at the area centre, azimuth measured
clockwise from North, semi-axis ``a`` along the azimuth direction and ``b`` perpendicular.
Coordinates are signed 1/10 micro-degree integers.
"""
from __future__ import annotations

import math

R = 6371000.0
CIRCLE, RECT, ELLIPSE = 0, 1, 2


def _wrap(dlon):
    return (dlon + 180.0) % 360.0 - 180.0


def local_xy(clat, clon, plat, plon, mode=0):
    """(along-north, along-east) metres of P relative to C; mode selects the latitude used for the
    east-west scale (0: centre, 1: mean, 2: point) - the three are all legitimate first-order projections."""
    la0, lo0, la1, lo1 = clat / 1e7, clon / 1e7, plat / 1e7, plon / 1e7
    north = math.radians(la1 - la0) * R
    ref = (la0, (la0 + la1) / 2.0, la1)[mode]
    east = math.radians(_wrap(lo1 - lo0)) * R * math.cos(math.radians(ref))
    return north, east


def f_value(shape, a, b, angle_deg, north, east, scale=1.0):
    th = math.radians(angle_deg)
    x = north * math.cos(th) + east * math.sin(th)      # along the azimuth direction (semi-axis a)
    y = -north * math.sin(th) + east * math.cos(th)     # perpendicular (semi-axis b)
    a, b = a * scale, b * scale
    if shape == CIRCLE:
        return 1 - (x / a) ** 2 - (y / a) ** 2
    if shape == ELLIPSE:
        return 1 - (x / a) ** 2 - (y / b) ** 2
    return min(1 - (x / a) ** 2, 1 - (y / b) ** 2)


def classify(shape, clat, clon, a, b, angle, plat, plon, rel_tol=0.005, abs_tol=0.5):
    """'inside' | 'outside' | 'band' (within the tolerance band of the border or projections disagree)."""
    verdicts = set()
    for mode in (0, 1, 2):
        n, e = local_xy(clat, clon, plat, plon, mode)
        small = min(a, b) if shape != CIRCLE else a
        tol = max(rel_tol, abs_tol / max(small, 1e-9))
        fin = f_value(shape, a, b, angle, n, e, 1.0 - tol) if tol < 1 else -1.0
        fout = f_value(shape, a, b, angle, n, e, 1.0 + tol)
        if fin >= 0:
            verdicts.add("inside")
        elif fout < 0:
            verdicts.add("outside")
        else:
            verdicts.add("band")
    if verdicts == {"inside"}:
        return "inside"
    if verdicts == {"outside"}:
        return "outside"
    return "band"


def extent(shape, a, b, angle, bearing_deg):
    """distance from the centre to the border along a bearing (degrees clockwise from North)."""
    ph = math.radians(bearing_deg - angle)
    c, s = abs(math.cos(ph)), abs(math.sin(ph))
    if shape == CIRCLE:
        return float(a)
    if shape == ELLIPSE:
        return a * b / math.sqrt((b * c) ** 2 + (a * s) ** 2)
    return min(a / c if c > 1e-12 else float("inf"), b / s if s > 1e-12 else float("inf"))


def destination(clat, clon, bearing_deg, dist):
    """point at distance/bearing from the centre (tangent plane), as 1e-7 degree ints"""
    la0 = clat / 1e7
    north = dist * math.cos(math.radians(bearing_deg))
    east = dist * math.sin(math.radians(bearing_deg))
    lat = la0 + math.degrees(north / R)
    coslat = math.cos(math.radians(la0))
    lon = clon / 1e7 + math.degrees(east / (R * coslat)) if abs(coslat) > 1e-9 else clon / 1e7
    lon = (lon + 180.0) % 360.0 - 180.0
    return int(round(lat * 1e7)), int(round(lon * 1e7))


def area_m2(shape, a, b):
    if shape == CIRCLE:
        return math.pi * a * a
    if shape == ELLIPSE:
        return math.pi * a * b
    return 4.0 * a * b
