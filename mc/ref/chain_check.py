"""Independent authenticity / certificate-chain / permission checker (reference model for C03, C05, C09).

Deliberately boring and independent of the repository's verification logic:

* decoding/encoding is done by an ``asn1tools`` coder compiled here from the ASN.1 *schema text* shipped with
  FlexStack (the schema is data; none of ``SecurityCoder``/``Certificate``/``CertificateLibrary``/``VerifyService``
  is used);
* ECDSA is checked with the low-level ``ecdsa.ecdsa.Public_key.verifies`` primitive on (r, s) integers (the
  repository goes through ``VerifyingKey.verify`` and string encodings);
* results of ECDSA verifications are memoised (trusted base; keyed by public point, digest, r, s).

Conventions accepted as "the signature verifies" (the statement of C03 does not fix one, so every reasonable
one is accepted - the oracle must not be stronger than the statement):
  (a) ECDSA-SHA256 directly over the canonical OER encoding of ToBeSignedData / ToBeSignedCertificate
      (what FlexStack produces);
  (b) IEEE 1609.2 clause 5.3.1: ECDSA over SHA256( SHA256(tbs) || SHA256(signer certificate or empty) ).
"""
from __future__ import annotations

import hashlib

import asn1tools
import ecdsa
from ecdsa import ellipticcurve
from ecdsa.ecdsa import Public_key, Signature

from flexstack.security.security_asn1 import SECURITY_ASN1_DESCRIPTIONS  # ASN.1 schema text only

CODER = asn1tools.compile_string(SECURITY_ASN1_DESCRIPTIONS, codec="oer")
CURVE = ecdsa.NIST256p
N = CURVE.order
P = CURVE.curve.p()

ITS_EPOCH = 1072915200          # 2004-01-01T00:00:00Z (unix seconds)
LEAP = 5                        # TAI-UTC leap seconds since the ITS epoch (as of 2017-01-01)

DURATION_S = {"microseconds": 1e-6, "milliseconds": 1e-3, "seconds": 1, "minutes": 60, "hours": 3600,
              "sixtyHours": 216000, "years": 31556952}

STATS = {"ecdsa_calls": 0, "ecdsa_memo_hits": 0}
_MEMO: dict = {}


# ------------------------------------------------------------------------------------------------
# codec helpers
# ------------------------------------------------------------------------------------------------
def dec_data(b: bytes):
    """EtsiTs103097Data -> dict, or None when asn1tools cannot decode it."""
    try:
        return CODER.decode("EtsiTs103097Data", bytes(b))
    except Exception:  # noqa: BLE001 - undecodable is an answer
        return None


def enc_data(d: dict) -> bytes:
    return CODER.encode("EtsiTs103097Data", d)


def enc_tbs_data(tbs: dict):
    try:
        return CODER.encode("ToBeSignedData", tbs)
    except Exception:  # noqa: BLE001
        return None


def dec_cert(b: bytes):
    try:
        return CODER.decode("EtsiTs103097Certificate", bytes(b))
    except Exception:  # noqa: BLE001
        return None


def enc_cert(c: dict):
    try:
        return CODER.encode("EtsiTs103097Certificate", c)
    except Exception:  # noqa: BLE001
        return None


def enc_tbs_cert(t: dict):
    try:
        return CODER.encode("ToBeSignedCertificate", t)
    except Exception:  # noqa: BLE001
        return None


def h8(cert: dict):
    e = enc_cert(cert)
    return hashlib.sha256(e).digest()[-8:] if e is not None else None


def h3(cert: dict):
    x = h8(cert)
    return x[-3:] if x is not None else None


# ------------------------------------------------------------------------------------------------
# ECDSA primitive
# ------------------------------------------------------------------------------------------------
def _decompress(x: int, ybit: int):
    a, b = CURVE.curve.a(), CURVE.curve.b()
    rhs = (pow(x, 3, P) + a * x + b) % P
    y = pow(rhs, (P + 1) // 4, P)           # P-256: p = 3 (mod 4)
    if (y * y) % P != rhs:
        return None
    if y & 1 != ybit:
        y = P - y
    return y


def pub_xy(pk):
    """PublicVerificationKey / EccP256CurvePoint value -> (x, y) or None."""
    try:
        if pk[0] != "ecdsaNistP256":
            return None
        choice, val = pk[1]
        if choice == "uncompressedP256":
            return int.from_bytes(val["x"], "big"), int.from_bytes(val["y"], "big")
        if choice in ("compressed-y-0", "compressed-y-1"):
            x = int.from_bytes(val, "big")
            y = _decompress(x, int(choice[-1]))
            return None if y is None else (x, y)
    except Exception:  # noqa: BLE001
        return None
    return None


def cert_pub(cert: dict):
    try:
        vki = cert["toBeSigned"]["verifyKeyIndicator"]
        if vki[0] != "verificationKey":
            return None
        return pub_xy(vki[1])
    except Exception:  # noqa: BLE001
        return None


def sig_rs(sig):
    """Signature value -> (r, s, point_claim) or None.  IEEE 1609.2 clause 6.3.29: rSig is the x coordinate of the ephemeral
    point R ('x-only') or R itself ('compressed-y-0/1', 'uncompressedP256', for fast verification).  When R is carried as a
    point the claim about its y coordinate is part of the signature: point_claim is ('ybit', 0|1) or ('y', int)."""
    try:
        if sig[0] != "ecdsaNistP256Signature":
            return None
        rch, rval = sig[1]["rSig"]
        claim = None
        if rch == "x-only":
            r = int.from_bytes(rval, "big")
        elif rch in ("compressed-y-0", "compressed-y-1"):
            r = int.from_bytes(rval, "big")
            claim = ("ybit", int(rch[-1]))
        elif rch == "uncompressedP256":
            r = int.from_bytes(rval["x"], "big")
            claim = ("y", int.from_bytes(rval["y"], "big"))
        else:
            return None
        return r, int.from_bytes(sig[1]["sSig"], "big"), claim
    except Exception:  # noqa: BLE001
        return None


def ecdsa_digest_ok(xy, digest: bytes, r: int, s: int, claim=None) -> bool:
    key = (xy, digest, r, s, claim)
    hit = _MEMO.get(key)
    if hit is not None:
        STATS["ecdsa_memo_hits"] += 1
        return hit
    STATS["ecdsa_calls"] += 1
    ok = False
    try:
        if 1 <= r < N and 1 <= s < N:
            pt = ellipticcurve.Point(CURVE.curve, xy[0], xy[1], N)   # raises if not on the curve
            h = int.from_bytes(digest, "big")
            ok = bool(Public_key(CURVE.generator, pt, verify=True).verifies(h, Signature(r, s)))
            if ok and claim is not None:
                # recompute the ephemeral point R = (h/s) G + (r/s) Q and compare the claimed y coordinate
                c = pow(s, -1, N)
                g = ellipticcurve.Point(CURVE.curve, CURVE.generator.x(), CURVE.generator.y(), N)
                big_r = g * ((h * c) % N) + pt * ((r * c) % N)
                ok = (big_r.x() % N == r) and ((big_r.y() & 1) == claim[1] if claim[0] == "ybit" else big_r.y() == claim[1])
    except Exception:  # noqa: BLE001
        ok = False
    if len(_MEMO) < 400_000:
        _MEMO[key] = ok
    return ok


def signature_ok(xy, tbs_enc: bytes, sig, signer_cert_enc: bytes | None) -> str | None:
    """Return the name of the convention under which ``sig`` verifies over ``tbs_enc``, or None."""
    rs = sig_rs(sig)
    if rs is None or xy is None or tbs_enc is None:
        return None
    if ecdsa_digest_ok(xy, hashlib.sha256(tbs_enc).digest(), *rs):
        return "direct"
    inner = hashlib.sha256(tbs_enc).digest() + hashlib.sha256(signer_cert_enc or b"").digest()
    if ecdsa_digest_ok(xy, hashlib.sha256(inner).digest(), *rs):
        return "1609.2"
    return None


# ------------------------------------------------------------------------------------------------
# certificates: permissions, validity, chains
# ------------------------------------------------------------------------------------------------
def app_psids(cert: dict) -> list:
    return [e["psid"] for e in cert["toBeSigned"].get("appPermissions", [])]


def issue_perms(cert: dict):
    """-> (has_all, explicit psid set, budget) ; budget = min minChainLength over the entries (0 when none)."""
    ents = cert["toBeSigned"].get("certIssuePermissions") or []
    has_all = any(e["subjectPermissions"][0] == "all" for e in ents)
    explicit = set()
    for e in ents:
        if e["subjectPermissions"][0] == "explicit":
            explicit.update(x["psid"] for x in e["subjectPermissions"][1])
    budget = min((e.get("minChainLength", 1) for e in ents), default=0)
    return has_all, explicit, budget


def perms_contained(cert: dict, issuer: dict) -> bool:
    """All permissions of ``cert`` (application and issuing) are inside the issuer's issuing permissions."""
    i_all, i_exp, _ = issue_perms(issuer)
    if i_all:
        return True
    c_all, c_exp, _ = issue_perms(cert)
    if c_all:
        return False
    return set(app_psids(cert)) | c_exp <= i_exp


def _groups(cert: dict):
    """certIssuePermissions as [(is_all, explicit psid set, minChainLength), ...] - every group, in order."""
    out = []
    for e in cert["toBeSigned"].get("certIssuePermissions") or []:
        sp = e["subjectPermissions"]
        out.append((sp[0] == "all", {x["psid"] for x in sp[1]} if sp[0] == "explicit" else set(), e.get("minChainLength", 1)))
    return out


def budget_allows(cert: dict, issuer: dict) -> bool:
    """The issuer's remaining chain length allows issuing ``cert`` - judged per group, over ALL groups: every
    application PSID needs a covering issuer group with budget >= 1; every issuing group of the subject needs, for each
    of its PSIDs (or for 'all'), a covering issuer group with budget >= 1 and a strictly larger budget than the subject's
    group.  PSIDs without any covering group are a containment matter (``perms_contained``), not a budget matter."""
    gi = _groups(issuer)

    def cover(psid):
        return [g for g in gi if g[0] or psid in g[1]]
    for psid in app_psids(cert):
        c = cover(psid)
        if c and not any(g[2] >= 1 for g in c):
            return False
    for (s_all, s_exp, s_min) in _groups(cert):
        if s_all:
            c = [g for g in gi if g[0]]
            if c and not any(g[2] >= 1 and s_min <= g[2] - 1 for g in c):
                return False
        for psid in s_exp:
            c = cover(psid)
            if c and not any(g[2] >= 1 and s_min <= g[2] - 1 for g in c):
                return False
    if not gi:
        return False
    return True


def validity_s(cert: dict):
    vp = cert["toBeSigned"]["validityPeriod"]
    unit, n = vp["duration"]
    return vp["start"], vp["start"] + n * DURATION_S[unit]


def time_in_validity(cert: dict, gen_time_us: int) -> bool:
    lo, hi = validity_s(cert)
    return lo <= gen_time_us / 1e6 <= hi


def is_self_signed_ok(cert: dict) -> bool:
    if cert.get("issuer", (None,))[0] != "self":
        return False
    return signature_ok(cert_pub(cert), enc_tbs_cert(cert["toBeSigned"]), cert.get("signature"), None) is not None


def cert_malformed(cert: dict):
    """Value constraints of the certificate fields that are NOT covered by the issuer's signature (the ASN.1
    schema fixes ``version`` to 3; ETSI TS 103 097 clause 6 uses explicit certificates with a verification key).
    asn1tools does not enforce value constraints when decoding, so the oracle does.  Returns the name of the
    offending field or None."""
    try:
        if cert.get("version") != 3:
            return "version"
        if cert.get("type") != "explicit":
            return "type"
        if cert["toBeSigned"]["verifyKeyIndicator"][0] != "verificationKey":
            return "verifyKeyIndicator"
    except Exception:  # noqa: BLE001
        return "structure"
    return None


def cert_wellformed(cert: dict) -> bool:
    return cert_malformed(cert) is None


def is_ticket(cert: dict) -> bool:
    """TS 103 097 clause 7.2.1 authorization-ticket profile: issued (not self-signed), id 'none', no
    certIssuePermissions, appPermissions present."""
    try:
        t = cert["toBeSigned"]
        return (cert["issuer"][0] in ("sha256AndDigest", "sha384AndDigest") and t["id"][0] == "none"
                and "certIssuePermissions" not in t and "appPermissions" in t)
    except Exception:  # noqa: BLE001
        return False


def link_ok(cert: dict, issuer: dict) -> bool:
    """``cert`` names ``issuer`` by digest and its signature verifies under the issuer's key."""
    iss = cert.get("issuer", (None, None))
    if iss[0] not in ("sha256AndDigest",) or iss[1] != h8(issuer):
        return False
    return signature_ok(cert_pub(issuer), enc_tbs_cert(cert["toBeSigned"]), cert.get("signature"), enc_cert(issuer)) is not None


class Trust:
    """Configured roots + a pool of candidate intermediate certificates (by HashedId8)."""

    def __init__(self, roots: list, pool: list = ()):
        self.roots = {h8(r): r for r in roots if is_self_signed_ok(r)}
        self.pool = {}
        for c in pool:
            self.add_pool(c)

    def add_pool(self, c: dict):
        k = h8(c)
        if k is not None:
            self.pool.setdefault(k, c)

    def chain(self, cert: dict, extra: list = (), check_perms=False, max_len=6, strict=False):
        """Return the list [cert, issuer, ..., root] of a verifying chain up to a configured root, or None.
        ``strict`` additionally demands ``cert_wellformed`` of every certificate of the chain."""
        cands = dict(self.pool)
        for c in extra:
            k = h8(c)
            if k is not None:
                cands.setdefault(k, c)
        cur, out = cert, [cert]
        for _ in range(max_len):
            k = h8(cur)
            if strict and not cert_wellformed(cur):
                return None
            if k in self.roots and enc_cert(self.roots[k]) == enc_cert(cur):
                return out
            iss = cur.get("issuer", (None, None))
            if iss[0] != "sha256AndDigest":
                return None
            nxt = self.roots.get(iss[1]) or cands.get(iss[1])
            if nxt is None or not link_ok(cur, nxt):
                return None
            if check_perms and not perms_contained(cur, nxt):
                return None
            out.append(nxt)
            cur = nxt
        return None


# ------------------------------------------------------------------------------------------------
# secured messages
# ------------------------------------------------------------------------------------------------
class Verdict(dict):
    __getattr__ = dict.get


def classify(sec: bytes, trust: Trust, known_ats: dict, check_perms=False, strict=True) -> Verdict:
    """Authenticity of one EtsiTs103097Data octet string from first principles.

    ``known_ats`` maps HashedId8 -> certificate dict of tickets the receiver may resolve a digest signer with.
    Returns Verdict(authentic=bool, why=..., payload=bytes|None, psid, gen_time, signer=h8, at=cert dict,
    signer_kind, certs=[...certificates carried in the signer field...])."""
    d = dec_data(sec)
    if d is None:
        return Verdict(authentic=False, why="undecodable", certs=[])
    try:
        if d["content"][0] != "signedData":
            return Verdict(authentic=False, why="not_signed:" + str(d["content"][0]), certs=[])
        sd = d["content"][1]
        tbs = sd["tbsData"]
        signer = sd["signer"]
        hi = tbs.get("headerInfo", {})
        inner = tbs["payload"].get("data")
        payload = inner["content"][1] if inner is not None and inner["content"][0] == "unsecuredData" else None
    except Exception as e:  # noqa: BLE001
        return Verdict(authentic=False, why="structure:" + type(e).__name__, certs=[])
    certs = list(signer[1]) if signer[0] == "certificate" else []
    base = dict(payload=payload, psid=hi.get("psid"), gen_time=hi.get("generationTime"), header=hi,
                signer_kind=signer[0], certs=certs, hash_id=sd.get("hashId"))
    if signer[0] == "digest":
        at = known_ats.get(signer[1])
        if at is None:
            return Verdict(authentic=False, why="digest_unknown", signer=signer[1], **base)
        extra = []
    elif signer[0] == "certificate":
        if not certs:
            return Verdict(authentic=False, why="empty_chain", **base)
        at, extra = certs[0], certs[1:]
    else:
        return Verdict(authentic=False, why="signer_" + str(signer[0]), **base)
    ch = trust.chain(at, extra, check_perms=check_perms, strict=strict)
    if ch is None or len(ch) < 2:
        why = "chain"
        loose = trust.chain(at, extra, check_perms=check_perms, strict=False) if strict else None
        if loose is not None:       # signatures verify, a field outside the signed part is invalid
            why = "chain_malformed_certificate:" + ",".join(sorted({cert_malformed(c) for c in loose if cert_malformed(c)}))
        return Verdict(authentic=False, why=why, signer=h8(at), at=at, **base)
    if not is_ticket(at):
        return Verdict(authentic=False, why="signer_not_a_ticket", signer=h8(at), at=at, **base)
    conv = signature_ok(cert_pub(at), enc_tbs_data(tbs), sd.get("signature"), enc_cert(at))
    if conv is None:
        return Verdict(authentic=False, why="signature", signer=h8(at), at=at, **base)
    if payload is None:
        return Verdict(authentic=False, why="no_plain_payload", signer=h8(at), at=at, **base)
    return Verdict(authentic=True, why="ok:" + conv, signer=h8(at), at=at, chain_len=len(ch), **base)
