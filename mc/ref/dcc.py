"""Reference models for ETSI TS 102 687 V1.2.1 DCC (property C19).  Deliberately boring.

* Annex A tables A.1 / A.2 as literals (decimal strings, no arithmetic).
* Clause 5.4 adaptive (LIMERIC) recurrence, equations 1-6, in exact ``fractions.Fraction``.
* Annex B gate keeper, equations B.1 / B.2, in exact ``fractions.Fraction``.

Nothing in here imports FlexStack.
"""
from __future__ import annotations

from fractions import Fraction as F

# ---------------------------------------------------------------------------------------
# Annex A (reactive approach).  One row per state, in the linear order of clause 5.3.
# (state name, lowest CBR of the band, packet rate [Hz], T_off [ms]).  A band reaches from its
# own lower bound (inclusive) to the lower bound of the next row (exclusive); Restrictive
# reaches up to and including CBR = 1.
# NOTE: the Active-3 / Restrictive boundary of Table A.1 ("0.60") could not be compared with
# the text of the standard offline; it is pinned to the value the implementation documents.
# ---------------------------------------------------------------------------------------
STATES = ("RELAXED", "ACTIVE_1", "ACTIVE_2", "ACTIVE_3", "RESTRICTIVE")

TABLE_A1 = (            # T_on <= 1 ms
    ("RELAXED",     "0.00", "10",  "100"),
    ("ACTIVE_1",    "0.30", "5",   "200"),
    ("ACTIVE_2",    "0.40", "2.5", "400"),
    ("ACTIVE_3",    "0.50", "2",   "500"),
    ("RESTRICTIVE", "0.60", "1",   "1000"),
)
TABLE_A2 = (            # T_on <= 500 us
    ("RELAXED",     "0.00", "20",  "50"),
    ("ACTIVE_1",    "0.30", "10",  "100"),
    ("ACTIVE_2",    "0.40", "5",   "200"),
    ("ACTIVE_3",    "0.50", "4",   "250"),
    ("RESTRICTIVE", "0.65", "1",   "1000"),
)
TABLES = {"A1": TABLE_A1, "A2": TABLE_A2}


def table_for(t_on_max_us) -> str:
    """Annex A: Table A.2 applies when T_on is at most 500 us, Table A.1 when at most 1 ms."""
    return "A2" if t_on_max_us <= 500 else "A1"


def band(table: str, cbr: float) -> int:
    """Index of the state whose CBR band contains ``cbr`` (a binary64 in [0, 1]).

    Thresholds are the binary64 numbers nearest to the decimal table entries, i.e. a measurement
    written "0.30" is the threshold "0.30"; the +-1e-9 neighbours used by the check are nine
    orders of magnitude away from that rounding."""
    rows = TABLES[table]
    idx = 0
    for i, row in enumerate(rows):
        if cbr >= float(row[1]):
            idx = i
    return idx


def row(table: str, idx: int):
    """(name, packet_rate_hz, t_off_ms) of state ``idx`` as floats."""
    r = TABLES[table][idx]
    return r[0], float(r[2]), float(r[3])


def boundaries(table: str):
    return [float(r[1]) for r in TABLES[table][1:]]


# ---------------------------------------------------------------------------------------
# Clause 5.4 (adaptive approach), steps 1-5 / equations 1-6, exact rationals.
# ---------------------------------------------------------------------------------------
class Limeric:
    """delta and CBR_ITS-S are Fractions; parameters are taken as the exact value of the floats given."""

    def __init__(self, alpha, beta, cbr_target, delta_max, delta_min, delta_up_max, delta_down_max,
                 delta0=None, cbr_its_s0=0):
        self.alpha = F(alpha)
        self.beta = F(beta)
        self.target = F(cbr_target)
        self.dmax = F(delta_max)
        self.dmin = F(delta_min)
        self.up = F(delta_up_max)
        self.down = F(delta_down_max)
        self.delta = F(delta0) if delta0 is not None else self.dmin
        self.cbr = F(cbr_its_s0)

    def copy(self):
        o = Limeric.__new__(Limeric)
        o.__dict__.update(self.__dict__)
        return o

    def step(self, cbr_now, cbr_prev):
        """One evaluation with the two most recent CBR values (local, or global when available)."""
        # step 1, eq. 1
        self.cbr = F(1, 2) * self.cbr + F(1, 2) * ((F(cbr_now) + F(cbr_prev)) / 2)
        # step 2, eq. 2 / 3
        d = self.target - self.cbr
        if d > 0:
            off = min(self.beta * d, self.up)
        else:
            off = max(self.beta * d, self.down)
        # step 3, eq. 4
        self.delta = (1 - self.alpha) * self.delta + off
        # step 4, eq. 5
        if self.delta > self.dmax:
            self.delta = self.dmax
        # step 5, eq. 6
        if self.delta < self.dmin:
            self.delta = self.dmin
        return self.delta


# ---------------------------------------------------------------------------------------
# Annex B gate keeper, exact rationals.  Times in seconds.
# ---------------------------------------------------------------------------------------
GATE_MIN = F(25, 1000)
GATE_MAX = F(1)


class Gate:
    def __init__(self, delta):
        self.delta = F(delta)
        self.t_pg = None     # time of the last admission (gate closed then)
        self.t_go = None     # time at which the gate opens again

    def is_open(self, t) -> bool:
        return self.t_go is None or F(t) >= self.t_go

    def admit(self, t, t_on):
        """A packet was admitted at t: close the gate and schedule the opening (B.1)."""
        t = F(t)
        self.t_pg = t
        self.t_go = t + min(max(F(t_on) / self.delta, GATE_MIN), GATE_MAX)

    def set_delta(self, delta_new, closed: bool):
        """delta changes; when the gate is closed the opening time is rescaled (B.2)."""
        delta_new = F(delta_new)
        old = self.delta
        self.delta = delta_new
        if closed and self.t_go is not None:
            self.t_go = self.t_pg + min(max(old / delta_new * (self.t_go - self.t_pg), GATE_MIN), GATE_MAX)
