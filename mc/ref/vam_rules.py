"""Reference monitor for the VAM half of property C10 - a direct transcription of the statement.

    "The VRU service sends a VAM at the first position report after activation and thereafter keeps
     consecutive VAMs at least T_GenVamMin (100 ms, on the reports' timestamps) apart and - while reports keep
     arriving and the station is neither passive nor idle - at most T_GenVamMax (5 s) plus one report period
     apart, with the low-frequency container in the first VAM and in every VAM generated at least 2 s after
     the last one that carried it."

Interpretations (stated):
* activation = creation of the transmission management (it has no start/stop); idle / passive periods only
  *suppress* VAMs (any VAM emitted while suppressed is a violation) and restart the "reports keep arriving"
  stream when they end;
* "reports keep arriving": inter-report spacing <= 1 s (1 Hz is the slowest rate of the quantifier).  The upper
  bound is read in its weakest form: once the stream has been continuous *and* unsuppressed for T_GenVamMax
  since the last VAM (or since the stream began), the report arriving then must produce a VAM;
* a *position report* is a report that carries a position (lat and lon).  The first-VAM clause applies to every position
  report, with or without a time stamp; the spacing clauses are measured "on the reports' timestamps", so they oblige
  only for position reports that carry a time stamp (others do not count as "reports keep arriving"; a VAM they trigger
  must still obey the spacing and low-frequency rules);
* the minimum spacing is measured on the time stamps of the reports that triggered the two VAMs (reports
  without a time stamp are not measured);
* the low-frequency rule is one-sided for VAMs (the statement has no "and none in between" clause); "generated at"
  is the virtual clock, and a VAM generated *exactly* 2 000 ms after the last carrier may go either way because
  the implementation measures this interval on a float seconds clock that cannot represent the instants exactly.
"""
from __future__ import annotations

T_GEN_VAM_MIN = 100
T_GEN_VAM_MAX = 5000
T_LF = 2000
MAX_REPORT_PERIOD = 1000


def _hdiff(a, b):
    d = abs(a - b) % 360.0
    return 360.0 - d if d > 180.0 else d


class VamRules:
    def __init__(self):
        self.first_done = False
        self.last_vam_ms = None        # virtual clock of the last VAM
        self.last_vam_ts = None        # time stamp (unix ms) of the report that triggered it (None if it had none)
        self.last_vam_report = None
        self.last_lf_ms = None
        self.prev_report_ms = None
        self.stream_start_ms = None    # first report of the current continuous, unsuppressed stream
        self.suppressed = False        # idle or passive

    def set_suppressed(self, flag: bool):
        self.suppressed = flag
        self.stream_start_ms = None
        self.prev_report_ms = None

    def cause(self, report):
        """Classify a VAM against the last VAM's report: which dynamics changed (as far as both reports carry them) and
        whether the last VAM lacked a quantity the current report carries (the reference is then an 'unavailable' code)."""
        ref = self.last_vam_report or {}
        return dict(
            speed_changed="speed" in report and "speed" in ref and abs(report["speed"] - ref["speed"]) > 0.5,
            heading_changed="track" in report and "track" in ref and _hdiff(report["track"], ref["track"]) > 4.0,
            ref_unavailable=any(f in report and f not in ref for f in ("speed", "track", "lat", "lon")))

    def on_report(self, ms, report: dict, report_ts, vams):
        """A report delivered at virtual ``ms``; ``vams`` = decoded VAMs emitted while it was processed."""
        out = []
        if self.suppressed:
            if vams:
                out.append(dict(kind="vam_while_suppressed", count=len(vams)))
            return out
        positioned = "lat" in report and "lon" in report                # a *position report*: it carries a position
        usable = positioned and "time" in report                         # ... and a time stamp (needed by the spacing rules)
        if usable:
            if self.prev_report_ms is None or ms - self.prev_report_ms > MAX_REPORT_PERIOD:
                self.stream_start_ms = ms
            self.prev_report_ms = ms
        if len(vams) > 1:
            out.append(dict(kind="vam_multiple_for_one_report", count=len(vams)))
        if not vams:
            if not self.first_done:
                # "sends a VAM at the first position report after activation": no time-stamp qualifier in that clause
                if positioned:
                    out.append(dict(kind="vam_first_missing", has_time="time" in report))
                return out
            if not usable:
                return out
            else:
                since = ms - max(self.last_vam_ms, self.stream_start_ms)
                if since >= T_GEN_VAM_MAX:
                    out.append(dict(kind="vam_too_late", since_ms=since, period_ms=ms - self.stream_start_ms))
            return out
        vam = vams[0]
        if self.first_done and report_ts is not None and self.last_vam_ts is not None:
            spacing = report_ts - self.last_vam_ts
            if spacing < T_GEN_VAM_MIN:
                out.append(dict(kind="vam_too_close", spacing_ms=spacing, **self.cause(report)))
        has_lf = "vruLowFrequencyContainer" in vam["vam"]["vamParameters"]
        if not has_lf:
            if not self.first_done:
                out.append(dict(kind="vam_lf_missing", first=True, since_lf_ms=None))
            elif self.last_lf_ms is not None and ms - self.last_lf_ms > T_LF:
                out.append(dict(kind="vam_lf_missing", first=False, since_lf_ms=ms - self.last_lf_ms))
        if has_lf:
            self.last_lf_ms = ms
        self.first_done = True
        self.last_vam_ms = ms
        self.last_vam_ts = report_ts
        self.last_vam_report = report
        return out

    def state(self, ms):
        rel = lambda t, cap: None if t is None else min(ms - t, cap)   # noqa: E731
        return (self.first_done, self.suppressed, rel(self.last_vam_ms, T_GEN_VAM_MAX + 2000), rel(self.last_lf_ms, T_LF + 1),
                rel(self.prev_report_ms, MAX_REPORT_PERIOD + 1), rel(self.stream_start_ms, T_GEN_VAM_MAX + 1))
