"""Reference for the GN lifetime field (EN 302 636-4-1 clause 9.6.4)."""
from bisect import bisect_right

BASES = (50, 1000, 10_000, 100_000)
VALUES = sorted({m * b for m in range(64) for b in BASES})


def best(requested_ms: int) -> int:
    """Largest representable lifetime not exceeding the request."""
    i = bisect_right(VALUES, requested_ms)
    return VALUES[i - 1] if i > 0 else 0


def decode(octet: int) -> int:
    return (octet >> 2) * BASES[octet & 3]
