"""Reference monitor for the CAM half of property C10 - a direct transcription of the statement.

    "While the CA service is active and position data is available, for every vehicle trajectory consecutive
     CAMs are never closer than T_GenCamMin (100 ms) nor further apart than T_GenCamMax (1 s) plus one check
     period, and a CAM is generated at the first check at which at least 100 ms have elapsed and heading,
     position or speed differ from the last CAM by more than 4 degrees, 4 m or 0.5 m/s.  The first CAM, and
     every later CAM generated at least 500 ms after the last one that carried it, contains the
     low-frequency container (and no CAM in between does), nothing is sent before start or after stop, and
     each CAM reflects the latest position report with generationDeltaTime equal to that report's ITS
     timestamp modulo 65536."

The monitor is stepped in lock-step with the implementation: ``start``, ``stop``, ``report`` and, for every
expiry of the check timer, ``check(ms, emitted)`` with the CAMs (decoded) the implementation handed to BTP
during that check.  It owns no model of T_GenCam / N_GenCam: the statement only bounds the spacing, so a CAM
at any check >= 100 ms after the previous one is allowed; what is *required* is (a) a CAM when the dynamics
thresholds are exceeded, (b) a CAM at every check at which more than T_GenCamMax has elapsed (= "no further apart than
T_GenCamMax plus one check period", judged on every pair of CAMs and robust against checks that come late: the period
that counts is the one that actually led to the check).  While the lower layers reject requests nothing is required.

Interpretations (stated, because the sentence leaves them open):
* spacing and the low-frequency rule are per activation period (``start`` resets them, like the service);
* before the first CAM of an activation the 1 s + period bound runs from the later of start / first report;
* "position data is available" = the latest report carries lat and lon; without it a CAM may still be sent (and must
  then obey spacing / LF / content rules) but none is required;
* "differ from the last CAM": a quantity counts only if both the report carried by the last CAM and the current
  report contain it; the distance is the geodesic distance, and values within 3 cm of 4 m (spherical vs.
  ellipsoidal earth differ by 0.3 %) or within 1e-9 of the other thresholds create no obligation;
* "reflects the latest report": latitude, longitude, heading and speed decode to the report's values within one
  unit of the data element; the full value mapping is property C11's subject.
"""
from __future__ import annotations

import math

T_GEN_CAM_MIN = 100
T_GEN_CAM_MAX = 1000
T_LF = 500
ITS_EPOCH_MS = 1072915200000
LEAP_MS = 5000

WGS84_A = 6378137.0
WGS84_E2 = 6.69437999014e-3


def geodesic_m(lat1, lon1, lat2, lon2) -> float:
    """Local ellipsoidal distance (exact to < 1e-6 relative for distances of metres)."""
    phi = math.radians((lat1 + lat2) / 2.0)
    s2 = math.sin(phi) ** 2
    m = WGS84_A * (1 - WGS84_E2) / (1 - WGS84_E2 * s2) ** 1.5      # meridional radius
    n = WGS84_A / math.sqrt(1 - WGS84_E2 * s2)                      # prime-vertical radius
    dn = math.radians(lat2 - lat1) * m
    dlon = (lon2 - lon1 + 180.0) % 360.0 - 180.0
    de = math.radians(dlon) * n * math.cos(phi)
    return math.hypot(dn, de)


def heading_diff(a, b) -> float:
    d = abs(a - b) % 360.0
    return 360.0 - d if d > 180.0 else d


def dynamics_exceeded(cur: dict, ref: dict):
    """(must, reasons): thresholds of the statement exceeded between two reports (gpsd TPV dicts)."""
    why = []
    if "track" in cur and "track" in ref and heading_diff(cur["track"], ref["track"]) > 4.0 + 1e-9:
        why.append("heading")
    if all(k in cur for k in ("lat", "lon")) and all(k in ref for k in ("lat", "lon")):
        if geodesic_m(ref["lat"], ref["lon"], cur["lat"], cur["lon"]) > 4.0 + 0.03:
            why.append("position")
    if "speed" in cur and "speed" in ref and abs(cur["speed"] - ref["speed"]) > 0.5 + 1e-9:
        why.append("speed")
    return bool(why), why


def expected_gdt(report_unix_ms: int) -> int:
    return (report_unix_ms - ITS_EPOCH_MS + LEAP_MS) % 65536


class CamRules:
    def __init__(self, check_period_ms: int):
        self.P = check_period_ms
        self.active = False
        self.report = None            # latest report (dict) or None
        self.report_ms = None         # its timestamp (unix ms) or None when the report has no time
        self.anchor_ms = None         # start of the "active and position data available" period
        self.last_cam_ms = None
        self.last_cam_report = None
        self.last_lf_ms = None
        self.late_flagged = False
        self.link_up = True           # False while the lower layers reject requests (environment fault)

    # -- environment events ------------------------------------------------------------------
    def start(self, ms):
        if self.active:
            return
        self.active = True
        self.last_cam_ms = None
        self.last_cam_report = None
        self.last_lf_ms = None
        self.late_flagged = False
        self.anchor_ms = ms if self.report is not None else None

    def stop(self, ms):
        self.active = False
        self.anchor_ms = None

    def set_link(self, ms, up: bool):
        self.link_up = up

    def on_report(self, ms, report: dict, report_ms):
        self.report = report
        self.report_ms = report_ms
        if self.active and self.anchor_ms is None:
            self.anchor_ms = ms

    # -- observations --------------------------------------------------------------------------
    def emitted_outside_check(self, ms, n):
        return [dict(kind="cam_outside_check", count=n, active=self.active)] if n else []

    def check(self, ms, cams):
        """One expiry of the check timer at ``ms``; ``cams`` = list of decoded CAMs emitted during it."""
        out = []
        if not self.active:
            if cams:
                out.append(dict(kind="cam_while_inactive", count=len(cams)))
            return out
        if self.report is None:
            if cams:
                out.append(dict(kind="cam_without_position", count=len(cams)))
            return out
        if len(cams) > 1:
            out.append(dict(kind="cam_multiple_in_one_check", count=len(cams)))
        ref_ms = self.last_cam_ms if self.last_cam_ms is not None else self.anchor_ms
        elapsed = ms - ref_ms
        if not cams:
            if not self.link_up:
                return out             # nothing can be handed down: no obligation while the lower layers are unavailable
            if not ("lat" in self.report and "lon" in self.report):
                return out             # "position data is available" does not hold: no obligation to send
            if self.last_cam_ms is not None and elapsed >= T_GEN_CAM_MIN:
                must, why = dynamics_exceeded(self.report, self.last_cam_report)
                if must:
                    out.append(dict(kind="cam_missed_dynamics", elapsed_ms=elapsed, why="+".join(why)))
            # "never further apart than T_GenCamMax plus one check period": a check that passes without a CAM although more
            # than T_GenCamMax has elapsed makes the next CAM later than T_GenCamMax + the period that led to this check,
            # whatever that period was (on time or late).  At exactly T_GenCamMax the CAM may still wait one more period.
            if elapsed > T_GEN_CAM_MAX and not self.late_flagged:
                self.late_flagged = True
                out.append(dict(kind="cam_too_late", elapsed_ms=elapsed, first=self.last_cam_ms is None))
            return out
        cam = cams[0]
        if self.last_cam_ms is not None:
            if elapsed < T_GEN_CAM_MIN:
                out.append(dict(kind="cam_too_close", spacing_ms=elapsed))
        params = cam["cam"]["camParameters"]
        has_lf = "lowFrequencyContainer" in params
        want_lf = self.last_lf_ms is None or (ms - self.last_lf_ms) >= T_LF
        if want_lf and not has_lf:
            out.append(dict(kind="cam_lf_missing", first=self.last_cam_ms is None,
                            since_lf_ms=None if self.last_lf_ms is None else ms - self.last_lf_ms))
        if has_lf and not want_lf:
            out.append(dict(kind="cam_lf_unexpected", since_lf_ms=ms - self.last_lf_ms))
        out += self.content(cam)
        self.last_cam_ms = ms
        self.last_cam_report = self.report
        self.late_flagged = False
        if has_lf:
            self.last_lf_ms = ms
        return out

    def content(self, cam):
        out = []
        r = self.report
        if self.report_ms is not None:
            want = expected_gdt(self.report_ms)
            got = cam["cam"]["generationDeltaTime"]
            if got != want:
                out.append(dict(kind="cam_gdt", got=got, expected=want, delta=(got - want + 32768) % 65536 - 32768))
        pos = cam["cam"]["camParameters"]["basicContainer"]["referencePosition"]
        hf = cam["cam"]["camParameters"]["highFrequencyContainer"][1]
        for name, got, val, scale in (("lat", pos["latitude"], r.get("lat"), 1e7), ("lon", pos["longitude"], r.get("lon"), 1e7),
                                      ("track", hf["heading"]["headingValue"], r.get("track"), 10.0),
                                      ("speed", hf["speed"]["speedValue"], r.get("speed"), 100.0)):
            if val is None:
                continue
            err = abs(got - val * scale)
            if name == "track":
                err = min(err % 3600.0, 3600.0 - err % 3600.0)     # 360.0 deg may be sent as 0 or 3600 (C11 judges which)
            if err > 1.0 + 1e-6:
                out.append(dict(kind="cam_not_latest_report", field=name, got=got, expected=round(val * scale)))
        return out

    def state(self, ms):
        """Relative projection for state merging."""
        rel = lambda t: None if t is None else ms - t   # noqa: E731
        return (self.active, self.report is not None, rel(self.anchor_ms) if self.last_cam_ms is None else None,
                rel(self.last_cam_ms), None if self.last_lf_ms is None else min(rel(self.last_lf_ms), T_LF), self.late_flagged, self.link_up)
