"""Reference GeoNetworking / BTP wire codec, written from EN 302 636-4-1 clause 9 and
EN 302 636-5-1 clause 7.  Independent of the repository code (struct level, plain dicts).

All values are plain ints; latitude/longitude are *signed* 1/10 micro-degree, speed is a
signed 15-bit value in 0.01 m/s.
"""
from __future__ import annotations

import struct

# Basic header NH
BNH_ANY, BNH_COMMON, BNH_SECURED = 0, 1, 2
# Common header NH
CNH_ANY, CNH_BTPA, CNH_BTPB, CNH_IPV6 = 0, 1, 2, 3
# HT
HT_ANY, HT_BEACON, HT_GUC, HT_GAC, HT_GBC, HT_TSB, HT_LS = 0, 1, 2, 3, 4, 5, 6
LT_BASE_MS = (50, 1000, 10_000, 100_000)

EXT_LEN = {  # (ht, hst) -> extended header length
    (HT_BEACON, 0): 24, (HT_GUC, 0): 48,
    (HT_GAC, 0): 44, (HT_GAC, 1): 44, (HT_GAC, 2): 44,
    (HT_GBC, 0): 44, (HT_GBC, 1): 44, (HT_GBC, 2): 44,
    (HT_TSB, 0): 28, (HT_TSB, 1): 28,
    (HT_LS, 0): 36, (HT_LS, 1): 48,
}


def s32(x: int) -> int:
    x &= 0xFFFFFFFF
    return x - (1 << 32) if x & 0x80000000 else x


def s15(x: int) -> int:
    x &= 0x7FFF
    return x - (1 << 15) if x & 0x4000 else x


# ---- lifetime ---------------------------------------------------------------------------
def lt_decode(octet: int) -> int:
    """LT octet -> milliseconds."""
    return (octet >> 2) * LT_BASE_MS[octet & 3]


def lt_encode(mult: int, base: int) -> int:
    return ((mult & 0x3F) << 2) | (base & 3)


# ---- basic header -----------------------------------------------------------------------
def basic_encode(version=1, nh=BNH_COMMON, reserved=0, lt=0, rhl=1) -> bytes:
    return bytes([((version & 0xF) << 4) | (nh & 0xF), reserved & 0xFF, lt & 0xFF, rhl & 0xFF])


def basic_decode(b: bytes) -> dict:
    return {"version": b[0] >> 4, "nh": b[0] & 0xF, "reserved": b[1], "lt": b[2], "rhl": b[3],
            "lt_ms": lt_decode(b[2])}


# ---- common header ----------------------------------------------------------------------
def tc_encode(scf=0, offload=0, tcid=0) -> int:
    return ((scf & 1) << 7) | ((offload & 1) << 6) | (tcid & 0x3F)


def common_encode(nh=CNH_ANY, ht=HT_ANY, hst=0, tc=0, mobile=0, pl=0, mhl=1,
                  reserved1=0, flags_low=0, reserved2=0) -> bytes:
    return bytes([((nh & 0xF) << 4) | (reserved1 & 0xF), ((ht & 0xF) << 4) | (hst & 0xF), tc & 0xFF,
                  ((mobile & 1) << 7) | (flags_low & 0x7F)]) + struct.pack(">HBB", pl & 0xFFFF, mhl & 0xFF,
                                                                          reserved2 & 0xFF)


def common_decode(b: bytes) -> dict:
    pl, mhl, res2 = struct.unpack(">HBB", b[4:8])
    return {"nh": b[0] >> 4, "reserved1": b[0] & 0xF, "ht": b[1] >> 4, "hst": b[1] & 0xF, "tc": b[2],
            "scf": b[2] >> 7, "offload": (b[2] >> 6) & 1, "tcid": b[2] & 0x3F,
            "flags": b[3], "mobile": b[3] >> 7, "pl": pl, "mhl": mhl, "reserved2": res2}


# ---- GN address -------------------------------------------------------------------------
def addr_encode(m=0, st=0, mid=b"\0" * 6, reserved=0) -> bytes:
    first = ((m & 1) << 15) | ((st & 0x1F) << 10) | (reserved & 0x3FF)
    return struct.pack(">H", first) + bytes(mid)


def addr_decode(b: bytes) -> dict:
    first = struct.unpack(">H", b[0:2])[0]
    return {"m": first >> 15, "st": (first >> 10) & 0x1F, "reserved": first & 0x3FF, "mid": bytes(b[2:8])}


# ---- position vectors -------------------------------------------------------------------
def lpv_encode(addr: bytes, tst=0, lat=0, lon=0, pai=0, s=0, h=0) -> bytes:
    return addr + struct.pack(">IiiHH", tst & 0xFFFFFFFF, lat, lon, ((pai & 1) << 15) | (s & 0x7FFF), h & 0xFFFF)


def lpv_decode(b: bytes) -> dict:
    tst, lat, lon, ps, h = struct.unpack(">IiiHH", b[8:24])
    return {"addr": addr_decode(b[0:8]), "addr_raw": bytes(b[0:8]), "tst": tst, "lat": lat, "lon": lon,
            "pai": ps >> 15, "s": s15(ps), "h": h}


def spv_encode(addr: bytes, tst=0, lat=0, lon=0) -> bytes:
    return addr + struct.pack(">Iii", tst & 0xFFFFFFFF, lat, lon)


def spv_decode(b: bytes) -> dict:
    tst, lat, lon = struct.unpack(">Iii", b[8:20])
    return {"addr": addr_decode(b[0:8]), "addr_raw": bytes(b[0:8]), "tst": tst, "lat": lat, "lon": lon}


# ---- extended headers -------------------------------------------------------------------
def ext_shb(so_lpv: bytes, media=b"\0\0\0\0") -> bytes:
    return so_lpv + media


def ext_tsb(sn, so_lpv: bytes, reserved=0) -> bytes:
    return struct.pack(">HH", sn & 0xFFFF, reserved) + so_lpv


def ext_gbc(sn, so_lpv: bytes, lat, lon, a, b, angle, reserved=0, reserved2=0) -> bytes:
    return struct.pack(">HH", sn & 0xFFFF, reserved) + so_lpv + struct.pack(">iiHHHH", lat, lon, a, b, angle, reserved2)


def ext_guc(sn, so_lpv: bytes, de_spv: bytes, reserved=0) -> bytes:
    return struct.pack(">HH", sn & 0xFFFF, reserved) + so_lpv + de_spv


def ext_ls_request(sn, so_lpv: bytes, req_addr: bytes, reserved=0) -> bytes:
    return struct.pack(">HH", sn & 0xFFFF, reserved) + so_lpv + req_addr


ext_ls_reply = ext_guc


def btp_encode(dst, second) -> bytes:
    """BTP-A: (destination port, source port); BTP-B: (destination port, destination port info)."""
    return struct.pack(">HH", dst & 0xFFFF, second & 0xFFFF)


def btp_decode(b: bytes) -> tuple[int, int]:
    return struct.unpack(">HH", b[0:4])


# ---- whole packets ----------------------------------------------------------------------
def parse(pkt: bytes) -> dict:
    """Parse an unsecured GN packet completely. Raises ValueError when malformed."""
    if len(pkt) < 12:
        raise ValueError("short")
    out = {"basic": basic_decode(pkt[0:4])}
    if out["basic"]["nh"] != BNH_COMMON:
        out["kind"] = "secured" if out["basic"]["nh"] == BNH_SECURED else "any"
        return out
    ch = common_decode(pkt[4:12])
    out["common"] = ch
    key = (ch["ht"], ch["hst"])
    if key not in EXT_LEN:
        raise ValueError(f"unknown ht/hst {key}")
    n = EXT_LEN[key]
    ext = pkt[12:12 + n]
    if len(ext) < n:
        raise ValueError("short ext")
    body = pkt[12 + n:]
    ht = ch["ht"]
    e: dict = {}
    if ht == HT_BEACON:
        e["so"] = lpv_decode(ext[0:24])
        out["kind"] = "beacon"
    elif ht == HT_TSB and ch["hst"] == 0:
        e["so"] = lpv_decode(ext[0:24])
        e["media"] = bytes(ext[24:28])
        out["kind"] = "shb"
    else:
        e["sn"], e["reserved"] = struct.unpack(">HH", ext[0:4])
        e["so"] = lpv_decode(ext[4:28])
        if ht == HT_TSB:
            out["kind"] = "tsb"
        elif ht in (HT_GBC, HT_GAC):
            lat, lon, a, b, ang, r2 = struct.unpack(">iiHHHH", ext[28:44])
            e.update(lat=lat, lon=lon, a=a, b=b, angle=ang, reserved2=r2)
            out["kind"] = "gbc" if ht == HT_GBC else "gac"
        elif ht == HT_GUC:
            e["de"] = spv_decode(ext[28:48])
            out["kind"] = "guc"
        elif ht == HT_LS and ch["hst"] == 0:
            e["req"] = addr_decode(ext[28:36])
            e["req_raw"] = bytes(ext[28:36])
            out["kind"] = "ls_request"
        elif ht == HT_LS:
            e["de"] = spv_decode(ext[28:48])
            out["kind"] = "ls_reply"
    out["ext"] = e
    out["ext_raw"] = bytes(ext)
    out["payload"] = bytes(body)
    return out


def build(kind: str, *, so_addr: bytes, so=None, sn=0, rhl=1, mhl=None, lt=lt_encode(1, 1), nh=CNH_ANY,
          tc=0, mobile=1, payload=b"", area=None, de=None, req_addr=None, version=1, basic_nh=BNH_COMMON,
          pl=None) -> bytes:
    """Assemble a complete unsecured packet of the given kind.

    so: dict(tst, lat, lon, pai, s, h); area: dict(lat, lon, a, b, angle, shape 0/1/2);
    de: dict(addr, tst, lat, lon)."""
    so = dict(so or {})
    so_lpv = lpv_encode(so_addr, so.get("tst", 0), so.get("lat", 0), so.get("lon", 0), so.get("pai", 0),
                        so.get("s", 0), so.get("h", 0))
    if mhl is None:
        mhl = rhl
    hst = 0
    if kind == "beacon":
        ht, ext = HT_BEACON, so_lpv
    elif kind == "shb":
        ht, ext = HT_TSB, ext_shb(so_lpv)
    elif kind == "tsb":
        ht, hst, ext = HT_TSB, 1, ext_tsb(sn, so_lpv)
    elif kind in ("gbc", "gac"):
        ht = HT_GBC if kind == "gbc" else HT_GAC
        hst = area.get("shape", 0)
        ext = ext_gbc(sn, so_lpv, area["lat"], area["lon"], area["a"], area["b"], area.get("angle", 0))
    elif kind == "guc":
        ht, ext = HT_GUC, ext_guc(sn, so_lpv, spv_encode(de["addr"], de.get("tst", 0), de.get("lat", 0), de.get("lon", 0)))
    elif kind == "ls_request":
        ht, ext = HT_LS, ext_ls_request(sn, so_lpv, req_addr)
    elif kind == "ls_reply":
        ht, hst = HT_LS, 1
        ext = ext_ls_reply(sn, so_lpv, spv_encode(de["addr"], de.get("tst", 0), de.get("lat", 0), de.get("lon", 0)))
    else:
        raise ValueError(kind)
    if pl is None:
        pl = len(payload)
    return (basic_encode(version, basic_nh, 0, lt, rhl)
            + common_encode(nh, ht, hst, tc, mobile, pl, mhl) + ext + payload)
