"""Reference mapping: GNSS report (gpsd TPV) -> ETSI CDD data-element values (TS 102 894-2 V2.x value tables).

Written from the value tables of the data elements (quoted in the comments of the ASN.1 modules), *not*
from the FlexStack builders.  Every function returns the **set of acceptable integer / enumeration codes**
for one measurement:

* an in-range measurement v with unit u is accepted at the element's resolution +-1 unit
  (floor, ceil, round and truncation of v/u are all accepted) but never as one of the element's special
  codes (outOfRange / unavailable / doNotUse) and never outside the ASN.1 constraint;
* an out-of-range measurement must be the element's outOfRange code (at the boundary itself, within one
  unit, both the boundary value and the code are accepted);
* a missing measurement must be the element's ``unavailable`` code.

Places where the table can be read two ways accept both readings (flagged "TWO READINGS" below).
"""
from __future__ import annotations

import math

ITS_EPOCH_MS = 1072915200000
LEAP_MS = 5000

LAT_UNAVAILABLE = 900000001
LON_UNAVAILABLE = 1800000001
ALT_UNAVAILABLE = 800001
ALT_NEG_OOR = -100000
ALT_POS_OOR = 800000
SPEED_OOR = 16382
SPEED_UNAVAILABLE = 16383
HEADING_UNAVAILABLE = 3601
HEADING_DO_NOT_USE = 3600
ANGLE_CONF_OOR = 126
ANGLE_CONF_UNAVAILABLE = 127
AXIS_OOR = 4094
AXIS_UNAVAILABLE = 4095

# VehicleRole ::= ENUMERATED of TS 102 894-2 V2.2.1 (release 2 CDD, the one CAM v2 imports)
VEHICLE_ROLE = ["default", "publicTransport", "specialTransport", "dangerousGoods", "roadWork", "rescue", "emergency",
                "safetyCar", "agriculture", "commercial", "military", "roadOperator", "taxi", "uvar", "rfu1", "rfu2"]

ALT_CONF_TABLE = [(0.01, "alt-000-01"), (0.02, "alt-000-02"), (0.05, "alt-000-05"), (0.1, "alt-000-10"), (0.2, "alt-000-20"),
                  (0.5, "alt-000-50"), (1.0, "alt-001-00"), (2.0, "alt-002-00"), (5.0, "alt-005-00"), (10.0, "alt-010-00"),
                  (20.0, "alt-020-00"), (50.0, "alt-050-00"), (100.0, "alt-100-00"), (200.0, "alt-200-00")]


def _near(x: float, lo: int, hi: int) -> set:
    """Integers within one unit of x (floor-1 excluded: |n-x| <= 1), clipped to [lo, hi]."""
    f = math.floor(x)
    return {n for n in (f - 1, f, f + 1, f + 2) if abs(n - x) <= 1.0 + 1e-9 and lo <= n <= hi}


def generation_delta_time(unix_ms: int) -> int:
    return (unix_ms - ITS_EPOCH_MS + LEAP_MS) % 65536


def latitude(lat) -> set:
    if lat is None:
        return {LAT_UNAVAILABLE}
    if not -90.0 <= lat <= 90.0:
        return {LAT_UNAVAILABLE}          # no outOfRange code exists: an impossible latitude is "unavailable"
    return _near(lat * 1e7, -900000000, 900000000)


def longitude(lon) -> set:
    if lon is None:
        return {LON_UNAVAILABLE}
    if not -180.0 <= lon <= 180.0:
        return {LON_UNAVAILABLE}
    # TWO READINGS: -1 800 000 000 "shall not be used" (the antimeridian is +1 800 000 000); a report of
    # exactly -180.0 deg is accepted as either.
    s = _near(lon * 1e7, -1800000000, 1800000000)
    if lon * 1e7 <= -1800000000 + 1:
        s.add(1800000000)
    return s


def altitude(alt) -> set:
    """AltitudeValue: <= -1000 m -> -100000; n if (n-1)*0.01 < alt <= n*0.01; > 7999.99 m -> 800000."""
    if alt is None:
        return {ALT_UNAVAILABLE}
    x = alt * 100.0
    s = set()
    if x <= -100000 + 1:
        s.add(ALT_NEG_OOR)
    if x > 799999 - 1:
        s.add(ALT_POS_OOR)
    if -100000 - 1 < x <= 799999 + 1:
        s |= _near(x, -99999, 799999)
    return s


def speed(v) -> set:
    """SpeedValue: 0 standstill, n if (n-1)*0.01 < v <= n*0.01 (n < 16382), 16382 if v > 163.81 m/s."""
    if v is None:
        return {SPEED_UNAVAILABLE}
    x = v * 100.0
    s = set()
    if x > 16381 - 1:
        s.add(SPEED_OOR)
    if x <= 16381 + 1:
        s |= _near(x, 0, 16381)
    return s


def heading(track) -> set:
    """HeadingValue / Wgs84AngleValue: 0.1 deg, 0..3599; 3600 shall not be used (360.0 deg is north = 0)."""
    if track is None:
        return {HEADING_UNAVAILABLE}
    x = (track % 360.0) * 10.0
    s = {n % 3600 for n in _near(x, -1, 3600)}
    if track >= 360.0 - 0.1 or track <= 0.1:
        s |= {0}
    return s


def angle_confidence(epd) -> set:
    """HeadingConfidence / Wgs84AngleConfidence (1..127): n if (n-1)*0.1 < c <= n*0.1, 126 if c > 12.5 deg."""
    if epd is None:
        return {ANGLE_CONF_UNAVAILABLE}
    x = epd * 10.0
    s = set()
    if x > 125 - 1:
        s.add(ANGLE_CONF_OOR)
    if x <= 125 + 1:
        s |= _near(max(x, 1.0), 1, 125)
    return s


def semi_axis(e) -> set:
    """SemiAxisLength (0..4095): n if accuracy <= n*0.01 m (1..4093), 4094 outOfRange, 4095 unavailable, 0 not used.

    TWO READINGS: the table says "out of range, i.e. greater than 4,093 m" while unit (0,01 m) and range
    (n < 4 094) put the boundary at 40,93 m.  For accuracies in (4.093 m, 40.93 m] both the scaled value
    and 4094 are accepted."""
    if e is None:
        return {AXIS_UNAVAILABLE}
    x = e * 100.0
    s = set()
    if x > 4093 - 1:
        s.add(AXIS_OOR)
    if x <= 4093 + 1:
        s |= _near(max(x, 1.0), 1, 4093)
    if e > 4.093:
        s.add(AXIS_OOR)
    return s


def altitude_confidence(epv) -> set:
    if epv is None:
        return {"unavailable"}
    s = set()
    names = [n for _b, n in ALT_CONF_TABLE] + ["outOfRange"]
    bounds = [b for b, _n in ALT_CONF_TABLE]
    idx = len(bounds)
    for i, b in enumerate(bounds):
        if epv <= b:
            idx = i
            break
    s.add(names[idx])
    # exactly on a class boundary (within float noise): the neighbouring coarser class is accepted too (+-1 step)
    for i, b in enumerate(bounds):
        if abs(epv - b) <= 1e-9 * max(1.0, b):
            s.add(names[i])
            s.add(names[i + 1])
    return s


def ellipse(epx, epy) -> dict:
    """PositionConfidenceEllipse from gpsd epx (east-west 95 % error, m) / epy (north-south).

    Returns acceptable sets for the *pair*: ``major`` is built from max(epx, epy), ``minor`` from min.  When either
    estimate is missing the ellipse is unavailable (4095/4095).  The orientation of the major axis is not
    constrained beyond being a legal value (0..3601, not 3600): the statement does not say which axis gpsd's
    epx/epy refer to."""
    if epx is None or epy is None:
        return dict(major={AXIS_UNAVAILABLE}, minor={AXIS_UNAVAILABLE}, unavailable=True)
    return dict(major=semi_axis(max(epx, epy)), minor=semi_axis(min(epx, epy)), unavailable=False)


def quarter_seconds(remaining_s: float) -> set:
    """DeltaTimeQuarterSecond (1..255, 255 unavailable): remaining time in 0.25 s (256 ms) steps, +-1."""
    x = remaining_s / 0.25
    return _near(max(x, 1.0), 1, 254)


def std_length_12b(metres: float) -> set:
    """StandardLength12b (0..4095), unit 0,1 m."""
    return _near(min(metres * 10.0, 4095.0), 0, 4095)
