"""Reference models for the Local Dynamic Map (C12 store, C13 filter predicate / ordering, C14 subscriptions).

Deliberately boring: a dict id -> record, two sets, a brute-force predicate and a subscription table.  Nothing here
imports FlexStack.  Times are unix seconds (float, virtual); the LDM's clock has one-second resolution: clock(t) = floor(t).
"""
from __future__ import annotations

import math

TYPE_KEY = {1: "denm", 2: "cam", 14: "cpm", 16: "vam"}


def clock(t: float) -> int:
    return int(math.floor(t + 1e-9))


def msg_type(msg):
    if not isinstance(msg, dict):
        return None
    for tid, key in TYPE_KEY.items():
        if key in msg:
            return tid
    return None


def location_record(lat, lon, alt, ell=(0, 0, 0), radius=0, rel_dist=1, rel_dir=0):
    """The stored form of a Location (record schema of the LDM data containers)."""
    return {
        "referencePosition": {
            "latitude": lat, "longitude": lon,
            "positionConfidenceEllipse": {"semiMajorConfidence": ell[0], "semiMinorConfidence": ell[1], "semiMajorOrientation": ell[2]},
            "altitude": {"altitudeValue": alt, "altitudeConfidence": 0},
        },
        "referenceArea": {
            "geometricArea": {"circle": {"radius": radius}, "rectangle": None, "ellipse": None},
            "relevanceArea": {"relevanceDistance": rel_dist, "relevanceTrafficDirection": rel_dir},
        },
    }


# ----------------------------------------------------------------------------------------------------------------
# C12: the store
# ----------------------------------------------------------------------------------------------------------------
class Rec:
    __slots__ = ("oid", "app", "ts", "loc", "locname", "content", "validity", "added", "inside", "deleted", "swept")

    def __init__(self, oid, app, ts, loc, locname, content, validity, added, inside):
        self.oid, self.app, self.ts, self.loc, self.locname = oid, app, ts, loc, locname
        self.content, self.validity, self.added, self.inside = content, validity, added, inside
        self.deleted = False     # a delete of this id was acknowledged
        self.swept = False       # an explicit maintenance ran strictly past the expiry (at clock resolution)

    def set_content(self, content):
        self.content = content

    @property
    def expiry(self):            # validity lapses at added + validity (whole seconds, both)
        return self.added + self.validity

    def record(self):
        return {"application_id": self.app, "timestamp": self.ts, "location": self.loc, "dataObject": self.content,
                "timeValidity": self.validity}

    def must_absent(self):
        return self.deleted or self.swept

    def may_absent(self, now):
        """Absence is acceptable: gone, outside the area of maintenance, or validity has lapsed."""
        return self.must_absent() or (not self.inside) or now >= self.expiry

    def must_present(self, now):
        return not self.may_absent(now)


class RefStore:
    def __init__(self):
        self.providers = set()
        self.consumers = set()
        self.recs = {}           # id -> Rec (tombstones are kept: identifiers are never reused)

    # registration: the outcome of a registration request is an input of the model (the statement does not say
    # which registrations are acceptable), everything after it is not.
    def reg_provider(self, app, accepted):
        if accepted:
            self.providers.add(app)

    def dereg_provider(self, app):
        was = app in self.providers
        self.providers.discard(app)
        return was

    def reg_consumer(self, app, accepted):
        if accepted:
            self.consumers.add(app)

    def dereg_consumer(self, app):
        was = app in self.consumers
        self.consumers.discard(app)
        return was

    def add(self, oid, app, ts, loc, locname, content, validity, now, inside):
        self.recs[oid] = Rec(oid, app, ts, loc, locname, content, validity, clock(now), inside)

    def maintenance(self, now):
        """An explicit maintenance run at `now`: everything whose validity lapsed before the current clock second is gone."""
        for r in self.recs.values():
            if clock(now) > r.expiry:
                r.swept = True

    def status(self, oid, now):
        """'must' (certainly stored) | 'may' | 'gone' (certainly not stored) | 'never' (identifier never issued)."""
        r = self.recs.get(oid)
        if r is None:
            return "never"
        if r.must_absent():
            return "gone"
        return "must" if r.must_present(now) else "may"

    def canon(self, now, digest=None):
        digest = digest or _digest
        out = []
        for oid in sorted(self.recs):
            r = self.recs[oid]
            if r.must_absent():
                out.append((oid, "gone"))
            else:
                out.append((oid, r.app, r.locname, r.validity, r.expiry - clock(now), r.ts - r.added * 1000, digest(r.content)))
        return (tuple(sorted(self.providers)), tuple(sorted(self.consumers)), tuple(out))


def _digest(obj):
    import hashlib
    return hashlib.blake2b(repr(_norm(obj)).encode(), digest_size=8).hexdigest()


def _norm(obj):
    if isinstance(obj, dict):
        return tuple(sorted((k, _norm(v)) for k, v in obj.items()))
    if isinstance(obj, (list, tuple)):
        return (type(obj).__name__,) + tuple(_norm(v) for v in obj)
    return obj


# ----------------------------------------------------------------------------------------------------------------
# C13: brute-force predicate and ordering
# ----------------------------------------------------------------------------------------------------------------
MISSING = object()


def resolve(msg, path: str):
    """Value at a dotted attribute path of the message, or MISSING."""
    cur = msg
    for part in path.split("."):
        if isinstance(cur, dict) and part in cur:
            cur = cur[part]
        else:
            return MISSING
    return cur


def _contains(value, ref) -> bool:
    # "like": the reference value is contained in the attribute (substring of a string, member of a sequence)
    if value is None:
        return False
    if isinstance(value, str):
        return str(ref) in value
    if isinstance(value, (list, tuple, set)):
        return any(_json_eq(v, ref) for v in value)
    return False


def _json_eq(a, b):
    if isinstance(a, (list, tuple)) and isinstance(b, (list, tuple)):
        return len(a) == len(b) and all(_json_eq(x, y) for x, y in zip(a, b))
    if isinstance(a, dict) and isinstance(b, dict):
        return a.keys() == b.keys() and all(_json_eq(a[k], b[k]) for k in a)
    return a == b


def statement_true(msg, path, op, ref) -> bool:
    """One comparison. An object lacking the attribute does not match; an undefined comparison is not true."""
    v = resolve(msg, path)
    if v is MISSING:
        return False
    try:
        if op == "==":
            return bool(_json_eq(v, ref))
        if op == "!=":
            return not _json_eq(v, ref)
        if op == "<":
            return bool(v < ref)
        if op == "<=":
            return bool(v <= ref)
        if op == ">":
            return bool(v > ref)
        if op == ">=":
            return bool(v >= ref)
        if op == "like":
            return _contains(v, ref)
        if op == "notlike":
            return not _contains(v, ref)
    except TypeError:
        return False
    raise ValueError(op)


def statement_trouble(msg, path, op, ref) -> str | None:
    """Why evaluating the comparison on this message is not straightforward: 'lacks' | 'type' | None."""
    v = resolve(msg, path)
    if v is MISSING:
        return "lacks"
    if op in ("<", "<=", ">", ">="):
        try:
            v < ref  # noqa: B015
        except TypeError:
            return "type"
    return None


def filter_true(msg, filt) -> bool:
    """filt = None | (s1,) | (s1, 'and'|'or', s2) with s = (path, op, ref)."""
    if filt is None:
        return True
    if len(filt) == 1:
        return statement_true(msg, *filt[0])
    a, b = statement_true(msg, *filt[0]), statement_true(msg, *filt[2])
    return (a and b) if filt[1] == "and" else (a or b)


def filter_trouble(msg, filt):
    if filt is None:
        return None
    t = [statement_trouble(msg, *s) for s in (filt[0::2] if len(filt) == 3 else filt)]
    t = [x for x in t if x]
    return t[0] if t else None


def find_leaf(obj, name):
    """First value stored under key `name` (depth-first through nested dicts) or MISSING - an 'attribute' of an order tuple."""
    if isinstance(obj, dict):
        for k, v in obj.items():
            if k == name:
                return v
            if isinstance(v, dict):
                r = find_leaf(v, name)
                if r is not MISSING:
                    return r
    return MISSING


def order_ok(records, order):
    """Is `records` sorted by the (attribute, 'asc'|'desc') tuples (ties free)? Returns (ok, reason).

    Where a record lacks an order attribute its position is not defined by the statement: such records are skipped and
    the remaining ones (which carry every requested attribute - including falsy values such as 0, False, "") must be
    mutually ordered."""
    keys = []
    for r in records:
        ks = [find_leaf(r, attr) for attr, _d in order]
        if any(v is MISSING or v is None for v in ks):
            continue
        keys.append(ks)
    for a, b in zip(keys, keys[1:]):
        for (x, y), (_attr, d) in zip(zip(a, b), order):
            try:
                if x == y:
                    continue
                good = (x < y) if d == "asc" else (x > y)
            except TypeError:
                return True, "undefined"
            if not good:
                return False, "inversion"
            break
    return True, "sorted"


# ----------------------------------------------------------------------------------------------------------------
# C14: subscriptions
# ----------------------------------------------------------------------------------------------------------------
class Sub:
    __slots__ = ("key", "app", "types", "filt", "interval_ms", "mult", "order", "since", "last", "live", "impl_id", "ended_by",
                 "shares_id_with_unsubscribed")

    def __init__(self, key, app, types, filt, interval_ms, mult, order, now, impl_id):
        self.key, self.app, self.types, self.filt = key, app, tuple(types), filt
        self.interval_ms, self.mult, self.order = interval_ms, mult, order
        self.since = clock(now)   # clock second of the subscription
        self.last = None          # clock second of the previous notification
        self.live = True
        self.impl_id = impl_id
        self.ended_by = None
        self.shares_id_with_unsubscribed = False   # another subscription with the same identifier was cancelled

    def due(self, now):
        """'must' | 'may' | 'no' - is the interval over at `now` (clock resolution)?"""
        if self.interval_ms is None:
            return "must"
        if self.last is None:
            # first notification: both 'at the first attendance with enough matches' and 'one interval after subscribing'
            return "must" if (clock(now) - self.since) * 1000 >= self.interval_ms else "may"
        return "must" if (clock(now) - self.last) * 1000 >= self.interval_ms else "no"


class RefSubs:
    def __init__(self):
        self.consumers = set()
        self.subs = []            # in subscription order
        self.store = []           # list of (message type, record) in insertion order

    def live(self):
        return [s for s in self.subs if s.live]

    def subs_by_key(self, key):
        for s in self.subs:
            if s.key == key:
                return s
        return None

    def matches(self, s):
        return [rec for (t, rec) in self.store if t in s.types and filter_true(rec["dataObject"], s.filt)]

    def canon(self, now):
        return (tuple(sorted(self.consumers)),
                tuple((s.key, s.app, s.live, s.impl_id if s.live else 0,
                       (clock(now) - s.since) if s.last is None else None,
                       None if s.last is None else clock(now) - s.last) for s in self.subs),
                len(self.store))
