"""E2 - schedule explorer: real threads of the real code under a controlled scheduler.

Stateless exploration with iterative context bounding (CHESS): every schedule with at most
``bound`` preemptions of a small harness is executed on fresh real objects and checked.

* one OS thread per actor, exactly one runs at a time (baton = per-thread semaphore);
* scheduling points: before every bytecode of the files in scope that can touch shared state
  (attribute / subscript / deref loads and stores, iteration), and at every operation of the
  cooperative Lock / RLock / Event / Timer / Thread / sleep that replace the real primitives for
  objects created by ``flexstack.*`` code while the scheduler is active (mc.env dispatch);
* ``threading.Timer`` -> controlled thread enabled from start() on (arbitrary expiry time);
  cancel() before its first step disables it, afterwards it has no effect (CPython semantics);
* blocking is visible (lock waiters are disabled); no enabled thread but unfinished ones = deadlock;
* ``time.sleep`` / timed waits are scheduling points on a virtual clock.
"""
from __future__ import annotations

import dis
import sys
import threading as _th
import multiprocessing as mp
import time as _time

from mc import env as E

_RealThread = E._real["Thread"]
_Sem = _th.Semaphore

_POINT_OPS = {dis.opmap[n] for n in (
    "LOAD_ATTR", "STORE_ATTR", "DELETE_ATTR", "BINARY_SUBSCR", "STORE_SUBSCR", "DELETE_SUBSCR", "STORE_GLOBAL",
    "LOAD_DEREF", "STORE_DEREF", "FOR_ITER", "BINARY_SLICE", "STORE_SLICE", "LOAD_SUPER_ATTR") if n in dis.opmap}


# ---- bytecode-level scheduling points through sys.monitoring (PEP 669) ------------------------------------------
# settrace + f_trace_opcodes misses the opcode events of the first frame of every code object (instrumentation is
# applied lazily), which made the first execution in a process differ from the rest; local INSTRUCTION events set up
# front on every code object of the files in scope are exact from the first execution on.
_TOOL = 4
_instrumented: set = set()
_tool_ready = False


def _on_instruction(code, offset):
    if code.co_code[offset] not in _POINT_OPS:
        return sys.monitoring.DISABLE          # never a scheduling point: stop reporting this location
    s = E.ENV.sched
    if s is not None and s.tracing:
        me = s.by_ident.get(_th.get_ident())
        if me is not None:
            s.yield_()
    return None


def _code_objects(code, acc):
    acc.append(code)
    for c in code.co_consts:
        if hasattr(c, "co_code"):
            _code_objects(c, acc)


def instrument(scope):
    """enable INSTRUCTION events on every code object defined in the modules whose file ends with one of ``scope``"""
    global _tool_ready
    mon = sys.monitoring
    if not _tool_ready:
        mon.use_tool_id(_TOOL, "mc.sched")
        mon.register_callback(_TOOL, mon.events.INSTRUCTION, _on_instruction)
        _tool_ready = True
    import types
    for mod in list(sys.modules.values()):
        f = getattr(mod, "__file__", None)
        if not f or not f.endswith(tuple(scope)) or f in _instrumented:
            continue
        _instrumented.add(f)
        acc = []
        seen = set()

        def walk(obj):
            if id(obj) in seen:
                return
            seen.add(id(obj))
            if isinstance(obj, types.FunctionType):
                if obj.__code__.co_filename == f:
                    _code_objects(obj.__code__, acc)
            elif isinstance(obj, (staticmethod, classmethod)):
                walk(obj.__func__)
            elif isinstance(obj, property):
                for g in (obj.fget, obj.fset, obj.fdel):
                    if g is not None:
                        walk(g)
            elif isinstance(obj, type) and obj.__module__ == mod.__name__:
                for v in list(vars(obj).values()):
                    walk(v)
        for v in list(vars(mod).values()):
            walk(v)
        for code in acc:
            mon.set_local_events(_TOOL, code, mon.events.INSTRUCTION)


class Divergence(RuntimeError):
    """replaying a recorded prefix met a different set of enabled threads: nondeterminism in the harness"""


class CT:
    """controlled thread"""

    def __init__(self, sched, name, fn, is_timer=False):
        self.sched = sched
        self.id = len(sched.threads)
        self.name = name
        self.fn = fn
        self.go = _Sem(0)
        self.started = False
        self.finished = False
        self.blocked_on = None
        self.wake_at = None
        self.exc = None
        self.is_timer = is_timer
        self.cancelled = False
        self.first_step_done = False
        self.os_thread = None
        self.waiting_event = None
        self.timed_waits = 0
        sched.threads.append(self)

    def enabled(self):
        if not self.started or self.finished:
            return False
        if self.wake_at is not None and self.wake_at > self.sched.now:
            return False
        b = self.blocked_on
        if b is not None and not b._free_for(self):
            return False
        if self.waiting_event is not None and not self.waiting_event.flag:
            return False
        return True


class CLock:
    def __init__(self, sched):
        self.s = sched
        self.owner = None

    def _free_for(self, t):
        return self.owner is None

    def acquire(self, blocking=True, timeout=-1):
        s = self.s
        me = s.me()
        if me is None:                       # scheduler / setup thread: never contended
            if self.owner is not None:
                raise E.DeadlockError("setup thread met a held lock")
            self.owner = "main"
            return True
        s.point()
        if self.owner is not None:
            if not blocking:
                return False
            if self.owner is me:
                me.blocked_on = self      # self-deadlock: stays disabled for ever
            while self.owner is not None:
                me.blocked_on = self
                s.yield_()
            me.blocked_on = None
        self.owner = me
        return True

    def release(self):
        if self.owner is None:
            raise RuntimeError("release unlocked lock")
        self.owner = None
        if self.s.me() is not None:
            self.s.point()

    def locked(self):
        return self.owner is not None

    def __enter__(self):
        return self.acquire()

    def __exit__(self, *a):
        self.release()


class CRLock(CLock):
    def __init__(self, sched):
        super().__init__(sched)
        self.count = 0

    def _free_for(self, t):
        return self.owner is None or self.owner is t

    def acquire(self, blocking=True, timeout=-1):
        s = self.s
        me = s.me()
        if me is None:
            self.owner = "main"
            self.count += 1
            return True
        if self.owner is me:
            self.count += 1
            return True
        s.point()
        while self.owner is not None:
            if not blocking:
                return False
            me.blocked_on = self
            s.yield_()
        me.blocked_on = None
        self.owner = me
        self.count = 1
        return True

    def release(self):
        if self.count <= 0:
            raise RuntimeError("cannot release un-acquired lock")
        self.count -= 1
        if self.count == 0:
            self.owner = None
            if self.s.me() is not None:
                self.s.point()


class CEvent:
    def __init__(self, sched):
        self.s = sched
        self.flag = False

    def set(self):
        self.flag = True
        if self.s.me() is not None:
            self.s.point()

    def clear(self):
        self.flag = False

    def is_set(self):
        return self.flag

    isSet = is_set

    def wait(self, timeout=None):
        s = self.s
        me = s.me()
        if me is None:
            return self.flag
        if self.flag:
            s.point()
            return True
        if timeout is None:
            me.waiting_event = self
            s.yield_()
            me.waiting_event = None
            return True
        # timed wait: may return at any moment (woken or timed out); bounded by the harness horizon
        me.timed_waits += 1
        if me.timed_waits > s.horizon:
            raise _Horizon()
        me.wake_at = s.now + timeout if s.timed_waits_use_clock else None
        s.yield_()
        me.wake_at = None
        return self.flag


class _Horizon(BaseException):
    pass


class CTimer:
    def __init__(self, sched, interval, function, args=None, kwargs=None):
        self.s = sched
        self.interval = interval
        self.function = function
        self.args = list(args) if args is not None else []
        self.kwargs = dict(kwargs) if kwargs is not None else {}
        self.daemon = True
        self.name = "Timer"
        self.ct = None
        self.cancelled = False

    def _body(self):
        # first step = expiry; CPython: finished.wait(interval); if not finished.is_set(): function()
        if self.cancelled:
            return
        self.ct.first_step_done = True
        self.function(*self.args, **self.kwargs)

    def start(self):
        if self.ct is not None:
            raise RuntimeError("threads can only be started once")
        self.ct = self.s.spawn("timer:" + getattr(self.function, "__name__", "fn"), self._body, is_timer=True)
        self.ct.timer = self
        if self.s.timers_use_clock:
            self.ct.wake_at = self.s.now + self.interval
        self.s.point()

    def cancel(self):
        self.cancelled = True
        self.s.timer_cancels.append((self, self.ct.first_step_done if self.ct else None))
        if self.s.me() is not None:
            self.s.point()

    def is_alive(self):
        return self.ct is not None and not self.ct.finished

    def join(self, timeout=None):
        return None


class CThreadObj:
    def __init__(self, sched, group=None, target=None, name=None, args=(), kwargs=None, *, daemon=None):
        self.s = sched
        self.target, self.args, self.kwargs = target, tuple(args), dict(kwargs or {})
        self.daemon = daemon
        self.name = name or "Thread"
        self.ct = None

    def start(self):
        self.ct = self.s.spawn("thread:" + getattr(self.target, "__name__", "fn"), lambda: self.target(*self.args, **self.kwargs))
        self.s.point()

    def join(self, timeout=None):
        me = self.s.me()
        if me is None or self.ct is None:
            return
        while not self.ct.finished:
            me.blocked_on = _JoinWait(self.ct)
            self.s.yield_()
        me.blocked_on = None

    def is_alive(self):
        return self.ct is not None and not self.ct.finished


class _JoinWait:
    def __init__(self, ct):
        self.ct = ct

    def _free_for(self, t):
        return self.ct.finished


class Point:
    __slots__ = ("enabled", "choice", "running_enabled")

    def __init__(self, enabled, choice, running_enabled):
        self.enabled, self.choice, self.running_enabled = enabled, choice, running_enabled


class Sched:
    def __init__(self, scope=(), horizon=3, max_steps=200000, base_now=E.BASE_TIME, timers_use_clock=False, timed_waits_use_clock=True):
        self.scope = tuple(scope)
        self.threads: list[CT] = []
        self.back = _Sem(0)
        self.done = _Sem(0)
        self.prefix = []
        self.error = None
        self.by_ident = {}
        self.points: list[Point] = []
        self.now = base_now
        self.horizon = horizon
        self.max_steps = max_steps
        self.timers_use_clock = timers_use_clock
        self.timed_waits_use_clock = timed_waits_use_clock
        self.timer_cancels = []
        self.deadlock = False
        self.livelock = False
        self.steps = 0
        self.running = None
        self.tracing = True
        if self.scope:
            instrument(self.scope)

    # ---- factory used by mc.env ---------------------------------------------------------------
    def make(self, name, *a, **k):
        if name == "Lock":
            return CLock(self)
        if name == "RLock":
            return CRLock(self)
        if name == "Event":
            return CEvent(self)
        if name == "Timer":
            return CTimer(self, *a, **k)
        if name == "Thread":
            return CThreadObj(self, *a, **k)
        raise ValueError(name)

    def time(self):
        return self.now

    def sleep(self, d):
        me = self.me()
        if me is None:
            self.now += d
            return
        me.wake_at = round(self.now + d, 6)     # microsecond lattice: float error must not accumulate over many sleeps
        self.yield_()
        me.wake_at = None

    # ---- actor side ---------------------------------------------------------------------------
    def me(self):
        return self.by_ident.get(_th.get_ident())

    def point(self):
        me = self.me()
        if me is None:
            return
        self.yield_()

    def yield_(self):
        """scheduling point reached by the running actor: decide here (no hand-off to a scheduler thread); only an
        actual switch costs a context switch"""
        me = self.me()
        nxt = self._pick(me)
        if nxt is me:
            return
        if nxt is None:
            self.done.release()      # deadlock / step cap / error: wake the main thread, park for ever
        else:
            nxt.go.release()
        me.go.acquire()

    def spawn(self, name, fn, is_timer=False):
        ct = CT(self, name, fn, is_timer)
        ct.started = True
        th = _RealThread(target=self._boot, args=(ct,), daemon=True)
        ct.os_thread = th
        th.start()
        return ct

    def _boot(self, ct):
        self.by_ident[_th.get_ident()] = ct
        ct.go.acquire()
        try:
            ct.fn()
        except _Horizon:
            pass
        except BaseException as e:  # noqa: BLE001
            ct.exc = e
        finally:
            ct.finished = True
            nxt = self._pick(ct)
            if nxt is None:
                self.done.release()
            else:
                nxt.go.release()

    # ---- scheduler side -------------------------------------------------------------------------
    def _pick(self, cur):
        """next thread to run (None: nothing left / deadlock / cap); records a decision point when there is a choice"""
        try:
            while True:
                en = [t for t in self.threads if t.enabled()]
                if not en:
                    alive = [t for t in self.threads if t.started and not t.finished]
                    sleepers = [t for t in alive if t.wake_at is not None and t.wake_at > self.now
                                and (t.blocked_on is None or t.blocked_on._free_for(t))]
                    if sleepers:
                        self.now = min(t.wake_at for t in sleepers)
                        continue
                    if alive:
                        self.deadlock = True
                    return None
                order = ([cur] if cur in en else []) + [t for t in en if t is not cur]
                if len(order) > 1:
                    i = len(self.points)
                    choice = self.prefix[i] if i < len(self.prefix) else 0
                    if choice >= len(order):
                        raise Divergence(f"point {i}: choice {choice} but only {len(order)} enabled")
                    self.points.append(Point([t.id for t in order], choice, cur in en))
                else:
                    choice = 0
                self.steps += 1
                if self.steps > self.max_steps:
                    self.livelock = True
                    return None
                self.running = order[choice]
                return order[choice]
        except BaseException as e:  # noqa: BLE001
            self.error = e
            return None

    def run(self, prefix=()):
        self.prefix = list(prefix)
        self.error = None
        nxt = self._pick(None)
        if nxt is not None:
            nxt.go.release()
            self.done.acquire()
        if self.error is not None:
            raise self.error
        return self

    def choices(self):
        return [p.choice for p in self.points]

    def failures(self):
        return [(t.name, repr(t.exc)[:200]) for t in self.threads if t.exc is not None]

    def abandon(self):
        """release OS threads still parked (deadlock / livelock) so that they do not accumulate"""
        for t in self.threads:
            if t.started and not t.finished:
                t.fn = None
        # parked threads are daemons blocked on their semaphore; they are left to die with the process


# ---------------------------------------------------------------------------------------------------
# exploration
# ---------------------------------------------------------------------------------------------------
class RunOut:
    __slots__ = ("choices", "points", "violations", "outcome", "npoints")


def execute(hfactory, prefix, sched_kw):
    """one execution of a fresh harness under the given choice prefix"""
    h = hfactory()
    s = Sched(**sched_kw)
    E.ENV.mode, E.ENV.sched = "sched", s
    try:
        h.setup(s)
        for name, fn in h.actors():
            s.spawn(name, fn)
        s.run(prefix)
    finally:
        E.ENV.mode, E.ENV.sched = "seq", None
    bad = []
    if s.deadlock:
        bad.append(dict(kind="deadlock", blocked=[t.name for t in s.threads if t.started and not t.finished]))
        s.abandon()
    if s.livelock:
        bad.append(dict(kind="livelock_or_step_cap"))
        s.abandon()
    for name, exc in s.failures():
        bad.append(dict(kind="thread_failed", thread=name, exc=exc))
    bad += h.check(s) or []
    return s, h, bad


ALL_DEVIATIONS = False     # when True every non-default choice counts against the bound (not only preemptions)


def _preempt_cost(points, i):
    c = 0
    for p in points[:i]:
        if p.choice != 0 and (p.running_enabled or ALL_DEVIATIONS):
            c += 1
    return c


def explore_subtree(hfactory, prefix, bound, sched_kw, stats, max_schedules=None):
    """DFS over all schedules extending ``prefix`` with at most ``bound`` preemptions in total"""
    stack = [list(prefix)]
    while stack:
        pre = stack.pop()
        s, h, bad = execute(hfactory, pre, sched_kw)
        stats["schedules"] += 1
        stats["steps"] += s.steps
        stats["max_points"] = max(stats["max_points"], len(s.points))
        out = h.outcome(s)
        stats["outcomes"].add(out)
        ch = s.choices()
        for b in bad:
            if len(stats["violations"]) < 40:
                stats["violations"].append((b, ch))
            stats["nviol"] += 1
        if stats["sample"] is None and len(ch) > 0:
            stats["sample"] = dict(choices=ch[:60], outcome=repr(out)[:200])
        if max_schedules and stats["schedules"] >= max_schedules:
            stats["capped"] = True
            return
        for i in range(len(pre), len(s.points)):
            p = s.points[i]
            cost = _preempt_cost(s.points, i)
            for alt in range(1, len(p.enabled)):
                c = cost + (1 if (p.running_enabled or ALL_DEVIATIONS) else 0)
                if c > bound:
                    continue
                stack.append(ch[:i] + [alt])


def _new_stats():
    return dict(schedules=0, steps=0, max_points=0, outcomes=set(), violations=[], nviol=0, sample=None, capped=False)


def _job(args):
    hfactory, fargs, prefix, bound, sched_kw, cap = args
    st = _new_stats()
    explore_subtree(lambda: hfactory(*fargs), prefix, bound, sched_kw, st, cap)
    return st


def explore(hfactory, fargs, bound, sched_kw, procs=16, max_schedules=None, pool=None):
    """iterative context bounding, partitioned over processes by the first divergence point"""
    st = _new_stats()
    s, h, bad = execute(lambda: hfactory(*fargs), [], sched_kw)
    st["schedules"] += 1
    st["steps"] += s.steps
    st["max_points"] = len(s.points)
    st["outcomes"].add(h.outcome(s))
    ch = s.choices()
    st["sample"] = dict(choices=ch[:60], outcome=repr(h.outcome(s))[:200])
    for b in bad:
        st["violations"].append((b, ch))
        st["nviol"] += 1
    # determinism self-check: the same schedule twice gives the same observation
    s2, h2, _ = execute(lambda: hfactory(*fargs), ch, sched_kw)
    if h2.outcome(s2) != h.outcome(s) or s2.choices() != ch:
        raise Divergence("same schedule, different observation: nondeterminism not owned by the harness")
    jobs = []
    for i, p in enumerate(s.points):
        cost = _preempt_cost(s.points, i)
        for alt in range(1, len(p.enabled)):
            c = cost + (1 if (p.running_enabled or ALL_DEVIATIONS) else 0)
            if c <= bound:
                jobs.append((hfactory, fargs, ch[:i] + [alt], bound, sched_kw, max_schedules))
    if not jobs:
        return st
    own = pool is None
    if own:
        pool = mp.Pool(procs)
    try:
        for r in pool.imap_unordered(_job, jobs, chunksize=max(1, len(jobs) // (procs * 8))):
            st["schedules"] += r["schedules"]
            st["steps"] += r["steps"]
            st["max_points"] = max(st["max_points"], r["max_points"])
            st["outcomes"] |= r["outcomes"]
            st["nviol"] += r["nviol"]
            st["capped"] = st["capped"] or r["capped"]
            for v in r["violations"]:
                if len(st["violations"]) < 40:
                    st["violations"].append(v)
    finally:
        if own:
            pool.close()
            pool.join()
    return st
