"""Check context: violations, known-finding matching, evidence, replay artefacts."""
from __future__ import annotations

import hashlib
import json
import os
import time

VERIF = os.path.dirname(os.path.dirname(os.path.abspath(__file__)))
FINDINGS_FILE = os.path.join(VERIF, "known_findings.json")


def _match_value(spec, val):
    if isinstance(spec, dict):
        if "eq" in spec:
            return val == spec["eq"]
        if "in" in spec:
            return val in spec["in"]
        if "range" in spec:
            lo, hi = spec["range"]
            return isinstance(val, (int, float)) and not isinstance(val, bool) and lo <= val <= hi
        if "prefix" in spec:
            return isinstance(val, str) and val.startswith(spec["prefix"])
        if "any" in spec:
            return True
        return False
    return val == spec


def load_findings():
    out = []
    if os.path.exists(FINDINGS_FILE):
        with open(FINDINGS_FILE) as f:
            out += json.load(f)["findings"]
    d = os.path.join(VERIF, "findings.d")   # per-property proposals, merged into known_findings.json after review
    if os.path.isdir(d):
        for fn in sorted(os.listdir(d)):
            if fn.endswith(".json"):
                with open(os.path.join(d, fn)) as f:
                    out += json.load(f)["findings"]
    return out


class Ctx:
    def __init__(self, prop: str, tier: str, seed: int, level: str):
        self.prop = prop
        self.tier = tier
        self.seed = seed
        self.level = level
        self.t0 = time.time()
        self.coverage: dict = {}
        self.assumptions: list[str] = []
        self.new_violations: list[dict] = []
        self.known_hits: dict[str, int] = {}
        self.known_examples: dict[str, dict] = {}
        self._findings = [f for f in load_findings() if f.get("property") == prop]
        self._replay_n = 0
        self.max_reported = 12
        self.parts: dict[str, dict] = {}
        self.kind_counts: dict[str, int] = {}
        self.total_new = 0

    # -- violations ---------------------------------------------------------------
    def classify(self, rec: dict):
        """Return id of the matching *known* finding or None."""
        for f in self._findings:
            if f.get("status") != "known":
                continue
            m = f.get("match", {})
            if all(k in rec and _match_value(v, rec[k]) for k, v in m.items()):
                return f["id"]
        return None

    def violation(self, rec: dict, replay: dict | None = None) -> bool:
        """Report one violating case. Returns True if it is a *new* violation."""
        fid = self.classify(rec)
        if fid is not None:
            self.known_hits[fid] = self.known_hits.get(fid, 0) + 1
            self.known_examples.setdefault(fid, rec)
            return False
        k = str(rec.get("kind"))
        self.kind_counts[k] = self.kind_counts.get(k, 0) + 1
        if self.kind_counts[k] <= 5 and len(self.new_violations) < 400:
            self.new_violations.append({"rec": rec, "replay": replay})
        self.total_new += 1
        return True

    def merge(self, other_new, other_known, other_examples=None):
        for v in other_new:
            self.violation(v["rec"], v.get("replay"))
        for k, n in other_known.items():
            self.known_hits[k] = self.known_hits.get(k, 0) + n
        for k, v in (other_examples or {}).items():
            self.known_examples.setdefault(k, v)

    # -- output -------------------------------------------------------------------
    def write_replay(self, v: dict) -> str:
        self._replay_n += 1
        d = os.path.join(VERIF, "replays")
        os.makedirs(d, exist_ok=True)
        path = os.path.join(d, f"{self.prop}-{self._replay_n}.json")
        with open(path, "w") as f:
            json.dump({"property": self.prop, "violation": v["rec"], "replay": v["replay"]},
                      f, indent=1, default=repr)
        return path

    def finish(self) -> int:
        wall = time.time() - self.t0
        findings = {f["id"]: f for f in self._findings}
        for fid, n in sorted(self.known_hits.items()):
            print(f"KNOWN-FINDING: property={self.prop} {fid}: {findings[fid]['what']} (cases={n})")
        seen = set()
        nrep = 0
        if self.kind_counts:
            print("  new violation kinds:", json.dumps(self.kind_counts, sort_keys=True))
        for v in self.new_violations:
            key = json.dumps(v["rec"].get("kind", v["rec"]), sort_keys=True, default=repr)
            if key in seen:
                continue
            seen.add(key)
            if nrep < self.max_reported:
                path = self.write_replay(v)
                print(f"VIOLATION property={self.prop} replay={path}")
                print("  detail:", json.dumps(v["rec"], default=repr)[:600])
                nrep += 1
        cov = dict(self.coverage)
        cov.setdefault("known_finding_cases", dict(self.known_hits))
        if self.parts:
            cov["parts"] = self.parts
        ev = {
            "property_id": self.prop,
            "tier": self.tier,
            "seed": self.seed,
            "level": self.level,
            "coverage": cov,
            "assumptions": self.assumptions,
            "wall_s": round(wall, 3),
            "violations": self.total_new,
        }
        # evidence/<id>.json describes runs against /repo; a run pointed at another tree (VERIF_REPO: seeded defects, mutants,
        # refactorings) must not overwrite it
        other = os.path.realpath(os.environ.get("VERIF_REPO", "/repo")) != os.path.realpath("/repo")
        evdir = os.path.join(VERIF, "evidence_other_tree" if other else "evidence")
        os.makedirs(evdir, exist_ok=True)
        if other:
            ev["tree"] = os.environ["VERIF_REPO"]
        with open(os.path.join(evdir, f"{self.prop}.json"), "w") as f:
            json.dump(ev, f, indent=1, default=repr)
        n = self.total_new
        print(f"[{self.prop}] tier={self.tier} seed={self.seed} wall={wall:.1f}s violations={n} "
              f"known={sum(self.known_hits.values())} " +
              " ".join(f"{k}={v}" for k, v in cov.items() if isinstance(v, (int, bool))))
        return 1 if n else 0


def digest(obj) -> str:
    return hashlib.sha256(json.dumps(obj, sort_keys=True, default=repr).encode()).hexdigest()[:16]
