"""E0 - closing the system.

Imported before ``flexstack``.  Replaces every source of nondeterminism that
FlexStack reaches through Python-level names by a harness-owned version:

* ``threading.Lock/RLock/Event/Timer/Thread`` -> cooperative objects when the
  *caller* is a ``flexstack.*`` module (everything else keeps the real ones);
* ``time.time/monotonic/sleep`` -> virtual clock when called from flexstack;
* ``TimeService.time`` -> virtual clock;
* ``random.uniform/randint`` called from flexstack -> harness choice;
* ``os.urandom`` called from ecdsa/flexstack -> seeded stream.

Two modes:
  ``seq``   sequential worlds (E1/E3): locks are pure-Python objects (deep-copyable,
            detect self-deadlock), timers/threads are *recorded* in the world that is
            being stepped and fired explicitly by the explorer.
  ``sched`` controlled real threads (E2): see ``mc.sched``; the objects created
            while this mode is active delegate to the scheduler.
"""
from __future__ import annotations

import hashlib
import os
import sys

REPO = os.environ.get("VERIF_REPO", "/repo")
SRC = os.path.join(REPO, "src")
if SRC not in sys.path:
    sys.path.insert(0, SRC)

# third-party and stdlib modules that must see the *real* primitives at import
import logging  # noqa: E402
import multiprocessing  # noqa: E402,F401
import multiprocessing.pool  # noqa: E402,F401
import concurrent.futures  # noqa: E402,F401
import queue  # noqa: E402,F401
import socket  # noqa: E402,F401
import random as _random  # noqa: E402
import threading as _threading  # noqa: E402
import time as _time  # noqa: E402
import asyncio  # noqa: E402,F401
import json  # noqa: E402,F401
import asn1tools  # noqa: E402,F401
import ecdsa  # noqa: E402,F401
try:
    import tinydb  # noqa: E402,F401
except Exception:  # pragma: no cover
    tinydb = None

logging.disable(logging.CRITICAL)

_real = {
    "Lock": _threading.Lock, "RLock": _threading.RLock, "Event": _threading.Event,
    "Timer": _threading.Timer, "Thread": _threading.Thread,
    "time": _time.time, "monotonic": _time.monotonic, "sleep": _time.sleep,
    "uniform": _random.uniform, "randint": _random.randint, "urandom": os.urandom,
}

BASE_TIME = 1_700_000_000.0   # virtual "now" when no world is current


class DeadlockError(RuntimeError):
    pass


class Env:
    mode = "seq"          # "seq" | "sched"
    current = None        # world currently being stepped (has .now, .timers, .threads)
    sched = None          # active scheduler in "sched" mode
    default_now = BASE_TIME
    rand_uniform = staticmethod(lambda a, b: a)
    rand_int = staticmethod(lambda a, b: a)
    urandom_state = None  # bytes -> seeded stream when not None
    quiet = True

    @classmethod
    def now(cls) -> float:
        w = cls.current
        if w is not None:
            return w.now
        return cls.default_now


ENV = Env


def _from_flexstack(depth: int = 2) -> bool:
    try:
        name = sys._getframe(depth).f_globals.get("__name__", "")
    except ValueError:
        return False
    return name.startswith("flexstack")


# ---------------------------------------------------------------------------------------
# sequential primitives
# ---------------------------------------------------------------------------------------
class SeqLock:
    """Non-reentrant lock for sequential worlds; a second acquire is a real deadlock."""
    __slots__ = ("held",)

    def __init__(self):
        self.held = False

    def acquire(self, blocking=True, timeout=-1):
        if self.held:
            if not blocking:
                return False
            raise DeadlockError("Lock acquired twice by the only thread")
        self.held = True
        return True

    def release(self):
        if not self.held:
            raise RuntimeError("release unlocked lock")
        self.held = False

    def locked(self):
        return self.held

    __enter__ = acquire

    def __exit__(self, *a):
        self.release()


class SeqRLock:
    __slots__ = ("count",)

    def __init__(self):
        self.count = 0

    def acquire(self, blocking=True, timeout=-1):
        self.count += 1
        return True

    def release(self):
        if self.count <= 0:
            raise RuntimeError("cannot release un-acquired lock")
        self.count -= 1

    __enter__ = acquire

    def __exit__(self, *a):
        self.release()


class SeqEvent:
    def __init__(self):
        self.flag = False

    def set(self):
        self.flag = True

    def clear(self):
        self.flag = False

    def is_set(self):
        return self.flag

    isSet = is_set

    def wait(self, timeout=None):
        return self.flag


class VTimer:
    """threading.Timer stand-in recorded in the world that is current at start()."""

    def __init__(self, interval, function, args=None, kwargs=None):
        self.interval = interval
        self.function = function
        self.args = list(args) if args is not None else []
        self.kwargs = dict(kwargs) if kwargs is not None else {}
        self.daemon = True
        self.name = "VTimer"
        self.started = False
        self.cancelled = False
        self.fired = False
        self.due = None
        self.seq = None

    def start(self):
        if self.started:
            raise RuntimeError("threads can only be started once")
        self.started = True
        w = ENV.current
        self.due = ENV.now() + self.interval
        if w is not None:
            w.timer_seq = getattr(w, "timer_seq", 0) + 1
            self.seq = w.timer_seq
            w.timers.append(self)

    def cancel(self):
        self.cancelled = True

    def is_alive(self):
        return self.started and not self.cancelled and not self.fired

    def join(self, timeout=None):
        return None

    @property
    def pending(self):
        return self.started and not self.cancelled and not self.fired

    def fire(self):
        """Run the callback now (explorer decides when)."""
        self.fired = True
        return self.function(*self.args, **self.kwargs)


class VThread:
    """threading.Thread stand-in: start() only records the thread in the world."""

    def __init__(self, group=None, target=None, name=None, args=(), kwargs=None, *, daemon=None):
        self.target = target
        self.args = tuple(args)
        self.kwargs = dict(kwargs or {})
        self.daemon = daemon
        self.name = name or "VThread"
        self.started = False
        self.finished = False

    def start(self):
        self.started = True
        w = ENV.current
        if w is not None:
            w.threads.append(self)
        else:
            ENV.orphan_threads.append(self)

    def run_now(self):
        try:
            if self.target is not None:
                return self.target(*self.args, **self.kwargs)
        finally:
            self.finished = True

    def join(self, timeout=None):
        return None

    def is_alive(self):
        return self.started and not self.finished


Env.orphan_threads = []


# ---------------------------------------------------------------------------------------
# dispatching factories installed into the stdlib modules
# ---------------------------------------------------------------------------------------
def _mk(name, seq_cls):
    real = _real[name]

    def factory(*a, **k):
        if _from_flexstack():
            if ENV.mode == "sched" and ENV.sched is not None:
                return ENV.sched.make(name, *a, **k)
            return seq_cls(*a, **k)
        return real(*a, **k)
    factory.__name__ = name
    factory.__qualname__ = name
    factory._verif_shim = True
    return factory


def _v_time():
    if _from_flexstack():
        if ENV.mode == "sched" and ENV.sched is not None:
            return ENV.sched.time()
        return ENV.now()
    return _real["time"]()


def _v_monotonic():
    if _from_flexstack():
        if ENV.mode == "sched" and ENV.sched is not None:
            return ENV.sched.time()
        return ENV.now()
    return _real["monotonic"]()


def _v_sleep(d):
    if _from_flexstack():
        if ENV.mode == "sched" and ENV.sched is not None:
            return ENV.sched.sleep(d)
        w = ENV.current
        if w is not None:
            w.now += d
        return None
    return _real["sleep"](d)


def _v_uniform(a, b):
    if _from_flexstack():
        return ENV.rand_uniform(a, b)
    return _real["uniform"](a, b)


def _v_randint(a, b):
    if _from_flexstack():
        return ENV.rand_int(a, b)
    return _real["randint"](a, b)


class _URandom:
    def __init__(self, seed: bytes):
        self.seed = seed
        self.ctr = 0

    def read(self, n):
        out = b""
        while len(out) < n:
            out += hashlib.sha256(self.seed + self.ctr.to_bytes(8, "big")).digest()
            self.ctr += 1
        return out[:n]


def _v_urandom(n):
    st = ENV.urandom_state
    if st is not None:
        try:
            name = sys._getframe(1).f_globals.get("__name__", "")
        except ValueError:
            name = ""
        if name.startswith(("ecdsa", "flexstack", "mc.")):
            return st.read(n)
    return _real["urandom"](n)


def seed_urandom(seed):
    ENV.urandom_state = _URandom(str(seed).encode()) if seed is not None else None


_installed = False


def install():
    global _installed
    if _installed:
        return
    _installed = True
    _threading.Lock = _mk("Lock", SeqLock)
    _threading.RLock = _mk("RLock", SeqRLock)
    _threading.Event = _mk("Event", SeqEvent)
    _threading.Timer = _mk("Timer", VTimer)
    _threading.Thread = _mk("Thread", VThread)
    _time.time = _v_time
    _time.monotonic = _v_monotonic
    _time.sleep = _v_sleep
    _random.uniform = _v_uniform
    _random.randint = _v_randint
    os.urandom = _v_urandom
    import flexstack  # noqa: F401
    from flexstack.utils import time_service
    time_service.TimeService.time = staticmethod(lambda: ENV.now() if ENV.mode != "sched" or ENV.sched is None else ENV.sched.time())
    # silence the library's print() diagnostics (pure noise for the explorer)
    if ENV.quiet:
        import builtins
        _print = builtins.print

        def qprint(*a, **k):
            if _from_flexstack():
                return None
            return _print(*a, **k)
        builtins.print = qprint


install()


class World:
    """Base class of sequential worlds: owns virtual clock, timers and recorded threads."""

    def __init__(self, now: float = BASE_TIME):
        self.now = now
        self.timers: list[VTimer] = []
        self.threads: list[VThread] = []
        self.timer_seq = 0

    def __enter__(self):
        self._prev = ENV.current
        ENV.current = self
        return self

    def __exit__(self, *a):
        ENV.current = self._prev
        self._prev = None

    def pending_timers(self):
        self.timers = [t for t in self.timers if t.pending]
        return sorted(self.timers, key=lambda t: (t.due, t.seq))

    def fire(self, timer: VTimer, advance=True):
        """Fire one pending timer, moving the clock to its due time if that is later."""
        if advance and timer.due is not None and timer.due > self.now:
            self.now = timer.due
        with self:
            timer.fire()
        self.timers = [t for t in self.timers if t.pending]

    def advance(self, d: float, fire=True):
        """Advance the clock by d seconds firing due timers in order."""
        end = self.now + d
        while fire:
            p = [t for t in self.pending_timers() if t.due <= end]
            if not p:
                break
            self.fire(p[0])
        self.now = max(self.now, end)
