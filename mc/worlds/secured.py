"""Secured worlds: deterministic PKI fixtures (genuine chain R/AA/AT*, attacker chain R'/AA'/AT', hand-made
wrongly-issued certificates), security stacks (real CertificateLibrary / SignService / VerifyService), stations
with ``itsGnSecurity = ENABLED`` and a forger that builds secured messages *without* the repository's signer.

Determinism: every key and every signature made while building the fixtures is drawn from
``env.seed_urandom(PKI_SEED)`` (a constant - VERIF_SEED never reaches key material).  Worlds that sign during
an exploration own their ``os.urandom`` stream (``SecNet.rng``), which is deep-copied with the world, so a replayed
history produces the same octets as the snapshot it is compared with.
"""
from __future__ import annotations

import copy
import hashlib
import types

import ecdsa

from mc import env
from mc.env import ENV, BASE_TIME
from mc.ref import chain_check as CC
from mc.worlds.stations import Net, GnSecurity, AreaForwardingAlgorithm

from flexstack.security.certificate import Certificate, OwnCertificate
from flexstack.security.certificate_library import CertificateLibrary
from flexstack.security.ecdsa_backend import PythonECDSABackend
from flexstack.security.sign_service import SignService
from flexstack.security.verify_service import VerifyService
from flexstack.security.sn_sap import SNVERIFYRequest, ReportVerify  # noqa: F401
from flexstack.security.security_profiles import SecurityProfile
from flexstack.btp.service_access_point import BTPDataRequest
from flexstack.geonet.service_access_point import (Area, PacketTransportType, HeaderType, TopoBroadcastHST,
                                                   GeoBroadcastHST, CommonNH)

# btp.Router.freeze_callbacks() wraps the port table in a MappingProxyType, which copy.deepcopy cannot handle; worlds
# with BTP routers must stay snapshot-able, so teach deepcopy to rebuild the proxy over a copied dict.
copy._deepcopy_dispatch.setdefault(  # type: ignore[attr-defined]
    types.MappingProxyType, lambda x, memo: types.MappingProxyType(copy.deepcopy(dict(x), memo)))

PKI_SEED = "flexstack-verif-pki-v1"
T0 = BASE_TIME
ITS_EPOCH = CC.ITS_EPOCH
PSID_CAM, PSID_DENM, PSID_VAM, PSID_GEN, PSID_GEN2, PSID_FOREIGN = 36, 37, 638, 139, 140, 999
ALL_PSIDS = [PSID_CAM, PSID_DENM, PSID_VAM, PSID_GEN, PSID_GEN2]


def its_s(unix: float) -> int:
    """Time32: TAI seconds since the ITS epoch."""
    return int(unix - ITS_EPOCH + CC.LEAP)


def its_us(unix: float) -> int:
    """Time64 as FlexStack's signer computes it (TimeService.timestamp_its() * 1000)."""
    return int((unix - ITS_EPOCH + CC.LEAP) * 1000) * 1000


def perm(sp, mcl, clr=0):
    return {"subjectPermissions": sp, "minChainLength": mcl, "chainLengthRange": clr, "eeType": (b"\x00", 1)}


def explicit(psids):
    return ("explicit", [{"psid": p} for p in psids])


def tbs_cert(name=None, app=None, issue=None, start=None, dur=("years", 10)):
    d = {"id": ("name", name) if name else ("none", None), "cracaId": b"\0\0\0", "crlSeries": 0,
         "validityPeriod": {"start": its_s(T0) - 86400 if start is None else start, "duration": dur},
         "verifyKeyIndicator": ("verificationKey", ("ecdsaNistP256", ("fill", None)))}
    if app is not None:
        d["appPermissions"] = [{"psid": p} for p in app]
    if issue is not None:
        d["certIssuePermissions"] = issue
    return d


class PKI:
    """name -> certificate fixtures.  ``own[name]`` is an OwnCertificate (has key_id) for every fixture."""

    def __init__(self):
        self.backend = PythonECDSABackend()
        self.own: dict[str, OwnCertificate] = {}
        self.signed_by: dict[str, str] = {}      # name -> name of the certificate whose KEY signed it

    # -- construction ------------------------------------------------------------------------------
    def issue(self, name, tbs, issuer=None):
        c = OwnCertificate.initialize_certificate(self.backend, tbs, self.own[issuer] if issuer else None)
        self.own[name] = c
        self.signed_by[name] = issuer or name
        return c

    def hand(self, name, tbs, names_issuer, signing_key_of, key_of=None):
        """Certificate built by hand (bypassing the issuing API): issuer digest names ``names_issuer``, the
        signature is made with the private key of ``signing_key_of``; own key fresh or copied from ``key_of``."""
        kid = self.own[key_of].key_id if key_of else self.backend.create_key()
        t = copy.deepcopy(tbs)
        t["verifyKeyIndicator"] = ("verificationKey", self.backend.get_public_key(kid))
        enc = CC.enc_tbs_cert(t)
        d = {"version": 3, "type": "explicit",
             "issuer": ("sha256AndDigest", self.own[names_issuer].as_hashedid8()) if names_issuer else ("self", "sha256"),
             "toBeSigned": t,
             "signature": self.backend.sign(enc, self.own[signing_key_of].key_id if signing_key_of else kid)}
        c = OwnCertificate(certificate=d, issuer=self.own.get(names_issuer), key_id=kid)
        self.own[name] = c
        self.signed_by[name] = signing_key_of or name
        return c

    # -- views -------------------------------------------------------------------------------------
    def d(self, name) -> dict:
        return self.own[name].certificate

    def h8(self, name) -> bytes:
        return CC.h8(self.own[name].certificate)

    def plain(self, name, issuer="claimed") -> Certificate:
        """A plain Certificate object as a library user would hand it in.  issuer: 'claimed' (the fixture named
        by the issuer digest), 'signer' (the fixture whose key signed it), None, or a fixture name."""
        d = self.own[name].certificate
        if issuer == "claimed":
            iss = None
            if d["issuer"][0] == "sha256AndDigest":
                for n, c in self.own.items():
                    if CC.h8(c.certificate) == d["issuer"][1]:
                        iss = self.plain(n, "claimed") if n != name else None
                        break
        elif issuer == "signer":
            s = self.signed_by[name]
            iss = self.plain(s, "claimed") if s != name else None
        elif issuer is None:
            iss = None
        else:
            iss = self.plain(issuer, "claimed")
        return Certificate(certificate=copy.deepcopy(d), issuer=iss)

    def sk(self, name) -> ecdsa.SigningKey:
        return self.backend.keys[self.own[name].key_id]


_PKI = None


def pki() -> PKI:
    """The (per-process cached) deterministic fixture set."""
    global _PKI
    if _PKI is not None:
        return _PKI
    prev = ENV.urandom_state
    env.seed_urandom(PKI_SEED)
    try:
        p = PKI()
        gen = ALL_PSIDS
        # genuine chain
        p.issue("R", tbs_cert("root", issue=[perm(("all", None), 3)]))
        p.issue("AA", tbs_cert("aa", issue=[perm(explicit(gen), 2)]), "R")
        for i in (1, 2, 3):
            p.issue(f"AT{i}", tbs_cert(None, app=gen), "AA")
        p.issue("AT_cam", tbs_cert(None, app=[PSID_CAM]), "AA")                                   # covers CAM only
        p.issue("AT_win", tbs_cert(None, app=gen, start=its_s(T0) - 3600, dur=("hours", 2)), "AA")  # valid T0 +- 1 h
        p.issue("AA2", tbs_cert("aa2", issue=[perm(explicit(gen), 2)]), "R")                      # second AA, not pre-configured
        p.issue("AT_aa2", tbs_cert(None, app=[PSID_CAM, PSID_DENM]), "AA2")
        p.issue("SUB", tbs_cert("sub", app=[PSID_CAM], issue=[perm(explicit([PSID_CAM]), 1)]), "AA")   # legitimate sub-AA
        p.issue("AT_sub", tbs_cert(None, app=[PSID_CAM]), "SUB")
        p.issue("AT_root", tbs_cert(None, app=[PSID_CAM]), "R")                                    # ticket issued by the root itself
        # wrongly issued, hand-made with the genuine AA key (bypassing the issuing API)
        p.hand("AT_esc", tbs_cert(None, app=[PSID_CAM, PSID_FOREIGN]), "AA", "AA")                 # PSID outside AA's issuing permissions
        p.hand("SUB_all", tbs_cert("suball", app=[PSID_CAM], issue=[perm(("all", None), 1)]), "AA", "AA")  # 'all' under explicit issuer
        p.hand("AT_suball", tbs_cert(None, app=[PSID_FOREIGN]), "SUB_all", "SUB_all")
        p.hand("SUB_noapp", tbs_cert("subnoapp", issue=[perm(explicit([PSID_CAM]), 1)]), "AA", "AA")   # CA without appPermissions
        p.hand("SUB_deep", tbs_cert("subdeep", app=[PSID_CAM], issue=[perm(explicit([PSID_CAM]), 1)]), "SUB", "SUB")  # beyond budget
        p.hand("AT_byat", tbs_cert(None, app=[]), "AT1", "AT1")                                    # "issued" by a ticket, no permissions
        # attacker material
        p.issue("R'", tbs_cert("root", issue=[perm(("all", None), 3)]))
        p.issue("AA'", tbs_cert("aa", issue=[perm(explicit(gen), 2)]), "R'")
        p.issue("AT'", tbs_cert(None, app=gen), "AA'")
        p.hand("AT_resigned", copy.deepcopy(p.d("AT1")["toBeSigned"]), "AA", "AA'", key_of="AT1")   # AT1 content re-signed by AA'
        p.hand("AT_claimAA", tbs_cert(None, app=gen), "AA", "AA'")                                 # names AA, signed by AA'
        p.hand("AT_selfclaim", tbs_cert(None, app=gen), "AA", None)                                # names AA, signed by own key
        p.hand("AT_self", tbs_cert(None, app=gen), None, None)                                     # self-signed ticket
        p.hand("AA_self", tbs_cert("aa", issue=[perm(explicit(gen), 2)]), None, None)              # self-signed "AA"
        p.hand("AT_aaself", tbs_cert(None, app=gen), "AA_self", "AA_self")
        # ---- several certIssuePermissions groups / several appPermissions entries, in every order (appended last so that
        # the key material of everything above is unchanged).  AA_n is a genuine *narrow* AA: it may issue PSID 36 and 37 only.
        E = explicit
        p.issue("AA_n", tbs_cert("aan", issue=[perm(E([PSID_CAM, PSID_DENM]), 2)]), "R")
        mg = {   # hand-made with the genuine AA_n key; escalating PSID 139 first / last / in the middle, 'all' mixed in
            "SUB_mg_first": [perm(E([PSID_GEN]), 1), perm(E([PSID_CAM]), 1, 1)],
            "SUB_mg_last": [perm(E([PSID_CAM]), 1), perm(E([PSID_GEN]), 2, -1)],
            "SUB_mg_mid": [perm(E([PSID_CAM]), 1), perm(E([PSID_GEN]), 1, 1), perm(E([PSID_DENM]), 1)],
            "SUB_mg_allfirst": [perm(("all", None), 1), perm(E([PSID_CAM]), 1)],
            "SUB_mg_alllast": [perm(E([PSID_CAM]), 1, 1), perm(("all", None), 2)],
            "SUB_mg_ok": [perm(E([PSID_CAM]), 1), perm(E([PSID_DENM]), 1, 1)],          # contained: legitimate
        }
        for n, groups in mg.items():
            p.hand(n, tbs_cert(n.lower(), app=[PSID_CAM], issue=groups), "AA_n", "AA_n")
        for n in ("first", "last", "mid"):
            p.hand(f"AT_mg139_{n}", tbs_cert(None, app=[PSID_GEN]), f"SUB_mg_{n}", f"SUB_mg_{n}")
        p.hand("AT_mgok", tbs_cert(None, app=[PSID_DENM, PSID_CAM]), "SUB_mg_ok", "SUB_mg_ok")
        p.hand("AT_app_first", tbs_cert(None, app=[PSID_GEN, PSID_CAM]), "AA_n", "AA_n")
        p.hand("AT_app_last", tbs_cert(None, app=[PSID_CAM, PSID_GEN]), "AA_n", "AA_n")
        p.hand("AT_app_mid", tbs_cert(None, app=[PSID_CAM, PSID_GEN, PSID_DENM]), "AA_n", "AA_n")
        # short-lived genuine ticket for the validity-boundary lattice: valid [T0 + 100 s, T0 + 110 s]
        p.issue("AT_short", tbs_cert(None, app=gen, start=its_s(T0) + 100, dur=("seconds", 10)), "AA")
        # signature verifies ONLY under the certificate's own key, but the issuer FIELD names a trusted certificate
        # (root digest / AA digest; CA and ticket certificates) - plus tickets issued by those rogue CAs
        p.hand("AA_selfR", tbs_cert("aa", issue=[perm(explicit(gen), 2)]), "R", None)
        p.hand("AA_selfAA", tbs_cert("sub", app=[PSID_CAM], issue=[perm(explicit(gen), 1)]), "AA", None)
        p.hand("AT_selfR", tbs_cert(None, app=gen), "R", None)
        p.hand("AT_u_selfR", tbs_cert(None, app=gen), "AA_selfR", "AA_selfR")
        p.hand("AT_u_selfAA", tbs_cert(None, app=gen), "AA_selfAA", "AA_selfAA")
    finally:
        ENV.urandom_state = prev
    _PKI = p
    return p


GENUINE_CA = ("R", "AA")


def trust(p: PKI = None, extra_pool=()) -> CC.Trust:
    p = p or pki()
    return CC.Trust([p.d("R")], [p.d("AA")] + [p.d(n) for n in extra_pool])


# ------------------------------------------------------------------------------------------------
# security stacks and stations
# ------------------------------------------------------------------------------------------------
class RecVerifyService(VerifyService):
    """Real VerifyService; records every SN-VERIFY request/confirm (or escaped exception) for observation."""

    def __init__(self, *a, **k):
        super().__init__(*a, **k)
        self.log = []

    def verify(self, request):
        try:
            conf = super().verify(request)
        except Exception as e:  # noqa: BLE001 - observation, re-raised unchanged
            self.log.append((bytes(request.message), None, type(e).__name__))
            raise
        self.log.append((bytes(request.message), conf, None))
        return conf


class Stack:
    def __init__(self, lib, sign, verify):
        self.lib, self.sign, self.verify = lib, sign, verify


def make_stack(own=None, known_ats=(), aas=("AA",), roots=("R",), wire_p2pcd=True, p: PKI = None) -> Stack:
    p = p or pki()
    lib = CertificateLibrary(p.backend, [p.plain(r, None) for r in roots], [p.plain(a) for a in aas],
                             [p.plain(a) for a in known_ats])
    if own:
        lib.add_own_certificate(p.own[own])
        assert p.own[own].as_hashedid8() in lib.own_certificates, own
    ss = SignService(p.backend, lib)
    vs = RecVerifyService(p.backend, lib, ss if wire_p2pcd else None)
    return Stack(lib, ss, vs)


class SecNet(Net):
    """Net whose stations sign: owns its urandom stream (deep-copied with the world)."""

    def __init__(self, now=BASE_TIME, rng_seed="0"):
        super().__init__(now)
        self.rng = env._URandom(("secnet:" + str(rng_seed)).encode())
        self._rng_stack = []

    def __enter__(self):
        self._rng_stack.append(ENV.urandom_state)
        ENV.urandom_state = self.rng
        return super().__enter__()

    def __exit__(self, *a):
        super().__exit__(*a)
        ENV.urandom_state = self._rng_stack.pop()

    def add_secured(self, name, mid, stack: Stack, ports=(2001, 2002, 2018, 2100), lat=41.0, lon=2.0, **mib):
        kw = dict(itsGnSecurity=GnSecurity.ENABLED, itsGnAreaForwardingAlgorithm=AreaForwardingAlgorithm.SIMPLE,
                  itsGnDefaultHopLimit=1)
        kw.update(mib)
        st = self.add(name, mid, lat=lat, lon=lon, ports=ports, mib_kw=kw, sign_service=stack.sign,
                      verify_service=stack.verify)
        st.stack = stack
        return st


PROFILES = {
    "CAM": dict(port=2001, psid=PSID_CAM, profile=SecurityProfile.COOPERATIVE_AWARENESS_MESSAGE, gbc=False),
    "VAM": dict(port=2018, psid=PSID_VAM, profile=SecurityProfile.VRU_AWARENESS_MESSAGE, gbc=False),
    "DENM": dict(port=2002, psid=PSID_DENM, profile=SecurityProfile.DECENTRALIZED_ENVIRONMENTAL_NOTIFICATION_MESSAGE, gbc=True),
    "GEN": dict(port=2100, psid=PSID_GEN, profile=SecurityProfile.NO_SECURITY, gbc=False),
}


def send(net: Net, st, kind: str, payload: bytes, psid=None):
    """Originate one facility-layer message through the real BTP + GN routers of station ``st``."""
    pr = PROFILES[kind]
    if pr["gbc"]:
        ptt = PacketTransportType(HeaderType.GEOBROADCAST, GeoBroadcastHST.GEOBROADCAST_CIRCLE)
        area = Area(latitude=int(st.lat * 1e7), longitude=int(st.lon * 1e7), a=500, b=500, angle=0)
    else:
        ptt = PacketTransportType(HeaderType.TSB, TopoBroadcastHST.SINGLE_HOP)
        area = Area(latitude=0, longitude=0, a=0, b=0, angle=0)
    req = BTPDataRequest(btp_type=CommonNH.BTP_B, destination_port=pr["port"], gn_packet_transport_type=ptt, gn_area=area,
                         data=payload, length=len(payload), security_profile=pr["profile"],
                         its_aid=pr["psid"] if psid is None else psid)
    return net.call(st.btp.btp_data_request, req)


# ------------------------------------------------------------------------------------------------
# forger: secured messages built without the repository's signer (attacker tool / generic signer)
# ------------------------------------------------------------------------------------------------
def det_sign(sk: ecdsa.SigningKey, data: bytes):
    """RFC 6979 deterministic ECDSA-SHA256 -> 1609.2 Signature value (no urandom involved)."""
    sig = sk.sign_deterministic(data, hashfunc=hashlib.sha256)
    r, s = ecdsa.util.sigdecode_string(sig, CC.N)
    return ("ecdsaNistP256Signature", {"rSig": ("x-only", r.to_bytes(32, "big")), "sSig": s.to_bytes(32, "big")})


def forge(payload: bytes, psid, gen_time_us, signer, sk: ecdsa.SigningKey | None, header_extra=None, signature=None,
          hash_id="sha256") -> bytes:
    """EtsiTs103097Data-Signed octets; ``signer`` is ('digest', h8) or ('certificate', [dict, ...])."""
    hi = {}
    if psid is not None:
        hi["psid"] = psid
    if gen_time_us is not None:
        hi["generationTime"] = gen_time_us
    hi.update(header_extra or {})
    tbs = {"payload": {"data": {"protocolVersion": 3, "content": ("unsecuredData", payload)}}, "headerInfo": hi}
    sig = signature if signature is not None else det_sign(sk, CC.enc_tbs_data(tbs))
    return CC.enc_data({"protocolVersion": 3, "content": ("signedData", {"hashId": hash_id, "tbsData": tbs, "signer": signer,
                                                                           "signature": sig})})
