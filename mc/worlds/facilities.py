"""Facility worlds: real CAM / VAM / DENM transmission management on a recording BTP router.

The only stubbed component is the BTP router (``RecordingBTP``): it captures every
``BTPDataRequest`` handed down by the facility together with the virtual time stamp.  Everything
above it is the real FlexStack code (``CAMTransmissionManagement``, ``VAMTransmissionManagement``,
``DENMTransmissionManagement``, ``VBSClusteringManager``, the asn1tools coders).

Clock policy (important for reproducibility): the world keeps an *integer millisecond* clock
``ms`` and always sets ``now = ms / 1000.0`` by a fresh division.  A double nearest to k/1000
multiplied by 1000 rounds back to exactly k (error 1.19e-4 < half spacing 1.22e-4 for 2004..2100
epochs), so ``int(TimeService.time()*1000)`` in the code under test is exactly ``ms``.  A timer's
due time (``now + interval``, one extra rounding) is therefore re-normalised to the integer
millisecond lattice when it is fired.  ``frac`` (0 <= frac < 1 ms) can be added for the
sub-millisecond lattices of the generationDeltaTime checks.
"""
from __future__ import annotations

import datetime

from mc.env import World, ENV

from flexstack.facilities.ca_basic_service import cam_transmission_management as ctm
from flexstack.facilities.ca_basic_service.cam_coder import CAMCoder
from flexstack.facilities.ca_basic_service.cam_transmission_management import (
    CAMTransmissionManagement, VehicleData, GenerationDeltaTime, CooperativeAwarenessMessage)
from flexstack.facilities.vru_awareness_service import vam_transmission_management as vtm
from flexstack.facilities.vru_awareness_service.vam_coder import VAMCoder
from flexstack.facilities.vru_awareness_service.vam_transmission_management import (
    VAMTransmissionManagement, DeviceDataProvider, VAMMessage)
from flexstack.facilities.vru_awareness_service.vru_clustering import VBSClusteringManager
from flexstack.facilities.decentralized_environmental_notification_service.denm_coder import DENMCoder
from flexstack.facilities.decentralized_environmental_notification_service.denm_transmission_management import (
    DENMTransmissionManagement, DecentralizedEnvironmentalNotificationMessage)

ITS_EPOCH_MS = 1072915200000      # 2004-01-01T00:00:00Z in unix ms (literal, not imported from the code under test)
LEAP_MS = 5000                    # TAI-UTC accumulated since 2004 (ETSI TimestampIts counts them)
BASE_MS = 1_700_000_000_000

_CODERS: dict = {}


def coder(kind: str):
    """Compiled ASN.1 coders are heavy (1-3 s): one per process, shared by every world."""
    c = _CODERS.get(kind)
    if c is None:
        c = {"cam": CAMCoder, "vam": VAMCoder, "denm": DENMCoder}[kind]()
        _CODERS[kind] = c
    return c


def shared_objects(world=None):
    """Objects that must be shared (not deep-copied) between snapshots: the compiled coders and immutable
    configuration objects that cannot be deep-copied (DeviceDataProvider holds mappingproxy fields)."""
    out = list(_CODERS.values())
    if world is not None:
        out += list(getattr(world, "immutables", ()))
    return out


def iso_ms(ms: int, micro: int = 0) -> str:
    """gpsd style time string of a unix time given in integer milliseconds (+ optional microseconds 0..999)."""
    d = datetime.datetime.fromtimestamp(ms // 1000, datetime.timezone.utc)
    if micro:
        return d.strftime("%Y-%m-%dT%H:%M:%S") + ".%03d%03dZ" % (ms % 1000, micro)
    return d.strftime("%Y-%m-%dT%H:%M:%S") + ".%03dZ" % (ms % 1000)


def its_ms(unix_ms: int) -> int:
    return unix_ms - ITS_EPOCH_MS + LEAP_MS


class Sent:
    __slots__ = ("ms", "port", "data", "req")

    def __init__(self, ms, port, data, req):
        self.ms, self.port, self.data, self.req = ms, port, data, req


class RecordingBTP:
    """Stand-in for btp.Router: records (virtual ms, BTPDataRequest)."""

    def __init__(self, world):
        self.world = world
        self.callbacks = {}
        self.down = False          # environment fault: the lower layers reject every request
        self.rejected = 0

    def btp_data_request(self, request):
        if self.down:
            self.rejected += 1
            raise ConnectionError("lower layer not available")
        self.world.sent.append(Sent(self.world.ms, request.destination_port, bytes(request.data), request))

    def register_indication_callback_btp(self, port, callback):
        self.callbacks[port] = callback

    def freeze_callbacks(self):
        return None


class FacWorld(World):
    def __init__(self, start_ms: int = BASE_MS, frac: float = 0.0):
        super().__init__(now=(start_ms + frac) / 1000.0)
        self.ms = start_ms
        self.frac = frac
        self.sent: list[Sent] = []
        self.btp = RecordingBTP(self)
        self.cam_tm = None
        self.vam_tm = None
        self.denm_tm = None
        self.cluster = None
        self.immutables = []

    # -- clock ----------------------------------------------------------------------------
    def set_ms(self, ms: int):
        if ms < self.ms:
            raise AssertionError("virtual clock must not go backwards")
        self.ms = ms
        self.now = (ms + self.frac) / 1000.0

    def timer_ms(self, t) -> int:
        return int(round(t.due * 1000.0 - self.frac))

    def next_timer(self):
        p = self.pending_timers()
        return p[0] if p else None

    def fire_next(self, late_ms: int = 0):
        """Fire the next timer at its due time (+ ``late_ms``: the timer thread was scheduled late)."""
        t = self.next_timer()
        self.set_ms(max(self.ms, self.timer_ms(t) + late_ms))
        self.fire(t, advance=False)
        return t

    def advance_to(self, ms: int, on_fire=None):
        """Advance to absolute ``ms`` firing every timer due on the way (in order)."""
        while True:
            t = self.next_timer()
            if t is None or self.timer_ms(t) > ms:
                break
            n0 = len(self.sent)
            self.fire_next()
            if on_fire is not None:
                on_fire(self, n0)
        self.set_ms(ms)

    # -- services --------------------------------------------------------------------------
    def add_cam(self, **vehicle_kw):
        kw = dict(station_id=4711, station_type=5)
        kw.update(vehicle_kw)
        with self:
            vd = VehicleData(**kw)
            self.immutables.append(vd)          # frozen dataclass
            self.cam_tm = CAMTransmissionManagement(self.btp, coder("cam"), vd)
        return self.cam_tm

    def add_vam(self, clustering=False, profile="pedestrian", **dev_kw):
        kw = dict(station_id=4712, station_type=1)
        kw.update(dev_kw)
        with self:
            if clustering:
                self.cluster = VBSClusteringManager(own_station_id=kw["station_id"], own_vru_profile=profile)
            ddp = DeviceDataProvider(**kw)
            self.immutables.append(ddp)
            self.vam_tm = VAMTransmissionManagement(self.btp, coder("vam"), ddp, clustering_manager=self.cluster)
        return self.vam_tm

    def add_denm(self, **vehicle_kw):
        kw = dict(station_id=4713, station_type=5)
        kw.update(vehicle_kw)
        with self:
            self.denm_tm = DENMTransmissionManagement(self.btp, coder("denm"), VehicleData(**kw))
        return self.denm_tm

    def start_cam(self, delay_ms: int = 0):
        prev = ENV.rand_uniform
        ENV.rand_uniform = staticmethod(lambda a, b: min(max(delay_ms / 1000.0, a), b))
        try:
            with self:
                self.cam_tm.start()
        finally:
            ENV.rand_uniform = prev

    def stop_cam(self):
        with self:
            self.cam_tm.stop()

    def report(self, tm, tpv: dict):
        with self:
            return tm.location_service_callback(tpv)

    def take_sent(self, n0: int = 0):
        return self.sent[n0:]
