"""Station worlds: real geonet.Router + btp.Router per station on an in-memory ether."""
from __future__ import annotations

import datetime

from mc.env import World, ENV, BASE_TIME

from flexstack.linklayer.link_layer import LinkLayer
from flexstack.geonet.router import Router as GNRouter
from flexstack.geonet.mib import MIB, AreaForwardingAlgorithm, GnSecurity, GnIsMobile  # noqa: F401
from flexstack.geonet.gn_address import GNAddress, M, ST, MID
from flexstack.geonet.service_access_point import (  # noqa: F401
    GNDataRequest, Area, PacketTransportType, HeaderType, TopoBroadcastHST, GeoBroadcastHST,
    GeoAnycastHST, CommonNH, TrafficClass, ResultCode, CommunicationProfile,
)
from flexstack.btp.router import Router as BTPRouter
from flexstack.btp.service_access_point import BTPDataRequest


import copy as _copy
import types as _types

# btp.Router keeps its frozen callback table in a MappingProxyType, which deepcopy cannot handle
_copy._deepcopy_dispatch[_types.MappingProxyType] = lambda x, memo: _types.MappingProxyType(_copy.deepcopy(dict(x), memo))




def share_frozen_dataclasses():
    """Frozen dataclasses of flexstack are immutable values: snapshots may share them (big deepcopy speed-up).
    Purely a harness-side optimisation: the replay cross-check of the explorer validates snapshot fidelity."""
    import dataclasses
    import sys
    n = 0
    for name, mod in list(sys.modules.items()):
        if not name.startswith("flexstack.") or mod is None:
            continue
        for obj in list(vars(mod).values()):
            if isinstance(obj, type) and dataclasses.is_dataclass(obj) and obj.__module__.startswith("flexstack.") \
                    and obj.__dataclass_params__.frozen and "__deepcopy__" not in vars(obj):
                obj.__deepcopy__ = lambda self, memo: self
                n += 1
    return n


def iso(t: float) -> str:
    return datetime.datetime.fromtimestamp(t, datetime.timezone.utc).strftime("%Y-%m-%dT%H:%M:%S.%f")[:-3] + "Z"


class EtherLL(LinkLayer):
    """In-memory link layer: every send() is appended to the net's frame log/queues."""

    def __init__(self, net, name, receive_callback):
        super().__init__(receive_callback)
        self.net = net
        self.name = name

    def send(self, packet: bytes) -> None:
        self.net.on_send(self.name, bytes(packet))


class Station:
    def __init__(self, net, name, mid: bytes, lat=41.0, lon=2.0, ports=(), st=ST.PASSENGER_CAR, mib_kw=None,
                 sign_service=None, verify_service=None, with_btp=True, refresh=True):
        self.net = net
        self.name = name
        self.addr = GNAddress(m=M.GN_UNICAST, st=st, mid=MID(mid))
        kw = dict(itsGnLocalGnAddr=self.addr, itsGnBeaconServiceRetransmitTimer=0)
        kw.update(mib_kw or {})
        self.mib = MIB(**kw)
        self.gn = GNRouter(self.mib, sign_service=sign_service, verify_service=verify_service)
        self.ll = EtherLL(net, name, self.gn.gn_data_indicate)
        self.gn.link_layer = self.ll
        self.gn_indications = []
        self.btp_indications = []   # (port, indication)
        self.btp = None
        if with_btp:
            self.btp = BTPRouter(self.gn)
            self.gn.register_indication_callback(self._on_gn)
            for p in ports:
                self.btp.register_indication_callback_btp(p, _PortHandler(self, p))
            self.btp.freeze_callbacks()
        else:
            self.gn.register_indication_callback(self._on_gn_only)
        self.lat, self.lon = lat, lon
        if refresh:
            self.refresh()

    def _on_gn(self, ind):
        self.gn_indications.append(ind)
        self.btp.btp_data_indication(ind)

    def _on_gn_only(self, ind):
        self.gn_indications.append(ind)

    def refresh(self, lat=None, lon=None, speed=0.0, track=0.0):
        if lat is not None:
            self.lat = lat
        if lon is not None:
            self.lon = lon
        self.gn.refresh_ego_position_vector(
            {"lat": self.lat, "lon": self.lon, "speed": speed, "track": track, "time": iso(self.net.now)})


class _PortHandler:
    """Picklable/deep-copyable BTP port handler."""

    def __init__(self, station, port):
        self.station = station
        self.port = port

    def __call__(self, ind):
        self.station.btp_indications.append((self.port, ind))


class Net(World):
    """Stations + ether.  ``links[(a, b)]`` true means b hears a.  Frames are queued per link."""

    def __init__(self, now=BASE_TIME, auto_deliver=False):
        super().__init__(now)
        self.stations: dict[str, Station] = {}
        self.links: set[tuple[str, str]] = set()
        self.queues: dict[tuple[str, str], list[bytes]] = {}
        self.sent: list[tuple[str, bytes]] = []     # every frame handed to a link layer, in order
        self.auto_deliver = auto_deliver
        self.errors: list = []

    def add(self, name, mid, **kw) -> Station:
        with self:
            s = Station(self, name, mid, **kw)
        self.stations[name] = s
        return s

    def connect_all(self):
        for a in self.stations:
            for b in self.stations:
                if a != b:
                    self.links.add((a, b))

    def connect(self, a, b, both=True):
        self.links.add((a, b))
        if both:
            self.links.add((b, a))

    def on_send(self, src, frame):
        self.sent.append((src, frame))
        for (a, b) in sorted(self.links):
            if a == src:
                self.queues.setdefault((a, b), []).append(frame)

    def pending_links(self):
        return sorted(k for k, q in self.queues.items() if q)

    def deliver(self, link):
        """Deliver the oldest frame queued on link (a, b) to b's receive callback."""
        frame = self.queues[link].pop(0)
        with self:
            self.stations[link[1]].ll.receive_callback(frame)
        return frame

    def inject(self, dst, frame):
        with self:
            self.stations[dst].ll.receive_callback(frame)

    def quiesce(self, max_steps=10000, fire_timers=True):
        """Default environment: deliver oldest frames first, then fire earliest timer; until nothing is left."""
        n = 0
        while n < max_steps:
            pl = self.pending_links()
            if pl:
                self.deliver(pl[0])
            else:
                pt = self.pending_timers() if fire_timers else []
                if not pt:
                    return n
                self.fire(pt[0])
            n += 1
        raise RuntimeError("no quiescence")

    def call(self, fn, *a, **k):
        with self:
            return fn(*a, **k)


share_frozen_dataclasses()
