"""Full station: real RawLinkLayer receive loop over a scripted socket + GN + BTP + CA/DEN/VRU services (+LDM)."""
from __future__ import annotations

import copy
import sys
import types

from mc.env import World, ENV, BASE_TIME
from mc.worlds import stations as S
from mc.worlds.stations import iso

from flexstack.geonet.router import Router as GNRouter
from flexstack.geonet.mib import MIB
from flexstack.geonet.gn_address import GNAddress, M, ST, MID
from flexstack.btp.router import Router as BTPRouter
from flexstack.linklayer import raw_link_layer as RLL
from flexstack.facilities.ca_basic_service.ca_basic_service import CooperativeAwarenessBasicService
from flexstack.facilities.ca_basic_service.cam_transmission_management import VehicleData
from flexstack.facilities.ca_basic_service.cam_coder import CAMCoder
from flexstack.facilities.decentralized_environmental_notification_service.den_service import DecentralizedEnvironmentalNotificationService
from flexstack.facilities.decentralized_environmental_notification_service.denm_coder import DENMCoder
from flexstack.facilities.vru_awareness_service.vru_awareness_service import VRUAwarenessService
from flexstack.facilities.vru_awareness_service.vam_transmission_management import DeviceDataProvider
from flexstack.facilities.vru_awareness_service.vam_coder import VAMCoder
from flexstack.facilities.local_dynamic_map.factory import LDMFactory
from flexstack.facilities.local_dynamic_map.ldm_classes import Location
from flexstack.applications.road_hazard_signalling_service.emergency_vehicle_approaching_service import EmergencyVehicleApproachingService

# compiled ASN.1 coders are immutable in use: share them between snapshots
for _c in (CAMCoder, DENMCoder, VAMCoder):
    _c.__deepcopy__ = lambda self, memo: self

_CODERS = {}


def coders():
    """one set of compiled coders per process (compilation takes seconds)"""
    if not _CODERS:
        _CODERS["cam"], _CODERS["denm"], _CODERS["vam"] = CAMCoder(), DENMCoder(), VAMCoder()
    return _CODERS


class _CoderFactory:
    """stand-in for the coder classes inside the service modules: returns the per-process singleton"""

    def __init__(self, key):
        self.key = key

    def __call__(self):
        return coders()[self.key]


def install_coder_cache():
    import flexstack.facilities.ca_basic_service.ca_basic_service as m1
    import flexstack.facilities.decentralized_environmental_notification_service.den_service as m2
    import flexstack.facilities.vru_awareness_service.vru_awareness_service as m3
    m1.CAMCoder = _CoderFactory("cam")
    m2.DENMCoder = _CoderFactory("denm")
    m3.VAMCoder = _CoderFactory("vam")


install_coder_cache()


class FakeSock:
    def __init__(self, *a):
        self.script = []
        self.sent = []
        self.bound = None
        self.consumed = 0

    def bind(self, addr):
        self.bound = addr

    def recv(self, n):
        if not self.script:
            raise OSError("end of script")
        self.consumed += 1
        return self.script.pop(0)[:n]

    def send(self, data):
        self.sent.append(bytes(data))
        return len(data)

    def close(self):
        pass


class FakeSocketModule(types.ModuleType):
    AF_PACKET, SOCK_RAW = 17, 3

    def __init__(self):
        super().__init__("fake_socket")
        self.last = None

    def htons(self, x):
        return ((x & 0xFF) << 8) | (x >> 8)

    def socket(self, *a):
        self.last = FakeSock(*a)
        return self.last


class RecordingCallback:
    def __init__(self, log, port, inner):
        self.log, self.port, self.inner = log, port, inner

    def __call__(self, ind):
        rec = [self.port, bytes(ind.data), None]
        self.log.append(rec)
        try:
            return self.inner(ind)
        except Exception as e:  # noqa: BLE001
            rec[2] = type(e).__name__
            raise


class FullStation(World):
    """One complete station.  ``raw=True``: real RawLinkLayer over a scripted socket; else in-memory capture."""

    def __init__(self, mac: bytes, station_id: int, lat=41.0, lon=2.0, with_ldm=True, raw=True, now=BASE_TIME, st=ST.PASSENGER_CAR,
                 sign_service=None, verify_service=None, mib_kw=None):
        super().__init__(now)
        self.mac = mac
        self.lat, self.lon = lat, lon
        self.handler_log = []
        self.sent = []
        with self:
            self.addr = GNAddress(m=M.GN_UNICAST, st=st, mid=MID(mac))
            kw = dict(itsGnLocalGnAddr=self.addr, itsGnBeaconServiceRetransmitTimer=0)
            kw.update(mib_kw or {})
            self.mib = MIB(**kw)
            self.gn = GNRouter(self.mib, sign_service=sign_service, verify_service=verify_service)
            self.btp = BTPRouter(self.gn)
            # record every facility handler invocation: wrap the callbacks as they are registered (public API only)
            _real_register = self.btp.register_indication_callback_btp

            def _recording_register(port, callback, _reg=_real_register, _log=self.handler_log):
                return _reg(port=port, callback=RecordingCallback(_log, port, callback))
            self.btp.register_indication_callback_btp = _recording_register
            self.gn.register_indication_callback(self.btp.btp_data_indication)
            self.ldm = None
            if with_ldm:
                loc = Location.initializer(latitude=int(lat * 1e7), longitude=int(lon * 1e7))
                self.ldm = LDMFactory().create_ldm(loc, ldm_maintenance_type="Reactive", ldm_service_type="Reactive",
                                                   ldm_database_type="Dictionary")
            vd = VehicleData(station_id=station_id, station_type=5, drive_direction="forward",
                             vehicle_length={"vehicleLengthValue": 1023, "vehicleLengthConfidenceIndication": "unavailable"},
                             vehicle_width=62)
            self.ca = CooperativeAwarenessBasicService(btp_router=self.btp, vehicle_data=vd, ldm=self.ldm)
            self.vru = VRUAwarenessService(btp_router=self.btp, device_data_provider=DeviceDataProvider(station_id=station_id, station_type=1),
                                           ldm=self.ldm)
            self.den = DecentralizedEnvironmentalNotificationService(btp_router=self.btp, vehicle_data=vd, ldm=self.ldm)
            del self.btp.register_indication_callback_btp
            self.btp.freeze_callbacks()
            self.sock = None
            self.rx_thread = None
            if raw:
                fake = FakeSocketModule()
                real = RLL.socket
                RLL.socket = fake
                try:
                    n0 = len(self.threads)
                    self.ll = RLL.RawLinkLayer("lo", mac, receive_callback=self.gn.gn_data_indicate)
                finally:
                    RLL.socket = real
                self.sock = fake.last
                self.rx_thread = self.threads[n0]
            else:
                self.ll = _Capture(self)
            self.gn.link_layer = self.ll
            self.gn.refresh_ego_position_vector(self.tpv())

    def tpv(self, speed=1.0, track=10.0):
        return {"lat": self.lat, "lon": self.lon, "speed": speed, "track": track, "time": iso(self.now), "alt": 30.0,
                "epx": 1.0, "epy": 1.0, "epv": 2.0, "eps": 0.1, "epd": 1.0, "climb": 0.0, "mode": 3}

    def run_script(self, frames):
        """feed ethernet frames through the real receive loop; returns (consumed, escaped exception or None)"""
        self.sock.script = list(frames)
        self.sock.consumed = 0
        exc = None
        with self:
            try:
                self.rx_thread.target(*self.rx_thread.args, **self.rx_thread.kwargs)
            except Exception as e:  # noqa: BLE001
                exc = e
        return self.sock.consumed, exc

    def emitted(self):
        return list(self.sock.sent) if self.sock is not None else list(self.sent)


class _Capture:
    def __init__(self, st):
        self.st = st

    def send(self, packet):
        self.st.sent.append(bytes(packet))


def ether(dst: bytes, src: bytes, payload: bytes) -> bytes:
    return dst + src + b"\x89\x47" + payload


BCAST = b"\xff" * 6


def capture_facility_frames(mac=b"\x02\x00\x00\x00\x00\x0a", station_id=4711, lat=41.0003, lon=2.0002, now=BASE_TIME, **kw):
    """Real CAM, DENM and VAM frames (GN packets) produced by a complete sender station."""
    s = FullStation(mac, station_id, lat=lat, lon=lon, with_ldm=False, raw=False, now=now, **kw)
    out = {}
    with s:
        # CAM: start the service, give it a position, let T_CheckCamGen fire
        s.ca.start()
        s.ca.cam_transmission_management.location_service_callback(s.tpv())
    for _ in range(30):
        if s.sent:
            break
        pt = s.pending_timers()
        if not pt:
            break
        s.fire(pt[0])
        with s:
            s.ca.cam_transmission_management.location_service_callback(s.tpv())
    out["cam"] = s.sent[0] if s.sent else None
    with s:
        s.ca.stop()
    n = len(s.sent)
    with s:
        s.vru.vam_transmission_management.location_service_callback(s.tpv())
    out["vam"] = s.sent[n] if len(s.sent) > n else None
    n = len(s.sent)
    with s:
        ev = EmergencyVehicleApproachingService(den_service=s.den, duration=300)
        nt = len(s.threads)
        ev.trigger_denm_sending(s.tpv())
        for t in s.threads[nt:]:
            t.run_now()
    out["denm"] = s.sent[n] if len(s.sent) > n else None
    n2 = len(s.sent)
    with s:
        nt = len(s.threads)
        ev.trigger_denm_sending(s.tpv())
        for t in s.threads[nt:]:
            t.run_now()
    out["denm2"] = s.sent[n2] if len(s.sent) > n2 else None      # a second DENM (next GN sequence number)
    out["denm_all"] = s.sent[n:]
    return out, s
