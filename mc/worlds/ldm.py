"""LDM worlds: one real Local Dynamic Map facility (IF.LDM.3 / IF.LDM.4) on the virtual clock.

`LdmWorld` builds the LDM through the real factory (Dictionary back-end) or, for TinyDB, mirrors the factory with a
database file in a caller-supplied scratch directory (the factory's own `TinyDB()` would write into the cwd).
Every method is a thin wrapper around ONE real interface call and returns plain observations (ints, tuples of dicts,
or ("EXC", type, text) when the real code raised) so that models can be written without touching FlexStack types.
"""
from __future__ import annotations

import json
import os

from mc.env import World

from flexstack.facilities.local_dynamic_map.factory import LDMFactory
from flexstack.facilities.local_dynamic_map.ldm_facility import LDMFacility
from flexstack.facilities.local_dynamic_map.ldm_maintenance_reactive import LDMMaintenanceReactive
from flexstack.facilities.local_dynamic_map.ldm_service_reactive import LDMServiceReactive
from flexstack.facilities.local_dynamic_map.tinydb_database import TinyDB
from flexstack.facilities.local_dynamic_map import ldm_classes as C

ITS_EPOCH = 1072915200
LEAP = 5

APP = {"DENM": 1, "CAM": 2, "CPM": 14, "VAM": 16, "BAD": 99}
TYPE_KEY = {1: "denm", 2: "cam", 14: "cpm", 16: "vam"}

# the LDM's own reference position (Barcelona), altitude 120.00 m
LDM_LAT, LDM_LON, LDM_ALT = 413870000, 21120000, 12000
# location classes of added objects: offset (lat, lon, alt) in 1e-7 deg / 0.01 m, and whether the class is inside the
# LDM's area of maintenance (relevance distance "lessThan1000m", same altitude)
LOCS = {
    "own": dict(d=(0, 0, 0), inside=True),           # exactly the LDM's own position (the station's own CAM)
    "ownell": dict(d=(0, 0, 0), inside=True, ell=(7, 3, 450)),   # same, with a non-trivial confidence ellipse
    "near": dict(d=(9000, 0, 0), inside=True),       # ~100 m north
    "far": dict(d=(5000000, 0, 0), inside=False),    # ~55 km north: outside the area of maintenance
}


def _module_constant(module, name, default):
    try:
        import importlib
        return float(getattr(importlib.import_module("flexstack.facilities.local_dynamic_map." + module), name))
    except Exception:  # noqa: BLE001
        return default


TRASH_INTERVAL = _module_constant("ldm_maintenance_reactive", "TRASH_COLLECTION_INTERVAL", 1.0)
ATTEND_INTERVAL = _module_constant("ldm_service_reactive", "ATTEND_SUBSCRIPTIONS_INTERVAL", 0.5)


def bounded_digest(obj, depth=6, _seen=None):
    """Deterministic, bounded structural digest for fall-back projections: never follows callables (a subscription
    callback leads into the harness world), harness objects (module mc.*), worlds, loggers, locks or modules; cuts at
    `depth`; dict/set members are sorted by their own digest."""
    import enum
    import logging
    import types
    if obj is None or isinstance(obj, (bool, int, float, str, bytes)):
        return obj
    if isinstance(obj, enum.Enum):
        return ("enum", type(obj).__name__, obj.name)
    mod = getattr(type(obj), "__module__", "") or ""
    if (isinstance(obj, (World, logging.Logger, logging.Handler, types.ModuleType, type)) or callable(obj)
            or mod.startswith("mc.") or mod in ("_thread", "threading")):
        return ("skip", type(obj).__name__)
    if depth <= 0:
        return ("cut", type(obj).__name__)
    _seen = _seen or ()
    if id(obj) in _seen:
        return ("cycle", type(obj).__name__)
    _seen = _seen + (id(obj),)
    if isinstance(obj, (list, tuple)):
        return tuple(bounded_digest(x, depth - 1, _seen) for x in obj)
    if isinstance(obj, (set, frozenset)):
        return ("set",) + tuple(sorted(repr(bounded_digest(x, depth - 1, _seen)) for x in obj))
    if isinstance(obj, dict):
        return ("dict",) + tuple(sorted((repr(bounded_digest(k, depth - 1, _seen)), repr(bounded_digest(v, depth - 1, _seen)))
                                        for k, v in obj.items()))
    d = getattr(obj, "__dict__", None)
    if d is None:
        slots = getattr(type(obj), "__slots__", ()) or ()
        d = {k: getattr(obj, k, None) for k in slots}
    return (type(obj).__name__,) + tuple((k, bounded_digest(v, depth - 1, _seen)) for k, v in sorted(d.items()))


def its_ms(unix_s: float) -> int:
    """ITS timestamp (ms since 2004-01-01 incl. leap seconds) of a unix time truncated to whole seconds."""
    return (int(unix_s) - ITS_EPOCH + LEAP) * 1000


# ----------------------------------------------------------------------------------------------------------------
# message pool (shapes follow the dictionaries the CA / DEN / VRU services hand to the LDM)
# ----------------------------------------------------------------------------------------------------------------
def _refpos(lat, lon):
    return {"latitude": lat, "longitude": lon,
            "positionConfidenceEllipse": {"semiMajorAxisLength": 4095, "semiMinorAxisLength": 4095, "semiMajorAxisOrientation": 3601},
            "altitude": {"altitudeValue": 12000, "altitudeConfidence": "unavailable"}}


def cam(station=1001, stype=5, gdt=100, speed=500, lf=False, lf_bytes=True):
    msg = {
        "header": {"protocolVersion": 2, "messageId": 2, "stationId": station},
        "cam": {"generationDeltaTime": gdt, "camParameters": {
            "basicContainer": {"stationType": stype, "referencePosition": _refpos(LDM_LAT + 9000, LDM_LON)},
            "highFrequencyContainer": ("basicVehicleContainerHighFrequency", {
                "heading": {"headingValue": 900, "headingConfidence": 127},
                "speed": {"speedValue": speed, "speedConfidence": 127},
                "driveDirection": "forward",
                "vehicleLength": {"vehicleLengthValue": 42, "vehicleLengthConfidenceIndication": "unavailable"},
                "vehicleWidth": 18,
                "longitudinalAcceleration": {"value": 0, "confidence": 102},
                "curvature": {"curvatureValue": 0, "curvatureConfidence": "unavailable"},
                "curvatureCalculationMode": "unavailable",
                "yawRate": {"yawRateValue": 0, "yawRateConfidence": "unavailable"}}),
        }},
    }
    if lf:
        msg["cam"]["camParameters"]["lowFrequencyContainer"] = ("basicVehicleContainerLowFrequency", {
            "vehicleRole": "default", "exteriorLights": (b"\x80", 8) if lf_bytes else [1, 0, 0, 0, 0, 0, 0, 0], "pathHistory": []})
    return msg


def denm(station=2001, seq=1, stype=15, situation=True, quality=3, lane=None, temperature=None):
    msg = {
        "header": {"protocolVersion": 2, "messageId": 1, "stationId": station},
        "denm": {"management": {
            "actionId": {"originatingStationId": station, "sequenceNumber": seq},
            "detectionTime": 600000000000, "referenceTime": 600000000000, "termination": "isCancellation",
            "eventPosition": {"latitude": LDM_LAT + 9000, "longitude": LDM_LON,
                              "positionConfidenceEllipse": {"semiMajorConfidence": 4095, "semiMinorConfidence": 4095, "semiMajorOrientation": 3601},
                              "altitude": {"altitudeValue": 12000, "altitudeConfidence": "unavailable"}},
            "relevanceDistance": "lessThan50m", "relevanceTrafficDirection": "allTrafficDirections",
            "validityDuration": 600, "TransmissionInterval": 100, "stationType": stype}},
    }
    if situation:
        msg["denm"]["situation"] = {"informationQuality": quality, "eventType": {"ccAndScc": ("accident2", 0)}}
    if lane is not None:      # a la carte container: signed attributes with meaningful 0 (LanePosition -1..14, Temperature -60..67)
        msg["denm"]["alacarte"] = {"lanePosition": lane, "externalTemperature": temperature}
    return msg


def vam(station=3001, stype=1, gdt=70, speed=120):
    return {
        "header": {"protocolVersion": 3, "messageId": 16, "stationId": station},
        "vam": {"generationDeltaTime": gdt, "vamParameters": {
            "basicContainer": {"stationType": stype, "referencePosition": _refpos(LDM_LAT + 9000, LDM_LON)},
            "vruHighFrequencyContainer": {"heading": {"value": 900, "confidence": 127},
                                          "speed": {"speedValue": speed, "speedConfidence": 127},
                                          "longitudinalAcceleration": {"longitudinalAccelerationValue": 0, "longitudinalAccelerationConfidence": 102}},
        }},
    }


def cpm(station=4001):
    return {"header": {"protocolVersion": 2, "messageId": 14, "stationId": station},
            "cpm": {"generationDeltaTime": 9, "cpmParameters": {"managementContainer": {"stationType": 15}}}}


MSGS = {
    "camA": lambda: cam(1001, 5, 100, 500),
    "camB": lambda: cam(1001, 5, 300, 650),          # a later CAM of the same station (update payload)
    "camC": lambda: cam(1002, 0, 0, 0),               # station type unknown(0), generationDeltaTime 0, standing: falsy-but-present values
    "camL": lambda: cam(1002, 6, 50, 0, lf=True),    # with low-frequency container (CHOICE tuple + BIT STRING bytes)
    "denmA": lambda: denm(2001, 1, 15, True, lane=-1, temperature=-5),
    "denmB": lambda: denm(2002, 2, 5, False, lane=0, temperature=0),
    "vamA": lambda: vam(3001, 1),
    "vamB": lambda: vam(3002, 1, gdt=90, speed=200),   # faster and higher id than vamA (speed 120): two-key orders disagree between keys
    "cpmA": lambda: cpm(4001),
}


def msg_type(msg) -> int | None:
    """Message type id of a message dictionary (by its top-level container key)."""
    if not isinstance(msg, dict):
        return None
    for tid, key in TYPE_KEY.items():
        if key in msg:
            return tid
    return None


# ----------------------------------------------------------------------------------------------------------------
# canonical keys
# ----------------------------------------------------------------------------------------------------------------
def ckey(obj, strict=True):
    """Hashable canonical form. strict: tuple and list are different (Python equality); otherwise JSON equality."""
    if isinstance(obj, dict):
        return ("d",) + tuple(sorted((str(k), ckey(v, strict)) for k, v in obj.items()))
    if isinstance(obj, tuple):
        return ("t" if strict else "l",) + tuple(ckey(v, strict) for v in obj)
    if isinstance(obj, list):
        return ("l",) + tuple(ckey(v, strict) for v in obj)
    if isinstance(obj, (bytes, bytearray)):
        return ("b", bytes(obj).hex())
    if isinstance(obj, bool) or obj is None or isinstance(obj, (int, float, str)):
        if isinstance(obj, int) and not isinstance(obj, bool):
            return int(obj)
        return obj
    return ("o", type(obj).__name__, repr(obj))


def jtext(obj) -> str:
    def d(o):
        if isinstance(o, (bytes, bytearray)):
            return {"__bytes__": bytes(o).hex()}
        return repr(o)
    return json.dumps(obj, sort_keys=True, default=d)


def exc_obs(e: BaseException):
    return ("EXC", type(e).__name__, str(e)[:160])


def is_exc(o) -> bool:
    return isinstance(o, tuple) and len(o) == 3 and o[0] == "EXC"


class AttendProbe:
    """Counts calls of LDMService.attend_subscriptions on ONE service instance (harness-side, no source change)."""

    def __init__(self, service):
        self.service = service
        self.count = 0

    def __call__(self, *a, **k):
        self.count += 1
        return type(self.service).attend_subscriptions(self.service, *a, **k)


class TrashProbe:
    """Counts calls of LDMMaintenance.collect_trash on ONE maintenance instance (explicit and reactive runs)."""

    def __init__(self, maintenance):
        self.maintenance = maintenance
        self.count = 0

    def __call__(self, *a, **k):
        self.count += 1
        return type(self.maintenance).collect_trash(self.maintenance, *a, **k)


class Recorder:
    """Subscription callback: appends (key, virtual time, result code, records) to the shared log."""

    def __init__(self, log, key, world):
        self.log = log
        self.key = key
        self.world = world

    def __call__(self, resp):
        self.log.append((self.key, self.world.now, int(resp.result), tuple(resp.data_objects), resp.application_id))


class LdmWorld(World):
    def __init__(self, database="Dictionary", db_dir=None, db_name=None, probe_attend=False, probe_trash=False):
        super().__init__()
        self.database = database
        self.db_file = None
        self.calls = []          # subscription callback log
        self.n_subs = 0
        self.attend_probe = None
        self.reactive_attended = self.reactive_collected = None
        with self:
            self.area = C.Location.initializer(latitude=LDM_LAT, longitude=LDM_LON, altitude_value=LDM_ALT)
            if database == "Dictionary":
                self.ldm = LDMFactory().create_ldm(self.area, "Reactive", "Reactive", "Dictionary")
            else:
                db = TinyDB(database_name=db_name or "ldm.json", database_path=db_dir)
                self.db_file = os.path.join(db_dir, db_name or "ldm.json")
                maint = LDMMaintenanceReactive(self.area, db)
                self.ldm = LDMFacility(maint, LDMServiceReactive(maint))
        # time of the last reactive attendance / collection, as *observed* through the probes (both reactive timers start
        # when the LDM is built); used by the canonical projections instead of the implementation's private timestamps
        self.last_reactive_attend = self.now
        self.last_reactive_trash = self.now
        self.trash_probe = None
        if probe_attend:
            self.attend_probe = self._install(self.ldm.ldm_service, "attend_subscriptions", AttendProbe)
        if probe_trash:
            self.trash_probe = self._install(self.ldm.ldm_maintenance, "collect_trash", TrashProbe)

    @staticmethod
    def _install(target, name, probe_cls):
        """Shadow a public method by a counting wrapper on the instance; None if that is not possible (method renamed,
        __slots__ ...) - the checks then work without knowing when the routine ran."""
        try:
            if not callable(getattr(type(target), name, None)):
                return None
            probe = probe_cls(target)
            setattr(target, name, probe)
            return probe if getattr(target, name) is probe else None
        except Exception:  # noqa: BLE001
            return None

    # -- helpers ----------------------------------------------------------------------------------------------
    def close(self):
        if self.database != "Dictionary":
            try:
                self.ldm.ldm_maintenance.data_containers.database.close()
            except Exception:  # noqa: BLE001 - handle kept under another name: close whatever tinydb handle the back-end holds
                try:
                    import tinydb
                    for v in vars(self.ldm.ldm_maintenance.data_containers).values():
                        if isinstance(v, tinydb.TinyDB):
                            v.close()
                except Exception:  # noqa: BLE001
                    pass
            try:
                os.remove(self.db_file)
            except OSError:
                pass

    def location(self, loc: str):
        spec = LOCS[loc]
        dlat, dlon, dalt = spec["d"]
        if "ell" in spec:
            a, b, o = spec["ell"]
            return C.Location.initializer(latitude=LDM_LAT + dlat, longitude=LDM_LON + dlon, altitude_value=LDM_ALT + dalt,
                                          semi_major_confidence=a, semi_minor_confidence=b, semi_major_orientation=o,
                                          radius=0, relevance_distance=1)
        return C.Location.location_builder_circle(latitude=LDM_LAT + dlat, longitude=LDM_LON + dlon, altitude=LDM_ALT + dalt, radius=0)

    def _do(self, fn, *a):
        with self:
            try:
                return fn(*a)
            except Exception as e:  # noqa: BLE001 - an exception escaping the interface is an observation
                return exc_obs(e)

    # -- IF.LDM.3 ---------------------------------------------------------------------------------------------
    def reg_provider(self, app, perms=None):
        perms = (app,) if perms is None else tuple(perms)
        r = self._do(self.ldm.if_ldm_3.register_data_provider, C.RegisterDataProviderReq(app, perms, C.TimeValidity(5)))
        return r if is_exc(r) else int(r.result)

    def dereg_provider(self, app):
        r = self._do(self.ldm.if_ldm_3.deregister_data_provider, C.DeregisterDataProviderReq(app))
        return r if is_exc(r) else int(r.result)

    def add(self, app, msg, validity, loc="near", ts=None):
        ts = its_ms(self.now) if ts is None else ts
        req = C.AddDataProviderReq(app, C.TimestampIts(ts), self.location(loc), msg, C.TimeValidity(validity))
        a0 = self.attend_probe.count if self.attend_probe else None
        t0 = self.trash_probe.count if self.trash_probe else None
        r = self._do(self.ldm.if_ldm_3.add_provider_data, req)
        self.reactive_attended = None if a0 is None else self.attend_probe.count > a0
        self.reactive_collected = None if t0 is None else self.trash_probe.count > t0
        if self.reactive_attended:
            self.last_reactive_attend = self.now
        if self.reactive_collected:
            self.last_reactive_trash = self.now
        return r if is_exc(r) else r.data_object_id

    def update(self, app, oid, msg, loc="near"):
        req = C.UpdateDataProviderReq(app, oid, C.TimestampIts(its_ms(self.now)), self.location(loc), msg, C.TimeValidity(5))
        r = self._do(self.ldm.if_ldm_3.update_provider_data, req)
        return r if is_exc(r) else int(r.result)

    def delete(self, app, oid):
        r = self._do(self.ldm.if_ldm_3.delete_provider_data, C.DeleteDataProviderReq(app, oid, C.TimestampIts(its_ms(self.now))))
        return r if is_exc(r) else int(r.result)

    # -- IF.LDM.4 ---------------------------------------------------------------------------------------------
    def reg_consumer(self, app, perms=None):
        perms = (app,) if perms is None else tuple(perms)
        r = self._do(self.ldm.if_ldm_4.register_data_consumer, C.RegisterDataConsumerReq(app, perms, None))
        return r if is_exc(r) else int(r.result)

    def dereg_consumer(self, app):
        r = self._do(self.ldm.if_ldm_4.deregister_data_consumer, C.DeregisterDataConsumerReq(app))
        return r if is_exc(r) else int(r.ack)

    def request(self, app, types, order=None, filt=None, priority=None):
        r = self._do(self.ldm.if_ldm_4.request_data_objects, C.RequestDataObjectsReq(app, tuple(types), priority, order, filt))
        return r if is_exc(r) else (int(r.result), tuple(r.data_objects))

    def subscribe(self, app, types, key, priority=None, filt=None, notify=None, multiplicity=None, order=None):
        cb = Recorder(self.calls, key, self)
        req = C.SubscribeDataobjectsReq(app, tuple(types), priority, filt, notify, multiplicity, order)
        r = self._do(self.ldm.if_ldm_4.subscribe_data_consumer, req, cb)
        return r if is_exc(r) else (int(r.result), r.subscription_id)

    def unsubscribe(self, app, sub_id):
        r = self._do(self.ldm.if_ldm_4.unsubscribe_data_consumer, C.UnsubscribeDataConsumerReq(app, sub_id))
        return r if is_exc(r) else int(r.result)

    # -- maintenance / attendance (what the periodic threads do) -------------------------------------------------
    def can(self, what):
        """Is the public routine available? ('maintenance' = LDMMaintenance.collect_trash, 'attend' = LDMService.attend_subscriptions)"""
        obj, name = {"maintenance": (self.ldm.ldm_maintenance, "collect_trash"), "attend": (self.ldm.ldm_service, "attend_subscriptions")}[what]
        return callable(getattr(obj, name, None))

    def maintenance(self):
        return self._do(lambda: self.ldm.ldm_maintenance.collect_trash())

    def attend(self):
        return self._do(lambda: self.ldm.ldm_service.attend_subscriptions())

    def stored(self):
        """All stored records through the maintenance component's public accessor (None if unavailable)."""
        try:
            with self:
                return tuple(self.ldm.ldm_maintenance.get_all_data_containers())
        except Exception:  # noqa: BLE001
            return None

    def subscription_table(self):
        """[(callback key, application id, request digest, last notification ITS ms | None)] from the documented attributes
        LDMService.subscriptions / last_checked_subscriptions_time; None if they are not available."""
        try:
            svc = self.ldm.ldm_service
            out = []
            for sub in list(svc.subscriptions):
                rq = sub.subscription_request
                last = svc.last_checked_subscriptions_time.get(sub)
                out.append((getattr(sub.callback, "key", None), rq.application_id, repr(bounded_digest(rq)),
                            None if last is None else int(last.timestamp_its)))
            return out
        except Exception:  # noqa: BLE001
            return None

    # -- auxiliary observations ------------------------------------------------------------------------------
    def registries(self):
        """(providers, consumers) through the service's public accessors, or None if they do not exist."""
        try:
            with self:
                return (frozenset(self.ldm.ldm_service.get_data_provider_its_aid()),
                        frozenset(self.ldm.ldm_service.get_data_consumer_its_aid()))
        except Exception:  # noqa: BLE001
            return None

    def get_by_id(self, oid):
        """Record stored under an identifier through LDMMaintenance.get_provider_data ("ABSENT" hook missing)."""
        fn = getattr(self.ldm.ldm_maintenance, "get_provider_data", None)
        if fn is None:
            return "NOHOOK"
        return self._do(fn, oid)


# ----------------------------------------------------------------------------------------------------------------
# exploration driver shared by C12/C13/C14: all parts of a check in ONE process pool
# ----------------------------------------------------------------------------------------------------------------
def _explore_job(args):
    from mc import explore as X
    factory, fargs, pname, prefix, depth, kw = args
    return pname, X.bfs(factory(*fargs), depth, prefix=prefix, **kw)


def _prefixes(model, depth):
    """Histories of the distinct states at `depth` (like mc.explore._prefixes, but a transition that the model cuts -
    `_cut` in a violation record - or that raises is not continued, exactly as in `bfs`)."""
    from collections import deque
    from mc import explore as X
    seen = {X._h(model.canon(model.init()))}
    frontier = deque([(model.init(), ())])
    out = []
    while frontier:
        w, hist = frontier.popleft()
        if len(hist) == depth:
            out.append(hist)
            continue
        for ev in model.enabled(w):
            nxt = X.snapshot(model, w)
            try:
                obs = model.apply(nxt, ev)
            except Exception:  # noqa: BLE001
                continue
            if any(rec.get("_cut") for rec in (model.check(nxt, ev, obs, hist + (ev,)) or [])):
                continue
            k = X._h(model.canon(nxt))
            if k in seen:
                continue
            seen.add(k)
            frontier.append((nxt, hist + (ev,)))
    return out


def explore_parts(factory, plist, split, procs=16, **kw):
    """plist: [dict(name=..., fargs=(...), depth=n)].  The tree below every distinct state at depth `split` of every
    part is one pool job (`mc.explore.bfs(prefix=...)`); states are de-duplicated globally up to the split depth and
    inside each job below it (duplicates across jobs cost time, never coverage).  Returns {name: merged Result}."""
    import multiprocessing as mp
    from mc import explore as X
    kw.setdefault("xcheck_every", 97)
    results, jobs = {}, []
    for p in plist:
        model = factory(*p["fargs"])
        sd = min(split, p["depth"])
        head = X.bfs(model, sd, **kw)
        head.complete, head.cap_hit = True, None
        results[p["name"]] = head
        if p["depth"] > sd:
            jobs += [(factory, p["fargs"], p["name"], pre, p["depth"], kw) for pre in _prefixes(model, sd)]
    jobs.sort(key=lambda j: (j[2], repr(j[3])))
    if jobs:
        with mp.Pool(procs) as pool:
            for pname, r in pool.imap_unordered(_explore_job, jobs, chunksize=1):
                results[pname].merge(r)
    return results
