"""VRU worlds for C18.

World A  ``ManagerWorld``: one real ``VBSClusteringManager`` (default ``time_fn`` = ``time.time`` bound at import,
         i.e. the E0 shim -> clock of the world being stepped) on a 50 ms virtual-clock lattice.
World B  ``LoopWorld``: N complete ``VRUAwarenessService`` objects (real VAMTransmissionManagement +
         VAMReceptionManagement + VBSClusteringManager + the real compiled VAM coder) on an in-memory BTP loop with
         one FIFO queue per directed link; the explorer chooses the delivery order.

Environment only: nothing in here re-implements FlexStack behaviour.  The compiled ASN.1 coder (1.2 s to build) is
built once per process and shared by every service and every deepcopy snapshot (``share()``).

Clock lattice: ``now = BASE + k * 0.05`` is recomputed from the integer tick counter ``k`` (never accumulated), so that
two lattice instants whose distance is one of the durations of vam_constants (0.5, 1, 2, 3, 5, 30 s - all on the
binary grid of doubles around 1.7e9) subtract to *exactly* that duration; ``lattice_selfcheck`` proves this per run.
Boundary cases (``>=`` versus ``>``) are therefore decided by the code under test, not by float noise.
"""
from __future__ import annotations

import copy
import enum

from mc.env import World, BASE_TIME, SeqRLock, SeqLock, ENV
from mc.worlds.stations import iso

from flexstack.facilities.vru_awareness_service import vru_awareness_service as _VS
from flexstack.facilities.vru_awareness_service import vam_constants as VC
from flexstack.facilities.vru_awareness_service.vam_coder import VAMCoder
from flexstack.facilities.vru_awareness_service.vam_transmission_management import DeviceDataProvider, VAMMessage
from flexstack.facilities.vru_awareness_service.vru_clustering import (  # noqa: F401
    VBSClusteringManager, VBSState, ClusterLeaveReason, ClusterBreakupReason,
)
from flexstack.btp.service_access_point import BTPDataIndication

TICK = 0.05
BASE = BASE_TIME


def ticks(seconds: float) -> int:
    return int(round(seconds / TICK))


def lattice_selfcheck(span=4000):
    """All durations used by the clustering code are exact differences on the lattice (harness precondition)."""
    durs = sorted({VC.TIME_CLUSTER_JOIN_NOTIFICATION, VC.TIME_CLUSTER_JOIN_SUCCESS, VC.TIME_CLUSTER_LEAVE_NOTIFICATION,
                   VC.TIME_CLUSTER_BREAKUP_WARNING, VC.TIME_CLUSTER_CONTINUITY, VC.T_GENVAMMAX / 1000.0,
                   VC.TIME_CLUSTER_UNIQUENESS_THRESHOLD})
    for d in durs:
        n = ticks(d)
        if abs(n * TICK - d) > 1e-9:
            raise RuntimeError(f"duration {d} s is not on the 50 ms lattice")
        for k in range(span):
            if (BASE + (k + n) * TICK) - (BASE + k * TICK) != d or (BASE + (k + n - 1) * TICK) - (BASE + k * TICK) >= d:
                raise RuntimeError(f"lattice not exact for duration {d} at tick {k}")
    return durs


class LatticeWorld(World):
    def __init__(self):
        super().__init__(BASE)
        self.k = 0

    def step(self, n: int):
        self.k += int(n)
        self.now = BASE + self.k * TICK

    def age(self, t) -> int | None:
        """Age in ticks of an absolute time stamp taken from the world clock."""
        if t is None:
            return None
        return int(round((self.now - t) / TICK))


# ------------------------------------------------------------------------------------------------
# random draws of the code under test = harness choices that depend on the REQUESTED bounds
# ------------------------------------------------------------------------------------------------
DRAW_MENU = ("lo", "hi", "lo+1", "hi-1", "seen")


def draw_int(choice, a, b, in_use=(), n_prev=0):
    """Answer to ``random.randint(a, b)`` asked by FlexStack.  The menu is symbolic and resolved against the bounds
    the code really asks for, so an off-by-one in either bound is reached: lo = a, hi = b, lo+1, hi-1, seen = first
    draw collides with a value in use inside [a, b] (later draws avoid the values in use), mid / an integer = that
    value clamped into [a, b]."""
    a, b = int(a), int(b)
    if choice == "lo":
        return a
    if choice == "hi":
        return b
    if choice == "lo+1":
        return min(a + 1, b)
    if choice == "hi-1":
        return max(b - 1, a)
    if choice == "seen":
        inside = [v for v in sorted(in_use) if a <= v <= b]
        if inside and n_prev == 0:
            return inside[0]
        v = a + ((b - a) * 3) // 4 + n_prev % 16
        while v in in_use and v < b:
            v += 1
        return min(max(v, a), b)
    v = (a + b) // 2 if choice == "mid" else int(choice)
    return min(max(v, a), b)


def draw_uniform(choice, a, b):
    """Answer to ``random.uniform(a, b)``: the two bounds and the midpoint."""
    if choice in ("lo", "lo+1"):
        return a
    if choice in ("hi", "hi-1"):
        return b
    return (a + b) / 2.0


class Draws:
    """``with Draws(choice, in_use) as d:`` owns ENV.rand_int / ENV.rand_uniform for the calls made inside;
    ``d.asked`` records (kind, a, b, answer)."""

    def __init__(self, choice, in_use=()):
        self.choice = choice
        self.in_use = tuple(in_use)
        self.asked = []

    def _int(self, a, b):
        v = draw_int(self.choice, a, b, self.in_use, len(self.asked))
        self.asked.append(("int", a, b, v))
        return v

    def _uniform(self, a, b):
        v = draw_uniform(self.choice, a, b)
        self.asked.append(("uniform", a, b, v))
        return v

    def __enter__(self):
        self._old = (ENV.rand_int, ENV.rand_uniform)
        ENV.rand_int = staticmethod(self._int)
        ENV.rand_uniform = staticmethod(self._uniform)
        return self

    def __exit__(self, *exc):
        ENV.rand_int = staticmethod(self._old[0])
        ENV.rand_uniform = staticmethod(self._old[1])


# ------------------------------------------------------------------------------------------------
# the real coder, once per process
# ------------------------------------------------------------------------------------------------
_CODER = None


def coder() -> VAMCoder:
    global _CODER
    if _CODER is None:
        _CODER = VAMCoder()
        # VRUAwarenessService() builds its own VAMCoder(); hand it the process-wide instance (same class, same
        # compiled specification - the coder is stateless) instead of recompiling 1.2 s per station per snapshot.
        _VS.VAMCoder = _shared_coder
    return _CODER


def _shared_coder():
    return coder()


# ------------------------------------------------------------------------------------------------
# VAM builders (sender side of the environment)
# ------------------------------------------------------------------------------------------------
LAT0, LON0 = 41.0, 2.0


def pos_of(station_id: int):
    """All stations stand within ~2 m of each other (MAX_CLUSTER_DISTANCE is 5 m)."""
    return LAT0 + (station_id % 7) * 2e-6, LON0 + (station_id % 5) * 2e-6


def cluster_info(cluster_id, cardinality=3, radius=VC.MAX_CLUSTER_DISTANCE, shape="tuple"):
    """VruClusterInformationContainer. shape 'tuple' = what asn1tools wants/returns for CHOICE and BIT STRING,
    shape 'dict' = the hand-built form used by the repository's unit tests (test_vru_clustering._make_vam)."""
    vci = {"clusterId": cluster_id, "clusterCardinalitySize": cardinality}
    if shape == "tuple":
        vci["clusterBoundingBoxShape"] = ("circular", {"radius": radius})
        vci["clusterProfiles"] = (bytes([0x80]), 4)
    else:
        vci["clusterBoundingBoxShape"] = {"circular": {"radius": radius}}
    return {"vruClusterInformation": vci}


def op_join(cluster_id, join_time=12):
    return {"clusterJoinInfo": {"clusterId": cluster_id, "joinTime": join_time}}


def op_leave(cluster_id, reason="notProvided"):
    return {"clusterLeaveInfo": {"clusterId": cluster_id, "clusterLeaveReason": reason}}


def op_breakup(reason, breakup_time=12):
    return {"clusterBreakupInfo": {"clusterBreakupReason": reason, "breakupTime": breakup_time}}


def full_vam(station_id, info=None, op=None, speed=1.0, heading=90.0, gdt=0):
    """A complete, encodable VAM (white VAM of the repository + identity, position, containers)."""
    lat, lon = pos_of(station_id)
    v = VAMMessage.generate_white_vam_static()
    v["header"]["stationId"] = station_id
    v["vam"]["generationDeltaTime"] = gdt
    p = v["vam"]["vamParameters"]
    p["basicContainer"]["stationType"] = 1
    p["basicContainer"]["referencePosition"]["latitude"] = int(round(lat * 1e7))
    p["basicContainer"]["referencePosition"]["longitude"] = int(round(lon * 1e7))
    p["vruHighFrequencyContainer"]["speed"]["speedValue"] = int(round(speed * 100))
    p["vruHighFrequencyContainer"]["heading"]["value"] = int(round(heading * 10))
    if info is not None:
        p["vruClusterInformationContainer"] = info
    if op is not None:
        p["vruClusterOperationContainer"] = op
        p["vruLowFrequencyContainer"] = {"profileAndSubprofile": ("pedestrian", "unavailable")}
    return v


def test_style_vam(station_id, info=None, op=None, speed=1.0, heading=90.0):
    """Minimal decoded-VAM dict shaped like the unit tests build it (same position/kinematics as full_vam)."""
    lat, lon = pos_of(station_id)
    params = {
        "basicContainer": {"referencePosition": {"latitude": int(round(lat * 1e7)), "longitude": int(round(lon * 1e7))}},
        "vruHighFrequencyContainer": {"speed": {"speedValue": int(round(speed * 100))},
                                      "heading": {"value": int(round(heading * 10))}},
    }
    if info is not None:
        params["vruClusterInformationContainer"] = info
    if op is not None:
        params["vruClusterOperationContainer"] = op
    return {"header": {"stationId": station_id}, "vam": {"vamParameters": params}}


_WIRE_CACHE: dict = {}


def through_coder(vam: dict) -> dict:
    """encode -> decode with the repository's real coder (what VAMReceptionManagement hands to the manager)."""
    key = repr(vam)
    hit = _WIRE_CACHE.get(key)
    if hit is None:
        c = coder()
        hit = (c.encode(vam),)
        _WIRE_CACHE[key] = hit
    return coder().decode(hit[0])


def encode(vam: dict) -> bytes:
    return coder().encode(vam)


# ------------------------------------------------------------------------------------------------
# World A
# ------------------------------------------------------------------------------------------------
_ATOMS = (type(None), bool, int, float, str, bytes, type, type(len), type(lambda: 0))


def fast_copy(o):
    """Structural copy of a tree-shaped object graph of FlexStack objects (dicts, lists, sets, tuples, dataclasses and
    plain objects of ``flexstack.*`` classes, enums, the sequential lock); anything else goes through copy.deepcopy.
    Five times cheaper than copy.deepcopy for the clustering manager, which has no aliasing between its parts.
    ``fast_copy_selfcheck`` compares it with copy.deepcopy on a populated manager, and the explorer rebuilds every
    state by replaying its history on a fresh manager and compares the digests (any state leaking between snapshots
    would surface there as a NondeterminismError, never as a verdict)."""
    t = type(o)
    if t in _ATOMS or isinstance(o, enum.Enum):
        return o
    if t is dict:
        return {k: fast_copy(v) for k, v in o.items()}
    if t is list:
        return [fast_copy(x) for x in o]
    if t is tuple:
        return tuple([fast_copy(x) for x in o])
    if t is set:
        return {fast_copy(x) for x in o}
    if t is SeqRLock:
        n = SeqRLock()
        n.count = o.count
        return n
    d = getattr(o, "__dict__", None)
    if d is not None and t.__module__.startswith("flexstack") and "__deepcopy__" not in t.__dict__:
        n = t.__new__(t)
        nd = n.__dict__
        for k, v in d.items():
            nd[k] = fast_copy(v)
        return n
    return copy.deepcopy(o)


def fast_copy_selfcheck(mgr, now):
    a, b = fast_copy(mgr), copy.deepcopy(mgr)
    if struct(a, now) != struct(b, now) or struct(a, now) != struct(mgr, now):
        raise RuntimeError("fast_copy disagrees with copy.deepcopy on the clustering manager")
    for name, v in vars(mgr).items():
        if isinstance(v, (dict, list, set)) and getattr(a, name) is v:
            raise RuntimeError(f"fast_copy shares {name} with the original")


class ManagerWorld(LatticeWorld):
    def __init__(self, own_station_id=10, profile="pedestrian"):
        super().__init__()
        with self:
            self.mgr = VBSClusteringManager(own_station_id=own_station_id, own_vru_profile=profile)
        self.own = own_station_id
        self.flat_dicts = ()     # names of harness-side dict attributes holding immutable values (copied one level deep)

    def __deepcopy__(self, memo):
        """Snapshot = deep copy of the REAL manager + cheap copy of the harness bookkeeping (immutable values that the
        model replaces wholesale, and the flat dicts named in ``flat_dicts``). Fidelity is cross-checked by the
        explorer's replay-versus-snapshot comparison."""
        new = copy.copy(self)
        new.mgr = fast_copy(self.mgr)
        new.timers = []
        new.threads = []
        for name in self.flat_dicts:
            setattr(new, name, dict(getattr(self, name)))
        return new


# ------------------------------------------------------------------------------------------------
# World B
# ------------------------------------------------------------------------------------------------
class LoopBTP:
    """Stand-in for btp.Router: requests are queued per directed link, indications are delivered by the explorer."""

    def __init__(self, world, name):
        self.world = world
        self.name = name
        self.callbacks = {}

    def register_indication_callback_btp(self, port, callback):
        self.callbacks[port] = callback

    def btp_data_request(self, request):
        self.world.on_send(self.name, request)


class LoopWorld(LatticeWorld):
    """N VRU services. ``queues[(src, dst)]`` FIFO of payload bytes; ``emitted`` log of (k, src, bytes)."""

    def __init__(self, names, ids=None):
        super().__init__()
        coder()
        self.names = list(names)
        self.ids = dict(ids or {n: i + 1 for i, n in enumerate(self.names)})
        self.queues = {(a, b): [] for a in self.names for b in self.names if a != b}
        self.emitted = []
        self.ddp = {}
        self.btp = {}
        self.svc = {}
        with self:
            for n in self.names:
                self.ddp[n] = DeviceDataProvider(station_id=self.ids[n], station_type=1)
                self.btp[n] = LoopBTP(self, n)
                self.svc[n] = _VS.VRUAwarenessService(self.btp[n], self.ddp[n], ldm=None, cluster_support=True)

    # -- environment --------------------------------------------------------------------------
    def on_send(self, src, request):
        data = bytes(request.data)
        self.emitted.append((self.k, src, data, int(request.destination_port)))
        for dst in self.names:
            if dst != src:
                self.queues[(src, dst)].append(data)

    def shared(self):
        return [coder()] + list(self.ddp.values())

    def mgr(self, n) -> VBSClusteringManager:
        return self.svc[n].clustering_manager

    def tpv(self, n, speed=1.0, track=90.0):
        lat, lon = pos_of(self.ids[n])
        return {"time": iso(self.now), "lat": lat, "lon": lon, "speed": speed, "track": track,
                "altHAE": 10.0, "epx": 1.0, "epy": 1.0, "epv": 1.0, "epd": 1.0}

    def gps(self, n):
        """One location-service callback on station n; returns the payloads emitted by it."""
        before = len(self.emitted)
        with self:
            self.svc[n].vam_transmission_management.location_service_callback(self.tpv(n))
        return [e[2] for e in self.emitted[before:]]

    def pending(self):
        return [link for link in sorted(self.queues) if self.queues[link]]

    def deliver(self, link, data=None):
        """Deliver the oldest payload of ``link`` (or an injected one) to the receiver's BTP port 2018 callback."""
        src, dst = link
        if data is None:
            data = self.queues[link].pop(0)
        ind = BTPDataIndication(destination_port=2018, length=len(data), data=data)
        with self:
            self.btp[dst].callbacks[2018](ind)
        return data

    def inject(self, dst, data):
        return self.deliver((None, dst), data)


# ------------------------------------------------------------------------------------------------
# bounded structural digest (used only to compare fast_copy with copy.deepcopy; never a canonical state)
# ------------------------------------------------------------------------------------------------
def struct(obj, now, horizon=1e6, _depth=0):
    """Digest of a small object graph: primitives, enums, containers, and the instance dictionaries of ``flexstack.*``
    objects, at most 6 levels deep.  Locks, loggers, callables and foreign objects are skipped BY TYPE (no attribute
    name is known here).  Floats close to ``now`` are time stamps and become ages in ticks."""
    import logging as _logging
    if obj is None or isinstance(obj, (bool, int, str, bytes)):
        return obj
    if isinstance(obj, float):
        if abs(obj - now) < horizon and obj > 1e8:
            return ("age", int(round((now - obj) / TICK)))
        return round(obj, 9)
    if isinstance(obj, enum.Enum):
        return ("enum", obj.name)
    if _depth >= 6:
        return ("deep", type(obj).__name__)
    if isinstance(obj, (list, tuple)):
        return tuple(struct(x, now, horizon, _depth + 1) for x in obj)
    if isinstance(obj, (set, frozenset)):
        return tuple(sorted((struct(x, now, horizon, _depth + 1) for x in obj), key=repr))
    if isinstance(obj, dict):
        return tuple(sorted(((repr(k), struct(v, now, horizon, _depth + 1)) for k, v in obj.items())))
    t = type(obj)
    if callable(obj) or isinstance(obj, (SeqRLock, SeqLock, _logging.Logger)) or not t.__module__.startswith("flexstack"):
        return ("skip", t.__name__)
    d = getattr(obj, "__dict__", None)
    if d is None:
        return ("opaque", t.__name__)
    return (t.__name__,) + tuple((k, struct(v, now, horizon, _depth + 1)) for k, v in sorted(d.items()))


def snapshot(world, shared=()):
    memo = {id(o): o for o in shared}
    return copy.deepcopy(world, memo)
