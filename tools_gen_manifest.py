#!/usr/bin/env python3
"""Generates MANIFEST.json from the table below (kept in one place so it stays valid)."""
import json, os
V = os.path.dirname(os.path.abspath(__file__))
PY = "/venv/bin/python"

CHECKS = {
 "C20": dict(level="exploration", design="3/C20",
   text="Complete enumeration of a finite input space against an independent reference: every integer lifetime request 0..1 200 000 ms (thorough: ..7 000 000) through the real quantiser, all 256 lifetime codes, every MIB default 1..600 s, the lifetime/hop fields of really emitted packets of every transport type (parsed by the reference codec) and all 256x256 (RHL,MHL) pairs at the receiver. Exhaustive over the stated lattice, so a wrong boundary anywhere in it is found, which value-sampled unit tests cannot promise.",
   note="Trusted: CPython, mc/ref/lifetime.py (max over the 256 codes), mc/ref/gn_codec.py (struct-level parser written from EN 302 636-4-1 clause 9).",
   technique="exhaustive finite-domain enumeration of the real code against a reference model (bounded model checking of inputs)"),
 "C06": dict(level="model_checking", design="3/C06",
   text="Explicit-state breadth-first search over event histories of the real router: (1) one real forwarder fed crafted TSB/GBC/GAC/GUC/LS packets (fresh, duplicate, replay; sequence numbers incl. wrap; DPL lengths 1-3; hop limits 0,1,2,3,255 and the full 0..255 grid) in lock-step with a reference duplicate-window/forwarding model, every forwarded frame compared octet for octet; (2) the complete reachable state graph of three real routers in line and mesh under SIMPLE and CBF forwarding with every delivery order and every CBF-timer expiry order, checked for at-most-once delivery/transmission, strictly decreasing hop limit, duplicate cancelling the buffered copy, acyclicity and quiet terminal states (termination of the flood). The graphs of part 2 close, so the result covers every interleaving of those worlds, which no unit test with mocks reaches.",
   note="Trusted: CPython, deepcopy snapshots (cross-checked by replaying histories on fresh objects), RefForwarder model and mc/ref/gn_codec.py. Bounded to <=2 originated packets, 3 stations, depth 5 (7 thorough) for the single-forwarder histories.",
   technique="explicit-state BFS over real objects with reference model in lock-step; complete reachable state graph + cycle detection"),
 "C02": dict(level="exploration", design="3/C02",
   text="Complete enumeration of a declared finite lattice of wire values against an independent struct-level codec: every value of every header field up to 16 bits (with neighbouring fields all-zero and all-one), the bit-pattern classes of the 32/48-bit fields (two's-complement boundaries, walking ones/zeros), all 32 station types, and octet-for-octet comparison of every packet the real router/BTP router originates (beacon, SHB, GBC/GAC x shapes, GUC, LS request/reply; BTP-A/B; both mobility settings; traffic classes; MIB defaults; ego positions in all four hemispheres; sequence numbers incl. wrap) with the reference assembly. Unit tests pin a handful of byte strings at one positive coordinate; this covers every field value class.",
   note="Trusted: CPython, mc/ref/gn_codec.py (written from EN 302 636-4-1 clause 9 / 302 636-5-1 clause 7). Interiors of 32/48-bit fields only by pattern classes. Sequence-number successor follows clause 8.3 (mod 2^16-1).",
   technique="exhaustive finite-domain enumeration of the real codecs and emitted packets against a reference codec"),
 "C08": dict(level="model_checking", design="3/C08",
   text="Explicit-state BFS over histories of the real router's receive path: crafted beacons/SHB/TSB/GBC/GAC/GUC/LS packets from several sources (and from the station's own address) with PV timestamps before, at and after the receiver clock at millisecond resolution, interleaved with clock advances around the entry lifetime, explored once at an ordinary clock value and once 10 s before the 2^32 ms timestamp wrap; after every event get_entry()/get_neighbours() are compared with a reference table (newest PV by serial order, neighbour rules, strict expiry). Plus all ordered pairs of a 32-bit timestamp lattice around 0, 2^31 and 2^32 for irreflexivity, antisymmetry, agreement with real time and the modular difference. The suite uses one patched clock value and never a skewed or wrapping timestamp.",
   note="Trusted: CPython, RefLocT reference (mc/checks/c08.py), reference codec. Depth 4 (5 thorough); sequence numbers unique per source; stale packets from unknown sources may or may not create an entry (left open by the statement).",
   technique="explicit-state BFS over real objects with a reference model in lock-step + exhaustive pair lattice for the timestamp order"),
 "C07": dict(level="exploration", design="3/C07",
   text="Complete enumeration of a declared lattice through the real receive path: 9 area centres (all four hemispheres, equator/prime-meridian neighbourhood, 80 N, across the 180 degree meridian) x circle/rectangle/ellipse x GBC/GAC x semi-axis pairs from 1 m to 65535 m x 8 azimuths x 16 bearings x 8 radius factors around the border; each point is a crafted packet injected into a real router placed at that point, and the delivery decision is compared with an independent tangent-plane implementation of EN 302 931 with azimuth rotation (tolerance band and projection disagreement excluded and counted). Plus area-size control at source and forwarder around the itsGnMaxGeoAreaSize thresholds (1/10/80 km2) and the Annex D selection (area / non-area / discard) observed at a CBF forwarder for ego and sender inside/outside x PAI x rotated shapes.",
   note="Trusted: CPython, mc/ref/geo_area.py, reference codec. The continuous plane between lattice points is not covered; sender = source (link layer does not expose the previous hop).",
   technique="exhaustive finite-lattice enumeration through the real receive path against a reference geometry"),
 "C01": dict(level="model_checking", design="3/C01",
   text="Explicit-state BFS over event histories of three real stations (GeoNetworking + BTP routers on an in-memory ether; A sends, B is addressed, C lies outside the destination area): up to three requests of every transport type (SHB, GBC, GAC, GUC with and without a pending location-service lookup), every delivery order of the pending frames, an unrelated reception at the sender, a destination beacon, location-service timer expiries and an ego-position refresh. After EVERY transition a copy of the world is run to quiescence and every request must have reached exactly the addressed port handler once, byte-identical, in request order, with the sender's position vector, transport type and port information, and nobody else. Plus complete two-station sweeps: ports x BTP-A/B (boundary classes quick, all 65536 thorough), every payload byte value, lengths around the MTU, all 256 traffic classes and hop limits, and a placement lattice of 7x7 positions over both hemispheres x 8 receiver offsets x 3 shapes x SIMPLE/CBF.",
   note="Trusted: CPython, deepcopy snapshots cross-checked by history replay, the delivery oracle in mc/checks/c01.py. Order is judged per transport kind. <=3 requests, depth 5-7 (7-9 thorough). Secured end-to-end delivery is exercised by C03/C05 for the CAM/DENM profiles; other profiles with security on are outside this check (see DESIGN.md).",
   technique="explicit-state BFS over real objects with run-to-quiescence oracle on every state + exhaustive configuration lattices"),
 "C04": dict(level="fault_enumeration", design="3/C04",
   text="Enumeration of declared bad-frame families - all 256 first octets, all 4096 (NH,HT,HST) triples, every truncation length and single-bit flips of 14 valid packet kinds (crafted beacon/SHB/TSB/GBCx3/GAC/GUC/LS packets and REAL CAM/DENM/VAM frames captured from a sender stack), RHL>MHL, all station-type values, zero/oversized areas, all lifetime codes, every truncation and bit flips of the real facility payloads, short arbitrary byte strings, own-MAC and foreign-unicast frames - each inserted at several positions of two valid streams and run through the REAL RawLinkLayer.receive() loop (scripted socket) of a complete station (GN + BTP + CA/DEN/VRU services, with and without LDM), next to a run without the bad frame. A reference parser classifies each frame; for malformed/ignored frames handler invocations, emitted frames, location table and LDM must be identical, for frames with an undecodable facility payload handlers and LDM, for well-formed mutants the loop must stay alive. The cv2x callback loop is driven over a scripted queue as second target. The suite never runs the receive loop at all.",
   note="Trusted: CPython, asn1tools (to classify facility payloads), reference parser mc/ref/gn_codec.py and classify() in mc/checks/c04.py. Secured envelopes are covered by C03's mutation families (exceptions from verify count as not delivered there).",
   technique="exhaustive fault enumeration through the real receive loop with a differential (with/without the bad frame) oracle"),
 "C19": dict(level="model_checking", design="3/C19",
   text="Reactive DCC: the COMPLETE transition graph of the real state machine (every state x every band-boundary representative of both Annex A tables with +-1e-9 neighbours, 0 and 1, for six T_on settings) - every edge moves at most one state, outputs equal the literal Annex A row, every constant input reaches its band within four evaluations. Adaptive DCC: ALL CBR sequences up to length 7 (8 thorough) over the boundary alphabet x 5 parameter sets x local/global, delta compared with the clause 5.4 recurrence in exact rationals and with [delta_min, delta_max]; out-of-range local CBR rejected without trace. Gate keeper: explicit-state BFS over arrivals, delta updates and clock steps (to t_go exactly, +-0.5 ns, -1 us, ...) in lock-step with a B.1/B.2 reference in Fractions: open/closed agreement on every state, admissions >= 25 ms apart, closed <= 1 s, one admission per opening.",
   note="Trusted: CPython, mc/ref/dcc.py (Annex A literals; the A.1 Active-3/Restrictive boundary 0.60 and equations taken from the code's docstrings because the standard text is not available offline), deepcopy snapshots cross-checked by replay. Gate times near small origins (float rounding of B.2 at epoch magnitude exceeds 1 ns).",
   technique="complete transition graph + exhaustive bounded sequence enumeration + explicit-state BFS with reference model in lock-step"),
 "C18": dict(level="model_checking", design="3/C18",
   text="Explicit-state BFS (level-synchronous, globally de-duplicated, every state replay-checked against its snapshot) over event histories of the REAL VBSClusteringManager with the alphabet of the quantifier - role on/off, try-create (nearby VRUs present/absent, cluster-id choice), initiate-join(advertised/0/unknown), cancel-join, leave(reason), break-up(reason), received VAMs (plain/cluster info/join/leave/break-up; from leader/others; as hand-built dicts AND as real coder output), update, clock steps 0.05..3 s - to depth 6 (8 thorough) plus a deeper continuation below the first passive state. Invariants on every state (leader <=> owns cluster id 1..255 with cardinality >= 1; passive <=> joined, known leader, armed leader-lost timer; transmission suppressed only while passive or idle), bounded-liveness probes from every reachable passive state (silent leader / break-up => stand-alone and transmitting by the next update), notification-duration monitors, and closed loops of two and three complete VRU services through the real VAM coder (a join towards an advertised cluster completes).",
   note="Trusted: CPython, asn1tools, deepcopy snapshots (each replay-checked), invariants/monitors in mc/checks/c18.py. Durations pinned to vam_constants.py (standard not available offline). update() is driven by the harness (the service never calls it).",
   technique="explicit-state BFS over the real state machine with invariants, bounded-liveness probes on copies and closed-loop worlds"),
 "C17": dict(level="model_checking", design="3/C17",
   text="Every configuration of the lattice interval {100,150,1000,10000} ms x duration {0,1,(99),100,101,250,1000,(60000)} ms x 1-3 events with overlap offsets {0, i/2, i} x event positions in all hemispheres is executed under the controlled scheduler on a virtual clock: the service's repetition threads are controlled threads, time.sleep is a scheduling point and equal wake-up times are enumerated in every order with up to 2 departures from the default order; every BTPDataRequest is recorded with its virtual time, decoded with the DENM coder and checked for ceil(T/i) messages at 0,i,2i,.., port 2002, GBC circle centred on that event's position, constant actionId/station id per event, non-decreasing reference time, distinct actionIds for distinct events. Plus bytecode-level interleavings (preemption bound 1, 2 thorough) of two overlapping events inside the transmission management, plus reception of DENMs with all 32 presence patterns of the optional management fields into a real LDM at 7 positions.",
   note="Trusted: CPython, asn1tools for decoding, the scheduler mc/sched.py (same-schedule-twice determinism check). Events are attributed to their repetition thread.",
   technique="controlled-scheduler enumeration of wake-up orders on a virtual clock over a finite configuration lattice"),
 "C15": dict(level="model_checking", design="3/C15",
   text="Stateless schedule exploration with iterative context bounding of six harnesses of the REAL router (sequence numbers: 3 originators; CBF: two receptions of the same packet racing with the timer; the CBF seam called directly; ego-position refresh racing with originations; location service: two unicast requests, the reply and the retransmit timers; duplicate detection): scheduling points before every shared-state bytecode of router.py/location_table.py and at every lock/timer operation; every schedule with <= 1 preemption (2 on the two small harnesses; thorough: 2 and 3) is executed on fresh real objects and checked for pairwise distinct sequence numbers, at-most-once CBF transmission and never after a completed cancellation, whole position vectors, exactly-once-or-dropped unicast requests, no exception, no deadlock.",
   note="Trusted: CPython incl. C-level atomicity of dict/deque operations, mc/sched.py. Preemption bounds as stated per harness in the evidence; timers may expire at any point after start().",
   technique="stateless model checking of real threads under a controlled scheduler, iterative context (preemption) bounding"),
 "C10": dict(level="model_checking", design="3/C10",
   text="Explicit-state BFS over trajectories of the REAL CAMTransmissionManagement and VAMTransmissionManagement (with the real coders, virtual timers and clock): events = T_CheckCamGen timer ticks, position reports with a dynamics step from a threshold menu (heading +4.0/+4.1 deg incl. across 359->3, position +4.0/+4.1 m, speed +0.50/+0.51 m/s, missing optional fields), report periods 20/100/250/1000 ms, gaps, stop/start; 15 parts with state merging on relative quantities (two of them close their state graph), a direct transcription of the statement stepped in lock-step and compared on every emitted message (decoded, time-stamped by the virtual clock): spacing >= 100 ms and <= 1 s + one check period, trigger at the first eligible check, low-frequency container cadence, nothing before start / after stop, generationDeltaTime = report ITS time mod 65536 (also on a lattice of absolute times around multiples of 65536 ms), VAM first-report / T_GenVamMin / T_GenVamMax / LF rules.",
   note="Trusted: CPython, asn1tools, mc/ref/cam_rules.py and vam_rules.py (transcriptions of the statement), deepcopy snapshots cross-checked by replay. Depth caps per part in the evidence.",
   technique="explicit-state BFS over real objects on a virtual clock with a rule model in lock-step"),
 "C11": dict(level="exploration", design="3/C11",
   text="Complete enumeration of declared finite lattices of position/time/velocity reports through the REAL CAM/VAM/DENM builders: every threshold of the value tables with +-1 resolution step (latitude, longitude, altitude, speed, track, epx/epy/epv/epd), every subset of the optional report fields, all station types and vehicle roles, every clustering phase for the VAM cluster containers, DENM requests over hemispheres/heading/confidence/speed, all pairs of out-of-range fields; the produced octets are decoded with the repository's coder and compared field by field with an independent mapping oracle (value to the element's resolution or its outOfRange/unavailable code), re-encoding must reproduce the octets, generation must not raise; generationDeltaTime reconstruction for every age 0..65535 ms x receive instants around the wrap.",
   note="Trusted: CPython, asn1tools, mc/ref/cdd_map.py (written from the CDD value tables; where a boundary is ambiguous both readings are accepted).",
   technique="exhaustive finite-lattice enumeration through the real message builders against an independent mapping oracle"),
 "C12": dict(level="model_checking", design="3/C12",
   text="Explicit-state BFS over operation histories of the REAL LDM (factory-built, Dictionary back-end, reactive maintenance, virtual clock): register/deregister providers and consumers (CAM, DENM, VAM, CPM, invalid id), add (two payloads, validity 0/1/2/5 s, four locations incl. the LDM's own position and far outside the area), update (existing/missing id), delete, clock advances 0.4/1/2/5 s, explicit maintenance - in three parts with forced collisions (same object twice in one second, identifier equal to an ITS-AID, expiry against advance). After every transition unfiltered requests of registered and unregistered consumers, the by-identifier view and the registries are compared with a reference map model (window between expiry and maintenance accepts both answers).",
   note="Trusted: CPython, mc/ref/ldm_model.py RefStore, deepcopy snapshots cross-checked by replay. Depth 5 (6-7 thorough), <= 3-4 objects. Branches behind a listed finding are cut and counted.",
   technique="explicit-state BFS over real objects with a reference map model in lock-step"),
 "C13": dict(level="model_checking", design="3/C13",
   text="BFS over add/delete histories producing every store of up to 3 (4 thorough) objects from a pool of CAMs with/without optional containers, DENMs and a VAM, executed on the Dictionary AND the TinyDB back-end side by side; at every distinct store the complete declared query lattice is sent through IF.LDM.4 on both back-ends: 12 attribute paths (mandatory, optional, inside CHOICE, missing) x 8 operators x 4 reference values x type selections, two-statement filters joined by and/or, one- and two-key orders in both directions - compared with a brute-force predicate evaluator and between the back-ends.",
   note="Trusted: CPython, brute-force evaluator in mc/ref/ldm_model.py. TinyDB on a scratch file under mkdtemp (removed). Stores containing bytes are Dictionary-only (listed finding C13-K4).",
   technique="explicit-state BFS over stores x exhaustive finite query lattice against a brute-force reference, differential between back-ends"),
 "C14": dict(level="model_checking", design="3/C14",
   text="Explicit-state BFS over histories of subscribe (11 parameter variants incl. every invalid combination), unsubscribe, register/deregister of two consumers, add (reactive attendance), clock advances 0.5/1/2 s and explicit attendance on the REAL LDM; a reference subscription table decides at every attendance which live subscription must receive exactly one callback with exactly the matching objects in order (multiplicity, 1-s-resolution interval since the previous notification; both readings accepted before the first), that none fires after unsubscribe/deregistration, that other subscriptions are untouched, and the result codes of invalid requests.",
   note="Trusted: CPython, mc/ref/ldm_model.py RefSubs, attendance observed through an instance-level probe (no source change). Depth 5 (6 thorough).",
   technique="explicit-state BFS over real objects with a reference subscription model in lock-step"),
 "C16": dict(level="model_checking", design="3/C16",
   text="Stateless schedule exploration (iterative context bounding, bytecode-level scheduling points inside all LDM modules and at every lock operation) of seven harnesses on the REAL LDM: add||add||request, two concurrent adds of one provider, add||delete||request, add||garbage collection of an expiring object||request, add (reactive attendance)||unsubscribe||attendance, deregister/register||request||subscribe, update||request||maintenance. Every schedule with <= 1 preemption (2 thorough) must produce per-operation results, callback payloads and a final store/registry content equal to those of SOME sequential order of the same operations on the same real implementation that respects real-time precedence (brute-force linearizability; the reactive add is ordered as its two atomic steps insert and collection); plus no exception, no deadlock.",
   note="Trusted: CPython incl. C-level atomicity of dict/list operations, mc/sched.py; the sequential behaviour of the LDM itself is the reference (its sequential defects are C12-C14's subject). TinyDB back-end outside the scheduler.",
   technique="stateless model checking under a controlled scheduler with brute-force linearizability against sequential runs of the implementation"),
}

NOT_APPLICABLE = {}

def main():
    checks = []
    for pid in sorted(CHECKS):
        c = CHECKS[pid]
        checks.append({
            "property_id": pid,
            "quick_cmd": f"cd /verif && {PY} -m mc.run {pid} --tier quick",
            "thorough_cmd": f"cd /verif && {PY} -m mc.run {pid} --tier thorough",
            "evidence_file": f"/verif/evidence/{pid}.json",
            "replay_cmd_template": f"cd /verif && {PY} -m mc.run {pid} --replay {{path}}",
            "engine": c.get("engine", "mc"),
            "level_claimed": {"category": c["level"], "text": c["text"], "design_ref": "DESIGN.md section " + c["design"]},
            "level_note": c["note"],
            "technique": c["technique"],
        })
    allp = [json.loads(l)["id"] for l in open(os.path.join(V, "properties.jsonl"))]
    na = []
    for pid in allp:
        if pid not in CHECKS:
            na.append({"property_id": pid, "reason": NOT_APPLICABLE.get(pid, "check under construction in this round; not claimed until its machinery is committed and silent on the unchanged tree")})
    m = {
        "version": 1,
        "setup_cmd": f"cd /verif && {PY} -m compileall -q mc && {PY} -c \"import sys; sys.path.insert(0,'/verif'); import mc.env\"",
        "hooks": {
            "guard": "FLEXSTACK_VERIF",
            "enable": "none needed: all nondeterminism is intercepted from outside by mc/env.py (threading/time/random/os.urandom shims installed before flexstack is imported); no source hooks exist in /repo",
            "baseline_off_cmd": "cd /repo && /venv/bin/python -m pytest -ra -q -p no:cacheprovider --timeout=900 --continue-on-collection-errors",
            "source_commits": [],
            "add_only": True,
        },
        "engines": [
            {"name": "mc", "path": "/verif/mc", "serves_properties": sorted(CHECKS),
             "kind_free_text": "hand-written explicit-state / schedule / finite-domain explorers over the real FlexStack objects (E0 env shims, E1 BFS over event histories, E2 controlled-scheduler interleaving explorer, E3 finite lattice enumerator)"},
        ],
        "checks": checks,
        "not_applicable": na,
        "notes": "All checks: python -m mc.run <id> --tier quick|thorough; exit 0 silent/known findings only, exit 1 with VIOLATION lines, exit 2 harness error. Known findings: /verif/known_findings.json.",
    }
    json.dump(m, open(os.path.join(V, "MANIFEST.json"), "w"), indent=1)
    print("checks:", len(checks), "not_applicable:", len(na))

if __name__ == "__main__":
    main()
