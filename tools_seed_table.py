#!/usr/bin/env python3
"""prints the markdown table of /verif/seeded/* for DESIGN.md 8.4"""
import json, glob, os, re
rows = []
for d in sorted(glob.glob('/verif/seeded/*/')):
    if not os.path.exists(d + 'meta.json'):
        continue
    m = json.load(open(d + 'meta.json'))
    name = os.path.basename(d.rstrip('/'))
    cq = m['confirmed_by_lead']['checks_quick']
    first = {x.split(':')[0]: x.split('=')[1] for x in cq.split()}
    caught_first = [c for c, e in first.items() if e == '1']
    re_ = [r for r in m.get('rechecks_after_strengthening', []) if r['exit'] == 1]
    if caught_first:
        verdict = 'reported by ' + ', '.join(caught_first)
        missed = [c for c, e in first.items() if e == '0']
        if missed:
            verdict += ' (not by ' + ', '.join(missed) + ')'
    elif re_:
        verdict = 'MISSED at first; reported by ' + ', '.join(sorted({r['check'] for r in re_})) + ' after strengthening'
    else:
        verdict = 'missed (' + cq + ')'
    note = m.get('note_lead')
    if note:
        verdict += '; ' + note
    b = (m.get('breaks') or '').replace('|', '/').replace('\n', ' ')
    b = re.sub(r'\s+', ' ', b)[:170]
    n = (m.get('needs') or '').replace('|', '/').replace('\n', ' ')
    n = re.sub(r'\s+', ' ', n)[:150]
    rows.append(f"| {name} | {b} | {n} | {verdict} |")
print("| id | change | needs | quick tier |\n|---|---|---|---|")
print("\n".join(rows))
