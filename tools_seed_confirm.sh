#!/bin/bash
# usage: tools_seed_confirm.sh <Cxx> <seed worktree> <out dir of the agent> [check ids...]
# Confirms a seeded defect independently in a FRESH scratch worktree and files it under /verif/seeded/<Cxx>-<n>/
id=$1; wt=$2; out=$3; shift 3; checks="${@:-$id}"
n=1; while [ -d /verif/seeded/$id-$n ]; do n=$((n+1)); done
dst=/verif/seeded/$id-$n; mkdir -p $dst
cp $out/patch.diff $dst/patch.diff; cp $out/meta.json $dst/agent_meta.json 2>/dev/null
demo=$(ls $out/demo.py $out/test_demo.py 2>/dev/null | head -1); cp $demo $dst/
scratch=/tmp/confirm_$id_$$; git -C /repo worktree add --detach $scratch -q
cd $scratch
base_demo=$( (cd $dst && PYTHONPATH=$scratch/src timeout 120 /venv/bin/python $(basename $demo) >/tmp/confirm_demo0_$$.log 2>&1; echo $?) )
git apply $dst/patch.diff || { echo "PATCH DOES NOT APPLY"; }
suite=$(PYTHONPATH=$scratch/src /venv/bin/python -m pytest -q -p no:cacheprovider --timeout=900 2>&1 | tail -1)
mut_demo=$( (cd $dst && PYTHONPATH=$scratch/src timeout 120 /venv/bin/python $(basename $demo) >/tmp/confirm_demo1_$$.log 2>&1; echo $?) )
res=""
for c in $checks; do
  (cd /verif && VERIF_REPO=$scratch timeout 3000 /venv/bin/python -m mc.run $c --tier quick > /tmp/confirm_chk_$$.log 2>&1; echo $? > /tmp/confirm_rc_$$)
  rc=$(cat /tmp/confirm_rc_$$); det=$(grep -m1 "detail:" /tmp/confirm_chk_$$.log | cut -c1-300)
  res="$res $c:exit=$rc"
  echo "$c exit=$rc $det" >> $dst/check_result.txt
done
cd /; git -C /repo worktree remove --force $scratch; git -C /repo worktree prune
python3 - "$dst" "$id" "$suite" "$base_demo" "$mut_demo" "$res" <<'PY'
import json,sys,os
dst,id,suite,b,m,res=sys.argv[1:7]
am={}
try: am=json.load(open(os.path.join(dst,'agent_meta.json')))
except Exception: pass
meta={"property":id,"breaks":am.get("summary"),"file":am.get("file"),"needs":am.get("needs"),
 "confirmed_by_lead":{"suite_with_change":suite,"demo_exit_without_change":int(b),"demo_exit_with_change":int(m),"checks_quick":res.strip(),
 "how":"fresh scratch worktree of /repo HEAD; git apply patch.diff; PYTHONPATH=<wt>/src pytest; demo both ways; VERIF_REPO=<wt> python -m mc.run <id> --tier quick"}}
json.dump(meta,open(os.path.join(dst,'meta.json'),'w'),indent=1)
print(dst, json.dumps(meta["confirmed_by_lead"]))
PY
